"""C15 - input coercion and input validation agree (structural clauses)."""
from __future__ import annotations

from rules import generic_rules as G
from rules import coercion_rules as K
from sa.loader import Repo
from sa.report import Check

EXPLANATION = (
    "SIBLING-ATOMS (feature-presence matrix over coerce_input_value / validate_input_value_impl and "
    "coerce_input_literal / validate_input_literal_impl: every rejection atom is handled by every "
    "sibling), DOMAIN-GUARDS (every return path of the Int/Float input coercers is dominated by the "
    "32-bit range test / isfinite), BOOL-EXCLUSION (int acceptance tests exclude bool), REGEX-ANCHOR "
    "(whole-string classification regexes do not accept a trailing line feed)."
)
LEVEL_TEXT = (
    "Static decision of necessary conditions for 'coercion succeeds iff validation reports nothing' "
    "and 'a result conforms to the type': siblings handle the same rejection atoms, and no return "
    "path of a built-in input coercer can produce an out-of-range Int or a non-finite Float. "
    "Agreement on all (type, value) pairs is not evaluated."
)
LEVEL_NOTE = "Trusted: CPython ast; must-facts dataflow; the atom detectors listed in rules/coercion_rules.py."
TECHNIQUE = "sibling cross-check (atom matrix) + return-path guard dominance on the CFG (static analysis)"

INPUT_ROLES = ("coerce_input_value", "coerce_input_literal")


def run(check: Check, repo: Repo, tier: str) -> None:
    K.sibling_atoms(check, repo)
    K.sibling_details(check, repo)
    K.field_requiredness(check, repo)
    K.variable_arm(check, repo)
    K.undefined_never_completes(check, repo)
    K.int_atoms(check, repo)
    K.int_range_table(check, repo)
    K.enum_input_classes(check, repo)
    K.enum_direction(check, repo)
    K.str_verbatim(check, repo)
    K.literal_rule_delegates(check, repo)
    # the literal rule sees the input type TypeInfo hands it: a slot or stack left over from an
    # earlier node makes the rule skip or mistype a constant argument (shared with C12)
    from rules import validation_rules as V
    from sa.resolve import ClassIndex
    V.typeinfo_balance(check, repo, ClassIndex(repo))
    K.domain_guards(check, repo, INPUT_ROLES)
    check.floor("DOMAIN-GUARDS", 6, "input coercers and helpers")
    sc = K.scalar_coercers(repo)
    funcs = []
    for roles in sc.values():
        for role in (*INPUT_ROLES, "value_to_literal"):
            if role in roles:
                funcs.append(roles[role])
    funcs.append(repo.func("utilities.value_to_literal", "default_scalar_value_to_literal"))
    K.bool_exclusion(check, repo, funcs)
    check.floor("BOOL-EXCLUSION", 4, "int acceptance tests")
    G.sentinel_identity(check, [repo.mod(m) for m in ("utilities.coerce_input_value", "utilities.validate_input_value",
                                                      "utilities.value_to_literal", "utilities.replace_variables",
                                                      "utilities.ast_from_value", "utilities.value_from_ast_untyped",
                                                      "type.scalars", "type.definition", "execution.values")])
    check.floor("SENTINEL-IDENTITY", 20, "comparisons against Undefined on the coercion path")
    K.regex_fullmatch(check, repo, ["type.scalars", "utilities.value_to_literal", "utilities.ast_from_value"])
    from rules import exec_rules as X
    X.attr_memo(check, repo, [repo.mod(m) for m in ("utilities.coerce_input_value", "utilities.validate_input_value", "utilities.value_to_literal",
                                                   "utilities.get_default_value_ast", "execution.values")])
    check.floor("ATTR-MEMO", 1, "object-attribute memos on the coercion path")
