"""C03 - the response does not depend on completion order (structural clauses)."""
from __future__ import annotations

from rules import generic_rules as G
from rules import exec_rules as X
from rules import identity
from sa.loader import Repo
from sa.report import Check

EXPLANATION = (
    "ID-PIN (identity-keyed memos of the executor keep their keys alive, so a memo can only hit for "
    "the same field group), MEMO-KEY-COVER (every input of a memoised computation is part of its key), "
    "SERIAL (serial root execution exactly for mutations, no concurrency primitive on the serial "
    "path, data dependency on the awaited accumulator), KEY-ORDER (result keys/indices are fixed by "
    "the synchronous pass; completions only overwrite recorded positions)."
)
LEVEL_TEXT = (
    "Static decision of the clauses of schedule-independence that are visible in code shape: what "
    "the sub-selection memo can hit on, where result keys are created, and that the serial path has "
    "no source of overlap. Equality of data under all completion orders is not evaluated."
)
LEVEL_NOTE = "Trusted: CPython ast; origin analysis bounded at depth 6; the concurrency-primitive name list."
TECHNIQUE = "identity-key pinning via local/interprocedural origin analysis + structural path rules (static analysis)"


def run(check: Check, repo: Repo, tier: str) -> None:
    mods = [repo.mod("execution.executor"), repo.mod("pyutils.ref_map"), repo.mod("pyutils.ref_set"),
            repo.mod("execution.collect_fields")]
    if tier == "thorough":
        mods = list({m.name: m for m in mods + repo.package_modules("execution") + repo.package_modules("pyutils")}.values())
    n = identity.check_id_pin(check, repo, mods)
    check.floor("ID-PIN", 5, "id() call sites in the executor and its identity containers")
    X.memo_key_cover(check, repo)
    X.memo_discovery(check, repo, repo.package_modules('execution'))
    X.nonnull_after_completion(check, repo)
    X.null_by_identity(check, repo)
    X.path_threading(check, repo)
    G.param_readonly(check, list(repo.mod("error.located_error").functions()))
    X.serial(check, repo)
    X.key_order(check, repo)
    X.awaitable_kinds(check, repo)
    X.typecheck_before_subfields(check, repo)
    em = repo.package_modules('execution')
    X.zip_align(check, repo, em)
    G.loop_counter(check, [f for m in em for f in m.functions()])
    check.floor("LOOP-COUNTER", 2, "manually indexed completion loops")
    G.zip_filter(check, em)
    G.arg_name_match(check, repo, [f for m in em for f in m.functions()])
    check.floor("ARG-NAME-MATCH", 100, "resolved calls with >= 2 named positional arguments in execution/")
    X.handler_nulls(check, repo, em)
    X.handler_type_arg(check, repo, em)
    X.await_guard(check, repo, em)
    X.cancel_settle(check, repo, [repo.mod('pyutils.gather_with_cancel')], floor=1)
    check.floor("KEY-ORDER", 6, "stores / gathers in the concurrent completion functions")
