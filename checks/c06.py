"""C06 - stopping early never hangs or leaks (structural clauses)."""
from __future__ import annotations

from rules import exec_rules as X
from sa.loader import Repo
from sa.report import Check

EXPLANATION = (
    "HOOK-ONCE (path count {0,1,>=2} of async_work_finished discharges on typed CFGs of the operation entry "
    "points, exceptional edges from interprocedural may-raise summaries), FIN-CLEANUP (cleanup "
    "must-pass-through in _subscribe / aclosing / async iterator completion), TRACK-BEFORE-AWAIT (futures "
    "registered before the first suspension point), CANCEL-SETTLE (cancelled tasks are awaited before the "
    "caller is released), CLEANUP-GATHER (no fail-fast gather on cleanup paths), ABORT-RESULT-USED (the "
    "asynchronous remainder of an abort is never discarded), TWIN-HANDLERS (sync/async twins wrap the same "
    "exception classes)."
)
LEVEL_TEXT = "Static decision of cleanup pairing on all paths; quiescence under every schedule is not decided."
LEVEL_NOTE = "Trusted: CPython ast; may-raise summaries over explicit raises (calls through unresolved callables are assumed not to raise)."
TECHNIQUE = "typed-CFG path counting with interprocedural may-raise summaries (static analysis)"


def run(check: Check, repo: Repo, tier: str) -> None:
    X.hook_once(check, repo)
    mods = repo.package_modules("execution") + [repo.mod("pyutils.gather_with_cancel"), repo.mod("pyutils.abort_signal"),
                                                repo.mod("pyutils.async_reduce")]
    X.fin_cleanup(check, repo)
    X.track_before_await(check, repo, mods)
    X.cancel_settle(check, repo, mods)
    X.cleanup_gather(check, repo, mods)
    X.abort_result_used(check, repo, mods)
    X.twin_handlers(check, repo, repo.package_modules('execution'))
    X.cancel_aborts(check, repo)
    X.prime_tracked(check, repo, repo.package_modules("execution"))
    X.shared_trackers(check, repo)
    X.cancel_catch(check, repo, mods)
    X.abort_wrap(check, repo)
    X.cancel_drains(check, repo)
    X.unintegrated_work(check, repo)
    X.abort_callback(check, repo)
    X.handover_owner(check, repo)
    X.nulled_work_aborted(check, repo)
    X.work_always_collected(check, repo)
    X.once_flag_first(check, repo)
    X.no_wait_after_flag(check, repo)
    X.hook_after_drain(check, repo)
    X.advance_close_same_object(check, repo)
    X.cleanup_settles_pending(check, repo)
    X.future_exception_guard(check, repo, repo.package_modules('execution'))
    from rules import stream_rules as T

    T.error_keeps_items(check, repo)
    T.drain_guarded(check, repo)
