"""C06 - stopping early never hangs or leaks (structural clauses)."""
from __future__ import annotations

from rules import exec_rules as X
from sa.loader import Repo
from sa.report import Check

EXPLANATION = "HOOK-ONCE (path-count of hook discharges on typed CFGs of the operation entry points)."
LEVEL_TEXT = "Static decision of cleanup pairing on all paths; quiescence under every schedule is not decided."
LEVEL_NOTE = "Trusted: CPython ast; may-raise summaries over explicit raises (calls through unresolved callables are assumed not to raise)."
TECHNIQUE = "typed-CFG path counting with interprocedural may-raise summaries (static analysis)"


def run(check: Check, repo: Repo, tier: str) -> None:
    X.hook_once(check, repo)
