"""C13 - a validated document cannot go wrong: rule-set integrity only."""
from __future__ import annotations

from rules import generic_rules as G
from rules import validation_rules as V
from rules.astmodel import AstModel
from sa.loader import Repo
from sa.report import Check
from sa.resolve import ClassIndex

EXPLANATION = (
    "REGISTRY (every rule class defined under validation/rules is listed in a rule tuple; executable "
    "rules in specified_rules), REACHABLE-KINDS (every kind-specific handler of a registered rule names "
    "a kind the validation traversal reaches), ERROR-DISCIPLINE (no constructed error is dropped), "
    "PARALLEL-STACKS + TYPEINFO-BALANCE (the type context rules rely on is pushed/popped consistently), "
    "and on the execution side AWAIT-GUARD, COLLECT-GUARD, HANDLER-NULLS (errors on conforming data cannot "
    "come from awaiting plain values, from selections dropped by collection, or from stale values)."
)
LEVEL_TEXT = (
    "Static decision of rule-set integrity: a rule that exists but is not registered, or whose "
    "handler can never run, or whose error is never reported, silently accepts documents that then "
    "go wrong at execution. Soundness of the rules with respect to the executor is not decided."
)
LEVEL_NOTE = "Trusted: CPython ast; resolution of class references through the package's import statements."
TECHNIQUE = "class-hierarchy / registry table comparison over the resolved import graph (static analysis)"


def run(check: Check, repo: Repo, tier: str) -> None:
    classes = ClassIndex(repo)
    model = AstModel(repo)
    tuples = V.registry(check, repo, classes)
    V.reachable_kinds(check, repo, classes, model, tuples)
    mods = [m for m in repo.package_modules("validation.rules") if ".custom" not in m.name]
    V.error_discipline(check, repo, mods)
    V.parallel_stacks(check, repo, classes)
    from rules import coercion_rules as K
    K.field_requiredness(check, repo)
    K.variable_arm(check, repo)
    V.operation_scoped(check, repo, mods)
    V.leafs_partition(check, repo)
    from rules import exec_rules as X

    X.memo_discovery(check, repo, [repo.mod("validation.validation_context"), repo.mod("utilities.type_info")])
    # memos kept by the rules themselves, in their visitor handlers
    X.memo_discovery(check, repo, [m for m in repo.package_modules("validation") if m.name.startswith("graphql.validation.rules.") and ".custom" not in m.name],
                     only=lambda f: getattr(f, "name", "").startswith(("enter_", "leave_")))
    G.emptiness_guard(check, list(repo.mod("type.validate").functions()))
    from rules import sdl_rules as D

    D.assume_valid_fresh(check, repo)
    K.validator_no_early_return(check, repo)
    G.independent_keys(check, [f for mn in ("execution.values", "utilities.coerce_input_value", "utilities.validate_input_value") for f in repo.mod(mn).functions()])
    X.zip_align(check, repo, repo.package_modules("execution"))
    from rules import identity
    identity.check_id_pin(check, repo, [repo.mod("execution.executor"), repo.mod("pyutils.ref_map"), repo.mod("execution.collect_fields"),
                                        repo.mod("execution.values")])
    check.floor("ID-PIN", 5, "id() sites")
    K0 = __import__("rules.coercion_rules", fromlist=["x"])
    K0.domain_guards(check, repo, ("coerce_output_value", "coerce_input_value", "coerce_input_literal"))
    check.floor("OPERATION-SCOPED", 2, "per-operation containers of validation rules")
    from rules import merge_rules as M
    M.subsumption(check, repo)
    V.typeinfo_balance(check, repo, classes)
    from rules import exec_rules as X
    em = repo.package_modules("execution")
    X.await_guard(check, repo, em)
    X.collect_guard(check, repo)
    X.handler_nulls(check, repo, em)
    from rules import kind_tables as KT
    from rules import schema_rules as S
    kp = S.predicate_classes(repo)
    tc = "utilities.type_comparators"
    KT.kind_table(check, repo, repo.func(tc, "is_type_sub_type_of"), "maybe_subtype", "super_type",
                  KT.spec_is_type_sub_type_of("maybe_subtype", "super_type"), kp)
    KT.kind_table(check, repo, repo.func(tc, "do_types_overlap"), "type_a", "type_b", KT.spec_do_types_overlap("type_a", "type_b"), kp,
                  kinds=("Object", "Interface", "Union"), what="(composite kinds)")
    G.sentinel_identity(check, em + [repo.mod(m) for m in ("utilities.coerce_input_value", "utilities.validate_input_value",
                                                           "utilities.replace_variables", "validation.rules.values_of_correct_type",
                                                           "validation.rules.variables_in_allowed_position")])
    check.floor("SENTINEL-IDENTITY", 15, "comparisons against Undefined")
    check.floor("KIND-TABLE", 2, "kind-dispatch functions folded into decision tables")
    from rules import schema_rules as S2
    wmods = [m for m in repo.package_modules("validation") if ".custom" not in m.name] + repo.package_modules("execution") + [
        repo.mod(x) for x in ("utilities.coerce_input_value", "utilities.validate_input_value", "utilities.value_from_ast",
                              "utilities.ast_from_value", "utilities.value_to_literal", "type.validate")]
    S2.wrapped_kind_test(check, repo, wmods)
