"""C13 - a validated document cannot go wrong: rule-set integrity only."""
from __future__ import annotations

from rules import validation_rules as V
from rules.astmodel import AstModel
from sa.loader import Repo
from sa.report import Check
from sa.resolve import ClassIndex

EXPLANATION = (
    "REGISTRY (every rule class defined under validation/rules is listed in a rule tuple; executable "
    "rules in specified_rules), REACHABLE-KINDS (every kind-specific handler of a registered rule names "
    "a kind the validation traversal reaches), ERROR-DISCIPLINE (no constructed error is dropped)."
)
LEVEL_TEXT = (
    "Static decision of rule-set integrity: a rule that exists but is not registered, or whose "
    "handler can never run, or whose error is never reported, silently accepts documents that then "
    "go wrong at execution. Soundness of the rules with respect to the executor is not decided."
)
LEVEL_NOTE = "Trusted: CPython ast; resolution of class references through the package's import statements."
TECHNIQUE = "class-hierarchy / registry table comparison over the resolved import graph (static analysis)"


def run(check: Check, repo: Repo, tier: str) -> None:
    classes = ClassIndex(repo)
    model = AstModel(repo)
    tuples = V.registry(check, repo, classes)
    V.reachable_kinds(check, repo, classes, model, tuples)
    mods = [m for m in repo.package_modules("validation.rules") if ".custom" not in m.name]
    V.error_discipline(check, repo, mods)
