"""C05 - the payload stream obeys the protocol: typestate of the translator (structural clauses)."""
from __future__ import annotations

from rules import generic_rules as G
from rules import stream_rules as T
from sa.loader import Repo
from sa.report import Check

EXPLANATION = (
    "EVENT-DISPATCH (an arm per work-queue event class), ID-LIFECYCLE (who writes _ids/_next_id; "
    "completed <-> id deleted pairing per branch; single producer of PendingResult), TERMINATION "
    "(has_next false only on the termination event, emitted only when no root work remains; _subscribe "
    "stops after it), ROOT-SET-PAIRING (completion events paired with root-set removal)."
)
LEVEL_TEXT = (
    "Static decision of pairing / single-site clauses of the delivery protocol in the translator. "
    "Trace properties over schedules (nesting order of announcements, gap-free stream items) are not decided."
)
LEVEL_NOTE = "Trusted: CPython ast; write-site enumeration incl. bound-method aliases."
TECHNIQUE = "dispatch exhaustiveness + pairing rules over write sites (static analysis)"


def run(check: Check, repo: Repo, tier: str) -> None:
    T.event_dispatch(check, repo)
    T.id_lifecycle(check, repo)
    T.termination(check, repo)
    T.root_set_pairing(check, repo)
    T.announce_cover(check, repo)
    T.ancestor_walk(check, repo)
    T.graph_owners(check, repo)
    T.error_keeps_items(check, repo)
    T.pump_pacing(check, repo)
    T.prune_undelivered(check, repo)
    T.drain_guarded(check, repo)
    from rules import exec_rules as X

    X.future_exception_guard(check, repo, repo.package_modules('execution'))
    G.param_readonly(check, [repo.func('execution.incremental.incremental_executor', 'IncrementalExecutor.get_new_delivery_group_map')])
    G.iter_mutation(check, [f for m in repo.package_modules('execution') for f in m.functions()])
    check.floor("ITER-MUTATION", 40, "functions with loops in execution/")
    T.stale_loop_var(check, repo, repo.package_modules('execution.incremental'))
    check.floor('STALE-LOOP-VAR', 10, 'loops with loop-local names')
    G.loop_counter(check, [f for m in repo.package_modules('execution') for f in m.functions()])
    check.floor("LOOP-COUNTER", 2, "manually indexed loops in execution/")
