"""C09 - ignored tokens are ignored: lexical tables and the token limit (structural clauses)."""
from __future__ import annotations

from rules import language_rules as L
from rules import lt_agree
from sa.loader import Repo
from sa.report import Check

EXPLANATION = (
    "LEX-TABLES (ignored characters, punctuator tables, TokenKind values and the character-class "
    "predicates - evaluated over ASCII and non-ASCII probes - equal the spec's lexical grammar), "
    "TOKEN-COUNT (single choke point, increment iff not EOF, strict limit comparison), COMMENT-SKIP, "
    "NUMBER-LOOKAHEAD (rejected follow set after numbers), LT-AGREE for strip_ignored_characters "
    "(through print_block_string)."
)
LEVEL_TEXT = (
    "Static decision that the lexer's tables are the specification's tables and that token "
    "counting has one choke point with an exact comparison. Invariance of the AST under every "
    "layout rewrite is not evaluated."
)
LEVEL_NOTE = "Trusted: CPython ast; the spec tables encoded in rules/language_rules.py; a small interpreter for pure predicate expressions."
TECHNIQUE = "constant-table folding + abstract evaluation of pure predicates over character classes (static analysis)"

SCOPE = ["utilities.strip_ignored_characters", "language.block_string", "language.lexer"]


def run(check: Check, repo: Repo, tier: str) -> None:
    L.lex_tables(check, repo)
    check.floor("LEX-TABLES", 20, "table entries / predicates")
    L.token_count(check, repo)
    L.strip_always_lexes(check, repo)
    L.separator_table(check, repo)
    L.block_print_table(check, repo)
    L.lexer_ascii_classes(check, repo)
    from checks.c01 import lex_bounds

    lex_bounds(check, repo)
    L.block_string_steps(check, repo)
    L.hex_digit_table(check, repo)
    L.number_lookahead(check, repo)
    L.number_parts(check, repo)
    lt_agree.check_lt_agree(check, repo, scope=SCOPE)
    check.floor("LT-AGREE", 2, "line-splitting constructs")
    lt_agree.lexer_newline_tests(check, repo)
    L.lexer_break_conditions(check, repo)
    L.block_string_predicates(check, repo)
    L.optional_truthiness(check, repo, ['language.parser', 'language.lexer'])
    check.floor('OPTIONAL-TRUTHINESS', 1, 'tests of optional ints in parser.py')
