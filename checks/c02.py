"""C02 - execution computes what the spec computes: isolation and structure only."""
from __future__ import annotations

from rules import generic_rules as G
from rules import exec_rules as X, identity, schema_rules as S, write_effect as W
from rules.astmodel import AstModel
from sa.loader import Repo
from sa.report import Check

EXPLANATION = (
    "HISTORY-INDEPENDENCE (typed write-effect scan of execution/ and the coercion utilities: executing "
    "a request writes nothing to schema, AST or module state except two reasoned memo sites), ID-PIN + "
    "MEMO-KEY-COVER (memo sites discovered automatically; identity keys pinned; every input of the "
    "memoised value in the key), COLLECT-GUARD (no effect of a selection before its @skip/@include "
    "decision), DISPATCH-EXH (complete_value / coerce_input_* / collect_fields_impl cover their closed "
    "families), HANDLER-NULLS, ZIP-ALIGN."
)
LEVEL_TEXT = (
    "Static decision of request-to-request isolation and of structural necessary conditions of the "
    "collection/completion algorithm. Equality with the specification's algorithm on all inputs is "
    "not decided."
)
LEVEL_NOTE = "Trusted: CPython ast; mypy receiver types; allow-listed memo sites carry one reason each."
TECHNIQUE = "typed write-effect analysis + memo key coverage + guard dominance (static analysis)"

ALLOW = {
    ("coerce_default_value", "default_input._memoized_coerced_value"):
        "written once per default; computed from the default and its type only (no request-scoped argument "
        "is passed to coerce_input_literal / coerce_input_value at that call)",
    ("coerce_default_value", "default_input._memoized_type"):
        "the type the memoised value was coerced for; the hit test compares it with the type in hand (ATTR-MEMO)",
}


def run(check: Check, repo: Repo, tier: str) -> None:
    check.rule("HISTORY-INDEPENDENCE", "typed write-effect scan (see rules/write_effect.py); allow-listed memo sites: "
               + "; ".join(f"{k[0]}: {v}" for k, v in ALLOW.items()))
    prot = W.Protected(repo)
    mods = repo.package_modules("execution") + [repo.mod(m) for m in (
        "utilities.coerce_input_value", "utilities.validate_input_value", "utilities.replace_variables",
        "utilities.value_to_literal", "utilities.type_from_ast")]
    funcs = [f for m in mods for f in m.functions()]
    W.check_writes(check, repo, "HISTORY-INDEPENDENCE", funcs, prot, allow=ALLOW)
    check.floor("HISTORY-INDEPENDENCE", 250, "write sites in execution/")
    # the memoised default is computed without request-scoped arguments
    import ast as _ast
    from sa.loader import call_name, unparse, walk_body
    cd = repo.func("utilities.coerce_input_value", "coerce_default_value")
    calls = [c for c in walk_body(cd) if isinstance(c, _ast.Call) and call_name(c) in ("coerce_input_literal", "coerce_input_value")]
    ok = bool(calls) and all(len(c.args) == 2 and not c.keywords for c in calls)
    check.ob("HISTORY-INDEPENDENCE", cd, "memoised default computed from (default, type) only", ok,
             f"{[unparse(c)[:60] for c in calls]}")
    em = [repo.mod("execution.executor"), repo.mod("pyutils.ref_map"), repo.mod("execution.collect_fields"),
          repo.mod("execution.values")]
    identity.check_id_pin(check, repo, em)
    check.floor("ID-PIN", 5, "id() sites")
    X.memo_key_cover(check, repo)
    X.memo_discovery(check, repo, repo.package_modules("execution"))
    X.attr_memo(check, repo, mods + [repo.mod("utilities.get_default_value_ast"), repo.mod("type.validate")])
    check.floor("ATTR-MEMO", 1, "object-attribute memos")
    X.collect_guard(check, repo)
    X.visited_then_collected(check, repo)
    X.resolver_args_fresh(check, repo)
    X.source_siblings(check, repo)
    X.leaf_always_coerced(check, repo)
    from rules import stream_rules as T5

    T5.field_lookup_by_name(check, repo)
    from rules import coercion_rules as K

    K.sibling_atoms(check, repo)
    K.sibling_details(check, repo)  # which value means "absent" (Undefined, never None) decides what a resolver receives for an explicit null
    G.param_readonly(check, list(repo.mod("error.located_error").functions()))
    S.nonnull_invariant(check, repo.package_modules("execution"))
    X.scope_threading(check, repo, [repo.mod(x) for x in ("execution.executor", "execution.execute", "execution.values", "execution.collect_fields",
                                                           "utilities.coerce_input_value", "utilities.replace_variables", "utilities.validate_input_value")])
    G.dispatch_loop_break(check, funcs)
    X.handler_nulls(check, repo, repo.package_modules("execution"))
    X.zip_align(check, repo, repo.package_modules("execution"))
    # the errors account for the positions that were nulled: item paths carry the right index (shared with C03)
    G.loop_counter(check, [f for m in repo.package_modules("execution") for f in m.functions()])
    check.floor("LOOP-COUNTER", 2, "manually indexed completion loops")
    X.path_threading(check, repo)
    G.sentinel_identity(check, mods)
    check.floor("SENTINEL-IDENTITY", 15, "comparisons against Undefined on the argument/variable path")
    # dispatch exhaustiveness
    check.rule("DISPATCH-EXH", "every member of a closed class family has a handling arm in the dispatch")
    preds = S.predicate_classes(repo)
    out_family = {"GraphQLScalarType", "GraphQLEnumType", "GraphQLObjectType", "GraphQLInterfaceType", "GraphQLUnionType",
                  "GraphQLList", "GraphQLNonNull"}
    in_family = {"GraphQLScalarType", "GraphQLEnumType", "GraphQLInputObjectType", "GraphQLList", "GraphQLNonNull"}
    S.dispatch_exhaustive(check, "DISPATCH-EXH", repo.func("execution.executor", "Executor.complete_value"), "return_type",
                          out_family, preds, {}, "complete_value")
    leaf_by_assert = {"GraphQLScalarType": "handled after assert_leaf_type (final arm)", "GraphQLEnumType": "handled after assert_leaf_type (final arm)"}
    for mn, fnname in (("utilities.coerce_input_value", "coerce_input_value"), ("utilities.coerce_input_value", "coerce_input_literal"),
                       ("utilities.validate_input_value", "validate_input_value_impl"), ("utilities.validate_input_value", "validate_input_literal_impl")):
        S.dispatch_exhaustive(check, "DISPATCH-EXH", repo.func(mn, fnname), "type_", in_family, preds, leaf_by_assert, fnname)
    model = AstModel(repo)
    sel = {c.name for c in model.subclasses("SelectionNode")}
    S.dispatch_exhaustive(check, "DISPATCH-EXH", repo.func("execution.collect_fields", "collect_fields_impl"), "selection", sel,
                          preds, {}, "collect_fields_impl", also_isinstance=True)
