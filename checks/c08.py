"""C08 - print/parse round trip: writer/reader agreement (structural clauses)."""
from __future__ import annotations

from rules import language_rules as L
from rules import lt_agree
from rules.astmodel import AstModel
from sa.loader import Repo, fixture
from sa.report import Check

EXPLANATION = (
    "LT-AGREE on the printer side (print_block_string must split on exactly the lexer's line "
    "terminators), ESCAPE-TABLES (print_string's escape table decodes under the lexer's tables), "
    "BLOCK-ESCAPE (the one block-string escape agrees writer/reader, canonical LF), "
    "PRINTER-COVERAGE (a leave_<kind> per node kind whose result depends on every field), "
    "PARSER-FIELDS (parser constructions pass every required field)."
)
LEVEL_TEXT = (
    "Static decision of writer/reader agreement clauses that the round trip needs: the printer "
    "and the lexer share one definition of line terminator and of every escape, and the printer "
    "covers every field of every node kind. The round-trip equality itself is not evaluated."
)
LEVEL_NOTE = "Trusted: CPython ast, re._parser; constant tables are folded from the source, never imported."
TECHNIQUE = "AST constant-table folding and writer/reader table comparison; class-model coverage (static analysis)"

SCOPE = ["language.block_string", "language.printer", "language.print_string", "language.lexer"]


def run(check: Check, repo: Repo, tier: str) -> None:
    model = AstModel(repo)
    counts = lt_agree.check_lt_agree(check, repo, scope=SCOPE)
    check.floor("LT-AGREE", 2, "line-splitting constructs in block_string/printer")
    lt_agree.lexer_newline_tests(check, repo)
    L.escape_tables(check, repo)
    L.block_escape(check, repo)
    L.escape_range(check, repo)
    L.escape_pairs(check, repo)
    L.hex_digit_table(check, repo)
    L.block_flag(check, repo)
    L.block_print_table(check, repo)
    L.list_separators(check, repo)
    L.printer_coverage(check, repo, model)
    L.parser_fields(check, repo, model)
    L.printer_per_return(check, repo, model)
    L.print_direct(check, repo)
    L.leaf_text_verbatim(check, repo)
    L.block_string_charset(check, repo)
    L.printer_no_cross_compare(check, repo, model)
    L.order_agree(check, repo, model, sides=("printer",), floor=30)
    L.ws_agree(check, repo, SCOPE + ['utilities.strip_ignored_characters'])
    check.note(node_classes=len(model.classes), kinds=len(model.kinds()), lt_sites=counts)
    from sa.report import Check as _C
    for name, expected in (("lt_bad", True), ("lt_ok", False)):
        probe = _C("control", "quick", repo, "")
        lt_agree.check_lt_agree(probe, repo, mods=[fixture(name)])
        check.control(f"LT-AGREE:{name}", fired=any(not o.ok for o in probe.obligations), expected=expected)
