"""C07 - subscription maps events one-to-one and in order (structural clauses)."""
from __future__ import annotations

from rules import exec_rules as X, stream_rules as T
from sa.loader import Repo
from sa.report import Check

EXPLANATION = (
    "ONE-YIELD (one `yield await callback(item)` per source item, inline await, no concurrency primitive, "
    "fresh per-event executor), SUB-CONVERT (GraphQLError -> errors-only result at the sync and awaited "
    "site; resolver errors located; results pass assert_event_stream), FRESH-STATE (result-bearing "
    "attributes re-initialised in every copy constructor), FIN-CLEANUP (source closed via aclosing), "
    "TWIN-HANDLERS."
)
LEVEL_TEXT = (
    "Static decision of the shape clauses of the event mapping: cardinality and order of yields, the "
    "conversion sites for source-creation failures, and isolation of per-event state. Per-event equality "
    "with execution is not evaluated."
)
LEVEL_NOTE = "Trusted: CPython ast; path counting over if/try inside the loop body."
TECHNIQUE = "structural path counting + copy-constructor freshness analysis (static analysis)"


def run(check: Check, repo: Repo, tier: str) -> None:
    T.one_yield(check, repo)
    T.subscription_convert(check, repo)
    T.fresh_state(check, repo)
    T.derived_state(check, repo)
    T.collected_origin(check, repo)
    from rules import generic_rules as G
    G.param_used(check, [repo.mod("execution.execute"), repo.mod("execution.async_iterables"), repo.mod("graphql")])
    X.memo_discovery(check, repo, repo.package_modules("execution"))
    X.fin_cleanup(check, repo)
    T.cm_no_swallow(check, repo, repo.package_modules('execution') + repo.package_modules('pyutils'))
    T.stream_disabled(check, repo)
    X.twin_handlers(check, repo, [repo.mod("execution.execute")])
    X.scope_threading(check, repo, [repo.mod("execution.execute"), repo.mod("execution.values")])
    X.option_independent(check, repo)
    from rules import stream_rules as T5

    T5.field_lookup_by_name(check, repo)
    T5.stream_predicate(check, repo)
    T5.per_event_pure(check, repo)
    X.resolver_args_fresh(check, repo)
    check.floors = {k: v for k, v in check.floors.items() if k != "TWIN-HANDLERS"}
    check.floor("TWIN-HANDLERS", 1, "twins in execute.py")
    from rules import total_rules as T1
    # an exception raised by located_error itself escapes the per-event execution
    T1.untrusted_attr(check, repo)
    from rules import type_witness as TW
    TW.type_witness(check, repo, repo.package_modules("execution") + repo.package_modules("pyutils"))
    check.floor("TYPE-WITNESS", 30, "modules type-checked")
