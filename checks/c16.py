"""C16 - leaf results stay in the spec's value domains (structural clauses)."""
from __future__ import annotations

from rules import coercion_rules as K
from sa.loader import Repo
from sa.report import Check

EXPLANATION = (
    "DOMAIN-GUARDS for the output coercers (serialize_int/serialize_float and helpers: every return "
    "path dominated by the 32-bit range test / isfinite), BOOL-EXCLUSION, TYPED-RETURNS (mypy's "
    "inferred type of every return expression of the five output coercers lies in the scalar's JSON "
    "domain, never Any), ENUM-DOMAIN (enum results are value names), NULL-REJECT (complete_leaf_value "
    "rejects None/Undefined)."
)
LEVEL_TEXT = (
    "Static decision that no return path of a built-in output coercer can yield an out-of-range, "
    "non-finite or wrongly typed value. Precision/meaning round trip with input coercion is not "
    "evaluated."
)
LEVEL_NOTE = "Trusted: CPython ast; mypy 2.3.1 inferred types (Any = violation); must-facts dataflow."
TECHNIQUE = "return-path guard dominance on the CFG + mypy-typed return domains (static analysis)"


def run(check: Check, repo: Repo, tier: str) -> None:
    # the input role is included for the clause that an emitted value is accepted back
    K.domain_guards(check, repo, ("coerce_output_value", "coerce_input_value"))
    check.floor("DOMAIN-GUARDS", 5, "output coercers and helpers")
    sc = K.scalar_coercers(repo)
    mod = repo.mod("type.scalars")
    funcs = [roles["coerce_output_value"] for roles in sc.values()]
    funcs += [f for f in mod.functions() if f.name.startswith("coerce_") and "_from_" in f.name]
    K.bool_exclusion(check, repo, funcs)
    check.floor("BOOL-EXCLUSION", 3, "int acceptance tests")
    K.typed_returns(check, repo)
    K.enum_domain(check, repo)
    K.null_reject(check, repo)
    K.exact_int(check, repo)
    K.float_exact(check, repo)
    K.str_verbatim(check, repo)
    K.int_range_table(check, repo)
