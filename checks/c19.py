"""C19 - schema transformations preserve meaning (structural clauses)."""
from __future__ import annotations

from rules import generic_rules as G
from rules import sdl_rules as D, schema_rules as S, write_effect as W
from sa.loader import Repo
from sa.report import Check

EXPLANATION = (
    "NO-MUTATION (typed write-effect scan: extend / map / sort / build / find_schema_changes never "
    "mutate a schema object or a collection read from one), EXTEND-BUILD-AGREE (per kind the extend "
    "mapper and the build case fold extension nodes through the same helpers; sibling mappers equal "
    "modulo kind; schema extensions incorporated unconditionally), CROSS-SCHEMA-IDENTITY (the change "
    "detector never compares old/new types by identity), DISPATCH-EXH (definition/extension kinds, "
    "mapper map keys)."
)
LEVEL_TEXT = (
    "Static decision of 'leaves the original unchanged' (no in-place mutation), and of structural "
    "agreement between the extend path and the build path. The algebraic laws on all schema pairs are "
    "not evaluated."
)
LEVEL_NOTE = "Trusted: CPython ast; mypy receiver types; one alias level."
TECHNIQUE = "typed write-effect analysis + sibling structural diff (static analysis)"

MODS = ["utilities.extend_schema", "utilities.map_schema_config", "utilities.lexicographic_sort_schema",
        "utilities.build_ast_schema", "utilities.find_schema_changes"]


def run(check: Check, repo: Repo, tier: str) -> None:
    check.rule("NO-MUTATION", "typed write-effect scan: no attribute/item store or mutating call whose receiver is a "
               "schema object, a collection read from one, an AST node or a module-level object")
    prot = W.Protected(repo)
    funcs = [f for mn in MODS for f in repo.mod(mn).functions()]
    W.check_writes(check, repo, "NO-MUTATION", funcs, prot)
    check.floor("NO-MUTATION", 40, "write sites in the schema transformation modules")
    D.extend_build_agree(check, repo)
    D.oneof_definition_only(check, repo)
    D.mapper_new_nodes_only(check, repo)
    D.root_overwrite(check, repo)
    D.root_names_agree(check, repo)  # build(A + B) and extend(build(A), B) agree on the conventional roots only if the convention test is the same
    D.change_flag(check, repo)
    D.cross_schema_identity(check, repo)
    G.zip_filter(check, [repo.mod(mn) for mn in MODS] + [repo.mod("utilities.find_schema_changes")])
    G.arg_name_match(check, repo, funcs)
    G.param_readonly(check, funcs)
    D.lazy_thunks(check, repo)
    D.sort_permutes(check, repo)
    from rules import language_rules as L

    L.optional_truthiness(check, repo, ["type.definition", "type.directives", "type.schema"], str_attrs=("description", "deprecation_reason", "specified_by_url"))
    G.independent_keys(check, funcs)
    G.kwargs_complete(check, repo, [repo.mod(mn) for mn in MODS] + [repo.mod("type.definition"), repo.mod("type.directives"), repo.mod("type.schema")])
    check.rule("DISPATCH-EXH", "every member of a closed class family has a handling arm in the dispatch")
    # extend_schema_args over definition / extension classes
    es = repo.func("utilities.extend_schema", "ExtendSchemaImpl.extend_schema_args")
    import ast as _ast
    from sa.loader import call_name, unparse, walk_body
    tested = set()
    for c in walk_body(es):
        if isinstance(c, _ast.Call) and call_name(c) == "isinstance" and len(c.args) == 2 and unparse(c.args[0]) == "def_":
            tested |= {x.id for x in _ast.walk(c.args[1]) if isinstance(x, _ast.Name)}
        elif isinstance(c, _ast.Match) and unparse(c.subject) == "def_":
            # the same dispatch written as `match def_: case XNode(): ...`
            for case in c.cases:
                for pat in _ast.walk(case.pattern):
                    if isinstance(pat, _ast.MatchClass):
                        tested |= {x.id for x in _ast.walk(pat.cls) if isinstance(x, _ast.Name)}
    for cls in ("SchemaDefinitionNode", "SchemaExtensionNode", "DirectiveDefinitionNode", "DirectiveExtensionNode",
                "TypeDefinitionNode", "TypeExtensionNode"):
        check.ob("DISPATCH-EXH", es, f"extend_schema_args: isinstance(def_, {cls})", cls in tested,
                 "collected" if cls in tested else "definitions of this class are ignored by extend_schema")
    # mapper map keys = SchemaElementKind members that have extensions
    D.type_dispatch(check, repo)
    from rules import exec_rules as X
    X.attr_memo(check, repo, [repo.mod(m) for m in ("utilities.extend_schema", "utilities.build_ast_schema", "utilities.coerce_input_value", "utilities.get_default_value_ast", "utilities.lexicographic_sort_schema")])
    check.floor("ATTR-MEMO", 1, "object-attribute memos reachable from schema printing / extension")
    D.or_fold(check, repo)
    D.args_oneline(check, repo)
