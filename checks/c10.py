"""C10 - every reported location is the true line and column (structural clauses)."""
from __future__ import annotations

from rules import generic_rules as G
from rules import location_rules as LR
from rules import lt_agree
from sa.loader import Repo, fixture
from sa.report import Check

EXPLANATION = (
    "LT-AGREE (every line-splitting construct in language/, error/ denotes exactly LF|CR|CRLF; "
    "str.splitlines is a strict superset), LOC-RENDER-AGREE (get_location and "
    "print_source_location use the same terminator language), LEXER-LT + LEXER-ACCOUNTING "
    "(every LF/CR branch of the lexer advances, counts and records the line start on all CFG "
    "paths), LOC-SINGLE-SOURCE (one place computes line/column), RENDER-TOTAL (no index read or "
    "max() in the rendering functions can raise)."
)
LEVEL_TEXT = (
    "Static decision of the clauses of C10 that are visible in code shape: which characters count "
    "as line terminators at every site that computes or renders a location, the pairing of the "
    "lexer's line bookkeeping on all paths, and the absence of undischarged raising operations in "
    "rendering. Numerical correctness for each (text, offset) is not evaluated."
)
LEVEL_NOTE = (
    "Trusted: CPython ast, re._parser (regex language extraction), the stated semantics of "
    "str.splitlines; RENDER-TOTAL lemmas are listed in the rule text."
)
TECHNIQUE = "AST/CFG rules: regex-language comparison, must-pass-through path queries, guard entailment (static analysis)"


def run(check: Check, repo: Repo, tier: str) -> None:
    scope = ["language.source", "language.location", "language.print_location", "language.lexer",
             "error.graphql_error", "error.syntax_error", "error.located_error"]
    if tier == "thorough":
        scope = sorted({m.name.removeprefix("graphql.") for m in repo.package_modules("language")}
                       | {m.name.removeprefix("graphql.") for m in repo.package_modules("error")})
    counts = lt_agree.check_lt_agree(check, repo, scope=scope)
    check.note(lt_sites=counts)
    check.floor("LT-AGREE", 3, "line-splitting constructs (regex definitions + uses)")
    lt_agree.lexer_newline_tests(check, repo)
    LR.get_location_regex(check, repo)
    LR.lexer_accounting(check, repo)
    LR.loc_single_source(check, repo)
    LR.render_total(check, repo)
    LR.loc_prefix(check, repo)
    LR.loc_offset(check, repo)
    LR.line_owners(check, repo)
    LR.excerpt_verbatim(check, repo)
    LR.offset_owners(check, repo)
    G.cached_mutable_result(check, repo.package_modules("language") + repo.package_modules("error"))
    G.value_keyed_cache(check, repo, repo.package_modules("language") + repo.package_modules("error"))
    LR.object_truthiness(check, repo, scope)
    check.floor("OBJECT-TRUTHINESS", 5, "presence tests of optional package objects (Source, Location, Token ...)")
    G.zip_filter(check, repo.package_modules("error") + repo.package_modules("language") + repo.package_modules("pyutils"))
    # controls for LT-AGREE
    from sa.report import Check as _C
    for name, expected in (("lt_bad", True), ("lt_ok", False)):
        probe = _C("control", "quick", repo, "")
        lt_agree.check_lt_agree(probe, repo, mods=[fixture(name)])
        check.control(f"LT-AGREE:{name}", fired=any(not o.ok for o in probe.obligations), expected=expected)
