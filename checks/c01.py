"""C01 - the request pipeline is total (structural clauses, DESIGN.md §4 C01)."""
from __future__ import annotations

import ast

from rules import bounds
from sa.loader import Repo, fixture
from sa.report import Check

EXPLANATION = (
    "Static rules over /repo/src/graphql decided from source only: "
    "LEX-BOUNDS (every non-slice index read in the lexers and block-string helpers is "
    "entailed in range by dominating facts or covered by try/except IndexError)."
)

LEX_MODULES = ["language.lexer", "language.schema_coordinate_lexer", "language.block_string"]


def lex_bounds(check: Check, repo: Repo) -> None:
    check.rule(
        "LEX-BOUNDS",
        "base[idx] (non-slice, load) in the lexers/block-string helpers: facts on every "
        "path entail 0 <= idx < len(base), or an enclosing try covers IndexError",
    )
    flows = bounds.FlowCache()
    for mn in LEX_MODULES:
        mod = repo.mod(mn)
        bounds.check_subscripts(check, "LEX-BOUNDS", bounds.index_reads(mod.tree), flows)
    check.floor("LEX-BOUNDS", 12, "index reads in lexer.py/schema_coordinate_lexer.py/block_string.py")
    check.assume("position parameters of lexer methods are non-negative (token ends / offsets)")
    # controls
    fx = fixture("bounds_controls")
    for fn in fx.functions():
        for sub in bounds.index_reads(fn):
            ok, _ = bounds.prove_index(sub, flows)
            check.control(f"LEX-BOUNDS:{fn.name}", fired=not ok, expected=fn.name.startswith("bad_"))


def run(check: Check, repo: Repo, tier: str) -> None:
    lex_bounds(check, repo)

LEVEL_TEXT = (
    "Static decision of structural necessary conditions of totality: every index read of the "
    "lexers is proven in range on all paths (so no source string can raise IndexError there). "
    "Does not decide well-formedness of every response."
)
LEVEL_NOTE = (
    "Trusted: CPython ast; the guard-entailment engine (linear facts from dominating tests, "
    "kills on reassignment); assumption that position arguments are non-negative."
)
TECHNIQUE = "AST/CFG must-facts dataflow with linear bound entailment (static analysis)"
