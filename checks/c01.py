"""C01 - the request pipeline is total (structural clauses, DESIGN.md §4 C01)."""
from __future__ import annotations

import ast

from rules import bounds
from sa.loader import Repo, fixture
from sa.report import Check

EXPLANATION = (
    "LEX-BOUNDS (every index read of the lexers proven in range on all paths), PARSE-RAISES (exception "
    "classes escaping the five parse entry points, through the resolved call graph, are only "
    "GraphQLSyntaxError; parser dispatch tables name existing methods), CONVERT + TWIN-HANDLERS (error -> "
    "result conversion at every sync and async site), EXEC-WRAP (only located GraphQLErrors escape field "
    "execution; user callbacks are called under try/except Exception), UNTRUSTED-ATTR (duck-typed "
    "attributes of resolver exceptions are type-tested before use), VALIDATE-TOTAL + VISITED-BEFORE-RECURSE "
    "+ SUBSUMPTION/MEMO-PAIR/CYCLE-GUARD (validation neither raises nor recurses without bound)."
)

LEX_MODULES = ["language.lexer", "language.schema_coordinate_lexer", "language.block_string"]


def lex_bounds(check: Check, repo: Repo) -> None:
    check.rule(
        "LEX-BOUNDS",
        "base[idx] (non-slice, load) in the lexers/block-string helpers: facts on every "
        "path entail 0 <= idx < len(base), or an enclosing try covers IndexError",
    )
    flows = bounds.FlowCache()
    for mn in LEX_MODULES:
        mod = repo.mod(mn)
        bounds.check_subscripts(check, "LEX-BOUNDS", bounds.index_reads(mod.tree), flows)
    check.floor("LEX-BOUNDS", 12, "index reads in lexer.py/schema_coordinate_lexer.py/block_string.py")
    check.assume("position parameters of lexer methods are non-negative (token ends / offsets)")
    # controls
    fx = fixture("bounds_controls")
    for fn in fx.functions():
        for sub in bounds.index_reads(fn):
            ok, _ = bounds.prove_index(sub, flows)
            check.control(f"LEX-BOUNDS:{fn.name}", fired=not ok, expected=fn.name.startswith("bad_"))


def run(check: Check, repo: Repo, tier: str) -> None:
    from rules import exec_rules as X, merge_rules as M, total_rules as T
    from sa.raises import MayRaise

    lex_bounds(check, repo)
    mr = MayRaise(repo)
    T.parse_raises(check, repo, mr)
    T.convert_sites(check, repo)
    T.exec_total(check, repo, mr)
    X.twin_handlers(check, repo, repo.package_modules("execution"))
    T.untrusted_attr(check, repo)
    vmods = [m for m in repo.package_modules("validation")] + [repo.mod("execution.collect_fields"), repo.mod("utilities.separate_operations")]
    T.visited_before_recurse(check, repo, vmods)
    T.validate_total(check, repo, mr)
    pmods = [m for m in repo.package_modules("validation") if ".custom" not in m.name] + [repo.mod(n) for n in (
        "utilities.validate_input_value", "utilities.coerce_input_value", "utilities.type_info", "utilities.type_from_ast",
        "utilities.sort_value_node", "utilities.replace_variables", "utilities.value_from_ast_untyped",
        "pyutils.suggestion_list", "pyutils.did_you_mean", "execution.values", "execution.collect_fields")]
    T.index_guard(check, repo, pmods)
    check.floor("INDEX-GUARD", 15, "constant-position reads on the validation / coercion path")
    T.next_total(check, repo, pmods)
    T.row_alloc(check, repo)
    T.fragment_recursion_guard(check, repo, [m for m in repo.package_modules("validation") if ".custom" not in m.name])
    T.leaf_callback_wrap(check, repo)
    T.collection_shapes(check, repo)
    T.str_conversions(check, repo)
    T.raised_values_guarded(check, repo)
    from rules import validation_rules as V

    V.report_discipline(check, repo, [m for m in repo.package_modules("validation") if ".custom" not in m.name])
    from rules import language_rules as L
    L.escape_range(check, repo)
    L.escape_pairs(check, repo)
    from rules import type_witness as TW
    tmods = [m for m in repo.modules.values() if not m.name.endswith(".version") and ".rules.custom" not in m.name]
    TW.type_witness(check, repo, tmods)
    TW.suppressed_attr(check, repo, tmods)
    check.floor("TYPE-WITNESS", 100, "modules type-checked")
    check.floor("SUPPRESSED-ATTR", 12, "attribute accesses silenced by a type: ignore comment")
    check.floor("NEXT-TOTAL", 2, "next() searches on the validation / coercion path")
    M.subsumption(check, repo)
    M.memo_pair(check, repo)
    M.cycle_guard(check, repo)

LEVEL_TEXT = (
    "Static decision of structural necessary conditions of totality: no lexer read can leave the source, "
    "only the syntax error class can escape parsing, only located errors escape field execution, "
    "validation handlers cannot raise or recurse unboundedly, and every error -> result conversion site "
    "exists on the sync and the async path. Does not decide well-formedness of every response."
)
LEVEL_NOTE = (
    "Trusted: CPython ast; the guard-entailment engine (linear facts from dominating tests, "
    "kills on reassignment); assumption that position arguments are non-negative."
)
TECHNIQUE = "AST/CFG must-facts dataflow with linear bound entailment (static analysis)"
