"""C01 - the request pipeline is total (structural clauses, DESIGN.md §4 C01)."""
from __future__ import annotations

import ast

from rules import bounds
from sa.loader import Repo, fixture
from sa.report import Check

EXPLANATION = (
    "LEX-BOUNDS (every index read of the lexers proven in range on all paths), PARSE-RAISES (exception "
    "classes escaping the five parse entry points, through the resolved call graph, are only "
    "GraphQLSyntaxError; parser dispatch tables name existing methods), CONVERT + TWIN-HANDLERS (error -> "
    "result conversion at every sync and async site), EXEC-WRAP (only located GraphQLErrors escape field "
    "execution; user callbacks are called under try/except Exception), UNTRUSTED-ATTR (duck-typed "
    "attributes of resolver exceptions are type-tested before use), VALIDATE-TOTAL + VISITED-BEFORE-RECURSE "
    "+ SUBSUMPTION/MEMO-PAIR/CYCLE-GUARD (validation neither raises nor recurses without bound)."
)

LEX_MODULES = ["language.lexer", "language.schema_coordinate_lexer", "language.block_string"]


def lex_bounds(check: Check, repo: Repo) -> None:
    check.rule(
        "LEX-BOUNDS",
        "base[idx] (non-slice, load) in the lexers/block-string helpers: facts on every "
        "path entail 0 <= idx < len(base), or an enclosing try covers IndexError",
    )
    flows = bounds.FlowCache()
    for mn in LEX_MODULES:
        mod = repo.mod(mn)
        bounds.check_subscripts(check, "LEX-BOUNDS", bounds.index_reads(mod.tree), flows)
    check.floor("LEX-BOUNDS", 12, "index reads in lexer.py/schema_coordinate_lexer.py/block_string.py")
    check.assume("position parameters of lexer methods are non-negative (token ends / offsets)")
    # controls
    fx = fixture("bounds_controls")
    for fn in fx.functions():
        for sub in bounds.index_reads(fn):
            ok, _ = bounds.prove_index(sub, flows)
            check.control(f"LEX-BOUNDS:{fn.name}", fired=not ok, expected=fn.name.startswith("bad_"))


def run(check: Check, repo: Repo, tier: str) -> None:
    from rules import exec_rules as X, merge_rules as M, total_rules as T
    from sa.raises import MayRaise

    lex_bounds(check, repo)
    mr = MayRaise(repo)
    T.parse_raises(check, repo, mr)
    T.convert_sites(check, repo)
    T.exec_total(check, repo, mr)
    X.twin_handlers(check, repo, repo.package_modules("execution"))
    T.untrusted_attr(check, repo)
    vmods = [m for m in repo.package_modules("validation")] + [repo.mod("execution.collect_fields"), repo.mod("utilities.separate_operations")]
    T.visited_before_recurse(check, repo, vmods)
    T.validate_total(check, repo, mr)
    M.subsumption(check, repo)
    M.memo_pair(check, repo)
    M.cycle_guard(check, repo)

LEVEL_TEXT = (
    "Static decision of structural necessary conditions of totality: no lexer read can leave the source, "
    "only the syntax error class can escape parsing, only located errors escape field execution, "
    "validation handlers cannot raise or recurse unboundedly, and every error -> result conversion site "
    "exists on the sync and the async path. Does not decide well-formedness of every response."
)
LEVEL_NOTE = (
    "Trusted: CPython ast; the guard-entailment engine (linear facts from dominating tests, "
    "kills on reassignment); assumption that position arguments are non-negative."
)
TECHNIQUE = "AST/CFG must-facts dataflow with linear bound entailment (static analysis)"
