"""C04 - incremental delivery reassembles to the non-incremental response: NOT APPLICABLE to static analysis."""

NOT_APPLICABLE = (
    "C04 is an equality between two executions (with and without @defer/@stream), quantified over completion "
    "orders, consumer timing and a configuration flag; its content is which field lands in which payload at "
    "which time. No clause of it is visible in code shape beyond what ID-PIN (plan memos are RefMaps, which pin), "
    "C05 (protocol typestate) and C06 (cleanup) already decide for the same files; claiming C04 through those "
    "would be a proxy that fires only on edits C03/C05/C06 already report. Deciding it needs a merge oracle and "
    "schedule control - a different technique family."
)
