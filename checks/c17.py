"""C17 - a schema survives printing and rebuilding (structural clauses)."""
from __future__ import annotations

from rules import coercion_rules as K, lt_agree, sdl_rules as D
from rules import language_rules as L
from sa.loader import Repo
from sa.report import Check

EXPLANATION = (
    "ATTR-MATRIX-PRINT / -BUILD (every SDL-visible key of every schema element class is read by the "
    "printer and passed by the SDL builder; keys come from the to_kwargs TypedDicts, one explicit "
    "visibility table), DISPATCH-EXH (print_type / build_named_type cover every kind), PRINT-ORDER "
    "(printed parts follow the parser's consumption order), BLOCK-GUARD, DESC-VERBATIM, LT-AGREE + "
    "WS-AGREE + REGEX-ANCHOR for description / default-value text."
)
LEVEL_TEXT = (
    "Static decision of writer/reader coverage between print_schema and the SDL builder and of the "
    "text-level agreements descriptions and defaults travel through. The textual fixed point for all "
    "schemas is not evaluated."
)
LEVEL_NOTE = "Trusted: CPython ast; mypy receiver types (Any = unknown); the SDL visibility table in rules/sdl_rules.py."
TECHNIQUE = "typed attribute-coverage matrix printer <-> builder + order agreement with the parser (static analysis)"


def run(check: Check, repo: Repo, tier: str) -> None:
    D.print_matrix(check, repo)
    D.build_matrix(check, repo)
    D.type_dispatch(check, repo)
    D.print_order(check, repo)
    D.block_guard(check, repo)
    D.description_verbatim(check, repo)
    from rules import schema_rules as S17
    S17.referenced_complete(check, repo)
    lt_agree.check_lt_agree(check, repo, scope=["utilities.print_schema", "language.block_string", "language.printer"])
    L.ws_agree(check, repo, ["utilities.print_schema", "language.block_string", "language.printer"])
    K.regex_fullmatch(check, repo, ["type.scalars", "utilities.value_to_literal", "utilities.ast_from_value"])
    K.sibling_details(check, repo)
    K.int_range_table(check, repo)
    K.float_text(check, repo)
    L.escape_range(check, repo)
    L.block_string_charset(check, repo)
    from rules import generic_rules as G17

    G17.implicit_concat(check, [repo.mod(m) for m in ("language.parser", "language.lexer", "language.printer", "utilities.print_schema", "utilities.build_ast_schema", "utilities.extend_schema")])
    D.default_verbatim(check, repo)
    L.list_separators(check, repo)
    from rules import exec_rules as X
    X.attr_memo(check, repo, [repo.mod(m) for m in ("utilities.print_schema", "utilities.get_default_value_ast", "utilities.value_to_literal", "utilities.coerce_input_value", "utilities.extend_schema", "utilities.build_ast_schema")])
    check.floor("ATTR-MEMO", 1, "object-attribute memos reachable from schema printing / extension")
    K.digit_class(check, repo, ["type.scalars", "utilities.value_to_literal", "utilities.ast_from_value", "utilities.get_default_value_ast"])
    D.or_fold(check, repo)
    D.args_oneline(check, repo)
    L.number_parts(check, repo)
    D.root_names_agree(check, repo)
