"""C18 - introspection is truthful and can rebuild the schema (structural clauses)."""
from __future__ import annotations

from rules import generic_rules as G
from rules import language_rules as L, sdl_rules as D
from sa.loader import Repo
from sa.report import Check

EXPLANATION = (
    "THREE-WAY (introspection type fields vs the statically reconstructed standard query vs the keys "
    "build_client_schema reads), OPTION-MAP (each query option removes exactly its own fields), "
    "ATTR-MATRIX-INTROSPECT (every visible key is read by a resolver and passed by the client builder), "
    "OPTIONAL-TRUTHINESS (deprecation is decided by `is None`, never by truthiness)."
)
LEVEL_TEXT = (
    "Static decision of three-way field agreement between the introspection types, the query template "
    "and the client builder. Result equality for all schemas/options is not evaluated."
)
LEVEL_NOTE = "Trusted: CPython ast; static folding of the query f-string; mypy receiver types."
TECHNIQUE = "static reconstruction of the query template + table agreement (static analysis)"


def run(check: Check, repo: Repo, tier: str) -> None:
    D.three_way(check, repo)
    D.option_map(check, repo)
    D.introspect_matrix(check, repo)
    D.enum_tables(check, repo)
    D.client_builds_from_data(check, repo)
    D.cross_schema_by_name(check, repo)
    D.default_verbatim(check, repo)
    D.introspection_depth_lists(check, repo)
    D.type_lookup_from_schema(check, repo)
    from rules import schema_rules as S18

    S18.deprecation_direction(check, repo)
    L.number_parts(check, repo)
    from rules import coercion_rules as K2
    K2.field_requiredness(check, repo)
    L.ws_agree(check, repo, ['language.block_string', 'language.printer'])
    umods = [repo.mod(m) for m in ("utilities.introspection_from_schema", "utilities.get_introspection_query",
                                   "utilities.build_client_schema", "utilities.print_schema", "utilities.value_to_literal",
                                   "utilities.get_default_value_ast", "type.introspection")]
    G.arg_name_match(check, repo, [f for m in umods for f in m.functions()])
    check.floor("ARG-NAME-MATCH", 5, "resolved calls with >= 2 named positional arguments")
    from rules import coercion_rules as K
    K.regex_fullmatch(check, repo, ['type.scalars', 'utilities.value_to_literal', 'utilities.ast_from_value'])
    L.optional_truthiness(check, repo, ["type.introspection", "utilities.build_client_schema", "utilities.print_schema"],
                          str_attrs=("deprecation_reason",))
    check.floor("OPTIONAL-TRUTHINESS", 3, "deprecation tests")
    from rules import exec_rules as X
    # the selected introspection fields reach the result only if every enabled spread is collected (shared with C02)
    X.visited_then_collected(check, repo)
    X.attr_memo(check, repo, [repo.mod(m) for m in ("utilities.get_default_value_ast", "utilities.value_to_literal", "utilities.coerce_input_value",
                                                   "utilities.introspection_from_schema", "utilities.build_client_schema", "type.introspection")])
