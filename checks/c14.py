"""C14 - field-merge validation: memo and termination structure."""
from __future__ import annotations

from rules import identity, merge_rules as M, schema_rules as S
from sa.loader import Repo
from sa.report import Check

EXPLANATION = (
    "MEMO-PAIR (every memo add is dominated by the identical has-test and directly follows it), "
    "SUBSUMPTION (has() of both pair sets evaluated over {query} x {stored}; add() overwrites), "
    "ID-PIN (identity-keyed OrderedPairSet keys are cache-owned), FLAG-THREAD (exclusivity flag "
    "forwarded unchanged), CYCLE-GUARD (every call-graph cycle is broken by a memo or by structural "
    "descent), WRAPPER-PAIRING (do_types_conflict unwraps only equal wrapper kinds)."
)
LEVEL_TEXT = (
    "Static decision of 'the memoisation never hides a conflict' (truth table of has(), overwrite in "
    "add(), identical has/add arguments) and of termination on cyclic spreads (cycle guard). The iff "
    "with the specification's algorithm is not decided."
)
LEVEL_NOTE = "Trusted: CPython ast; a small interpreter for the pure has() bodies; call graph resolved through module-level names."
TECHNIQUE = "truth-table evaluation of pure methods + call-graph cycle analysis + must-facts dominance (static analysis)"


def run(check: Check, repo: Repo, tier: str) -> None:
    M.memo_pair(check, repo)
    M.subsumption(check, repo)
    identity.check_id_pin(check, repo, [repo.mod(M.MOD)])
    check.floor("ID-PIN", 2, "id() sites in OrderedPairSet")
    M.flag_thread(check, repo)
    M.cycle_guard(check, repo)
    M.arg_normalise(check, repo)
    M.recorded_means_compared(check, repo)
    M.all_pairs(check, repo)
    M.node_key_identity(check, repo)
    M.exclusive_objects(check, repo)
    M.every_field_recorded(check, repo)
    M.shared_map_reads(check, repo)
    M.node_value_compare(check, repo, [m for m in repo.package_modules("validation") if ".custom" not in m.name])
    from rules import generic_rules as G
    mm = repo.mod(M.MOD)
    mfuncs = list(mm.functions())
    G.worklist_return(check, mfuncs)
    G.loop_invariant_call(check, mfuncs)
    check.floor("LOOP-NEST", 2, "functions with nested loops in the merge rule")
    G.mutable_class_attr(check, [mm, repo.mod("validation.validation_context")])
    S.wrapper_pairing(check, repo, [(M.MOD, "do_types_conflict")])
    from rules import kind_tables as KT
    KT.kind_table(check, repo, repo.func(M.MOD, "do_types_conflict"), "type1", "type2",
                  KT.spec_do_types_conflict("type1", "type2"), S.predicate_classes(repo),
                  kinds=("Scalar", "Enum", "Object", "Interface", "Union", "List", "NonNull"), what="(output kinds)")
    check.floor("KIND-TABLE", 1, "kind-dispatch functions folded into decision tables")
