"""C20 - schema validation reports, never crashes (structural clauses)."""
from __future__ import annotations

from rules import schema_rules as S
from sa.loader import Repo
from sa.report import Check

EXPLANATION = (
    "KIND-CONTRADICTION (a type that failed is_input_type on a report-and-continue path never reaches "
    "a callee that - by requirement summaries derived over the call graph - asserts an input type), "
    "VALIDATE-RAISES (no explicit raise escapes validate_schema except assert_schema's), "
    "SCHEMA-ERRORS-FIRST (graphql_impl returns schema errors before parsing), DISPATCH-EXH "
    "(validate_types has an arm for every named type kind)."
)
LEVEL_TEXT = (
    "Static decision of the 'returns a list rather than raising' clause for the kind-assumption "
    "failure mode, and of 'a request against an invalid schema returns those errors'. Completeness "
    "of the reported errors is not decided."
)
LEVEL_NOTE = "Trusted: CPython ast; call graph resolved through imports and self-method lookup; requirement summaries bounded at depth 6."
TECHNIQUE = "interprocedural requirement summaries + CFG reachability from failed kind checks (static analysis)"


def run(check: Check, repo: Repo, tier: str) -> None:
    S.kind_contradiction(check, repo)
    S.kind_attr(check, repo)
    S.validate_raises(check, repo)
    S.skip_reports(check, repo)
    S.wrapper_pairing(check, repo, [('utilities.type_comparators', 'is_equal_type'), ('utilities.type_comparators', 'is_type_sub_type_of')])
    S.schema_errors_first(check, repo)
    S.validation_cache(check, repo)
    S.reserved_names(check, repo)
    S.cycle_edge_by_type(check, repo)
    from rules import sdl_rules as D20
    # 'a valid schema is accepted': a document relying on the conventional root names gets its roots
    D20.root_names_agree(check, repo)
    S.unvalidated_elements(check, repo)
    S.deprecation_direction(check, repo)
    from rules import sdl_rules as D

    D.assume_valid_fresh(check, repo)
    from rules import language_rules as L

    L.optional_truthiness(check, repo, ["type.validate"], str_attrs=("deprecation_reason",))
    from rules import coercion_rules as K
    from rules import total_rules as T
    from sa.raises import MayRaise

    K.list_value_predicate(check, repo)
    T.schema_validation_total(check, repo, MayRaise(repo))
    from rules import generic_rules as G
    from rules import type_witness as TW
    tmods = repo.package_modules("type") + [repo.mod("utilities.type_comparators"), repo.mod("graphql")]
    G.emptiness_guard(check, [f for m in tmods for f in m.functions()])
    TW.type_witness(check, repo, tmods)
    check.floor("TYPE-WITNESS", 8, "modules type-checked")
    from rules import kind_tables as KT
    kp = S.predicate_classes(repo)
    tc = "utilities.type_comparators"
    KT.kind_table(check, repo, repo.func(tc, "is_type_sub_type_of"), "maybe_subtype", "super_type",
                  KT.spec_is_type_sub_type_of("maybe_subtype", "super_type"), kp)
    KT.kind_table(check, repo, repo.func(tc, "is_equal_type"), "type_a", "type_b", KT.spec_is_equal_type("type_a", "type_b"), kp)
    KT.kind_table(check, repo, repo.func(tc, "do_types_overlap"), "type_a", "type_b", KT.spec_do_types_overlap("type_a", "type_b"), kp,
                  kinds=("Object", "Interface", "Union"), what="(composite kinds)")
    check.rule("DISPATCH-EXH", "every member of a closed class family has a handling arm in the dispatch")
    preds = S.predicate_classes(repo)
    fn = repo.func("type.validate", "SchemaValidationContext.validate_types")
    S.dispatch_exhaustive(check, "DISPATCH-EXH", fn, "type_", S.NAMED_TYPES, preds,
                          {"GraphQLScalarType": "scalars have nothing to validate beyond their name"},
                          "validate_types")
    check.floor("KIND-TABLE", 3, "kind-dispatch functions folded into decision tables")
