"""C11 - AST traversal: structural clauses (DESIGN.md §4 C11)."""
from __future__ import annotations

from rules import generic_rules as G
from rules import language_rules as L
from rules.astmodel import AstModel
from sa.loader import Repo, fixture
from sa.report import Check

EXPLANATION = (
    "KEYS-COMPLETE (QUERY_DOCUMENT_KEYS = node-valued fields of every node class), POP-GUARD "
    "(stack pops in visit() dominated by non-emptiness), SENTINEL-TWINS (BREAK/SKIP/REMOVE tests "
    "paired with raw twins); decided from source, nothing executed."
)
LEVEL_TEXT = (
    "Static decision of structural necessary conditions: the traversal table covers every "
    "node-valued field of every node class (so no child is skipped), no visitor decision can "
    "make a stack pop fail, sentinel tests accept both spellings. The call sequences themselves "
    "are not decided."
)
LEVEL_NOTE = "Trusted: CPython ast; the static model of the @node_class dataclasses (MRO merge, kind naming rule read from Node.__init_subclass__ and pyutils.convert_case)."
TECHNIQUE = "AST table/class-model comparison + CFG must-facts dominance (static analysis)"


def run(check: Check, repo: Repo, tier: str) -> None:
    model = AstModel(repo)
    check.note(node_classes=len(model.classes), concrete=len(model.concrete()), kinds=len(model.kinds()))
    L.keys_complete(check, repo, model)
    L.order_agree(check, repo, model, sides=("keys",), floor=25)
    n = L.pop_guard(check, repo)
    check.floor("POP-GUARD", 4, "zero-argument pops in visit()")
    L.kind_of_current_node(check, repo)
    L.sentinel_twins(check, repo)
    L.edit_sentinel(check, repo)
    L.removed_child_is_none(check, repo)
    L.enter_leave_table(check, repo)
    L.iteration_local(check, repo)
    L.result_filter(check, repo)
    L.edit_offset(check, repo)
    L.parallel_returns(check, repo)
    L.edit_once(check, repo)
    L.append_conditions(check, repo)
    L.root_exit_tests(check, repo)
    L.parallel_drives_given(check, repo)
    L.skip_slot_truthy(check, repo)
    L.handler_lookup_owner(check, repo)
    G.class_memo_own(check, [f for mn in ("language.ast", "language.visitor") for f in repo.mod(mn).functions()])
    # controls
    from sa.report import Check as _C
    fx = fixture("pop_controls")
    for fn in fx.functions():
        probe = _C("control", "quick", repo, "")
        L.pop_guard(probe, repo, fn=fn)
        fired = any(not o.ok for o in probe.obligations)
        check.control(f"POP-GUARD:{fn.name}", fired=fired, expected=fn.name.startswith("bad_"))
