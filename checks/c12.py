"""C12 - validation is deterministic and compositional (structural clauses)."""
from __future__ import annotations

from rules import generic_rules as G
from rules import validation_rules as V
from rules import write_effect as W
from rules.astmodel import AstModel
from sa.loader import Repo
from sa.report import Check
from sa.resolve import ClassIndex

EXPLANATION = (
    "CACHE-ALIAS (lists handed out by the validation context's memo accessors are never mutated by "
    "their receivers), TYPEINFO-BALANCE (push/pop multiset per kind on every CFG path, slots reset, "
    "TypeInfoVisitor ordering), NO-WRITE (typed write-effect scan: no rule stores into the document, "
    "the schema, module state or the shared context), NO-READ (rules never read descriptions or "
    "positions of AST nodes), LIMIT (append-only error list, test-before-append, single abort notice)."
)
LEVEL_TEXT = (
    "Static decision of the isolation clauses behind 'union of what each rule reports alone' and "
    "'validating twice gives the same answer': no state flows between rules or between runs except "
    "through objects each rule owns. Equality of reported messages on all documents is not evaluated."
)
LEVEL_NOTE = (
    "Trusted: CPython ast; mypy 2.3.1 as a library for receiver types (Any = unknown); reaching "
    "definitions one alias level deep; calls through unknown callables are assumed not to write."
)
TECHNIQUE = "typed write-effect / alias analysis, reaching definitions, CFG path enumeration (static analysis)"

CONTEXT_CLASSES = {
    "graphql.validation.validation_context.ValidationContext",
    "graphql.validation.validation_context.ASTValidationContext",
    "graphql.validation.validation_context.SDLValidationContext",
    "graphql.utilities.type_info.TypeInfo",
}


def run(check: Check, repo: Repo, tier: str) -> None:
    classes = ClassIndex(repo)
    model = AstModel(repo)
    vmods = repo.package_modules("validation")
    ctx = [repo.mod("validation.validation_context")]
    n = V.cache_alias(check, repo, scan=vmods + [repo.mod("utilities.type_info")], accessor_mods=ctx)
    check.floor("CACHE-ALIAS", 20, "container mutation sites in validation/")
    V.typeinfo_balance(check, repo, classes)
    V.limit(check, repo)
    V.report_discipline(check, repo, vmods)
    V.nested_visit_neutral(check, repo, classes)
    # 'unchanged by changing ignored characters': the lexer's notion of what is ignored (shared with C09)
    from rules import language_rules as L9

    L9.lex_tables(check, repo)
    L9.lexer_break_conditions(check, repo)
    from rules import type_witness as TW

    TW.type_witness(check, repo, [m for m in vmods if ".custom" not in m.name])
    check.floor("REPORT-DISCIPLINE", 55, "report_error call sites in validation/")
    from rules import exec_rules as X
    X.memo_discovery(check, repo, ctx)
    check.floor("MEMO-KEY-COVER", 3, "memo tables of the validation context")
    G.mutable_class_attr(check, vmods + [repo.mod("utilities.type_info")])
    G.mutable_default(check, [f for m in vmods + [repo.mod("utilities.type_info")] for f in m.functions()])
    check.floor("MUTABLE-DEFAULT", 3, "functions with default parameter values in validation/")
    V.default_is_none(check, repo, [repo.func('validation.validate', 'validate'), repo.func('validation.validate', 'validate_sdl')])
    from rules import language_rules as L
    # 'messages unchanged by reprinting': the printer loses no field on any return path (shared with C08)
    L.printer_coverage(check, repo, model)
    L.printer_per_return(check, repo, model)
    L.result_filter(check, repo)
    L.parallel_returns(check, repo)
    L.optional_truthiness(check, repo, ['validation.validate'])
    rule_mods = [m for m in vmods if m.name.startswith("graphql.validation.rules.") and ".custom" not in m.name]
    V.no_read(check, repo, model, rule_mods + ctx)
    # NO-WRITE
    check.rule(
        "NO-WRITE",
        "typed write-effect scan of validation/** and utilities/type_info.py: no attribute/item "
        "store or mutating call whose receiver is an AST object, a schema object, a module-level "
        "object, or (from rule modules) the shared ValidationContext/TypeInfo",
    )
    prot_rules = W.Protected(repo, extra=CONTEXT_CLASSES)
    prot_ctx = W.Protected(repo)
    funcs_rules = [f for m in rule_mods for f in m.functions()]
    funcs_ctx = [f for m in vmods if m not in rule_mods for f in m.functions()] + list(repo.mod("utilities.type_info").functions())
    W.check_writes(check, repo, "NO-WRITE", funcs_rules, prot_rules)
    W.check_writes(check, repo, "NO-WRITE", funcs_ctx, prot_ctx)
    check.floor("NO-WRITE", 150, "write sites in validation/")
    check.note(modules=len(vmods), rule_modules=len(rule_mods))
