#!/venv/bin/python
"""Confirm and evaluate seeded changes written by independent sub-agents.

usage: tools_seeded.py <PROP> <src_dir_with_m*/>   e.g. tools_seeded.py C16 /tmp/wt-c16/seeded_out
For each m<k>: in a scratch worktree (outside /repo and /verif) apply patch.diff, run the full
test suite (must stay green), run demo.py (must fail), revert, run demo.py (must pass); then run
./check against the patched scratch tree (VERIF_REPO) for the property (and any extra properties
given with --also) and record which rules fire. Confirmed changes are stored under
/verif/seeded/<PROP>-<k>/ (patch.diff, demo.py, notes.md, meta.json).
"""
import argparse, json, os, shutil, subprocess, sys, tempfile
from pathlib import Path

VERIF = Path(__file__).resolve().parent


def sh(cmd, cwd=None, env=None, timeout=900):
    r = subprocess.run(cmd, shell=True, cwd=cwd, env=env, capture_output=True, text=True, timeout=timeout)
    return r.returncode, r.stdout + r.stderr


def main():
    ap = argparse.ArgumentParser()
    ap.add_argument("prop")
    ap.add_argument("src")
    ap.add_argument("--also", default="")
    ap.add_argument("--skip-suite", action="store_true")
    ap.add_argument("--only", default="")
    ap.add_argument("--tag", default="", help="prefix for the stored id (second round: b)")
    args = ap.parse_args()
    prop = args.prop.upper()
    wt = tempfile.mkdtemp(prefix="verif-seedcheck-")
    os.rmdir(wt)
    rc, out = sh(f"git -C /repo worktree add -q --detach {wt} HEAD")
    assert rc == 0, out
    env = dict(os.environ, PYTHONPATH=f"{wt}/src")
    head = sh("git -C /repo rev-parse HEAD")[1].strip()
    try:
        if args.src == "stored":
            mdirs = sorted((VERIF / "seeded").glob(f"{prop}-*"))
        else:
            mdirs = sorted(Path(args.src).glob("m*"))
        for mdir in mdirs:
            k = mdir.name.split("-")[-1] if args.src == "stored" else args.tag + mdir.name[1:]
            if args.only and args.only not in (mdir.name, f"m{k}", k, mdir.name.split("-")[-1]):
                continue
            patch, demo = mdir / "patch.diff", mdir / "demo.py"
            if not (patch.exists() and demo.exists()):
                print(f"{prop}-{k}: incomplete (patch/demo missing)")
                continue
            meta = {"property": prop, "source": "independent sub-agent (property text + scratch worktree only)",
                    "round": {"b": 2, "c": 3, "d": 4, "e": 5, "f": 6, "g": 7}.get(k[:1], 1)}
            # a seed whose lines were later rewritten by a fix: commit is evaluated on the tree it was written for
            base = None
            pm = VERIF / "seeded" / f"{prop}-{k}" / "meta.json"
            if pm.exists():
                base = json.loads(pm.read_text()).get("base_commit")
            sh(f"git -C {wt} checkout -q --detach {base or head}")
            if base:
                meta["base_commit"] = base
                meta["base_note"] = json.loads(pm.read_text()).get("base_note", "")
            rc, out = sh(f"git -C {wt} apply {patch}")
            if rc != 0:
                print(f"{prop}-{k}: patch does not apply: {out[-300:]}")
                continue
            prev_meta = VERIF / "seeded" / f"{prop}-{k}" / "meta.json"
            if args.skip_suite:
                suite = "skipped"
                if prev_meta.exists():
                    suite = json.loads(prev_meta.read_text()).get("suite_with_change", "skipped")
            else:
                rc, out = sh(f"/venv/bin/python -m pytest tests -q -p no:cacheprovider --timeout=900 -n 8 2>&1 | tail -3", cwd=wt, env=env)
                suite = out.strip().splitlines()[-1] if out.strip() else "?"
            rc_demo_bad, out_bad = sh(f"/venv/bin/python {demo}", cwd=wt, env=env, timeout=300)
            # checks against the patched tree
            fired = {}
            for p in [prop] + [x for x in args.also.split(",") if x]:
                cenv = dict(os.environ, VERIF_REPO=wt, VERIF_EVIDENCE_DIR=tempfile.mkdtemp(prefix="verif-ev-"))
                rc, out = sh(f"{VERIF}/check {p}", cwd=VERIF, env=cenv)
                shutil.rmtree(cenv["VERIF_EVIDENCE_DIR"], ignore_errors=True)
                rules = sorted({l.split(": ")[1] for l in out.splitlines() if l.startswith("src/") and ": " in l})
                fired[p] = {"exit": rc, "rules": rules,
                            "lines": [l[:300] for l in out.splitlines() if l.startswith("src/")][:6]}
            sh(f"git -C {wt} checkout -- . && git -C {wt} clean -fdq")
            rc_demo_ok, out_ok = sh(f"/venv/bin/python {demo}", cwd=wt, env=env, timeout=300)
            confirmed = rc_demo_bad != 0 and rc_demo_ok == 0 and ("passed" in suite and "failed" not in suite)
            meta.update({
                "confirmed": confirmed,
                "suite_with_change": suite,
                "demo_with_change_exit": rc_demo_bad,
                "demo_pristine_exit": rc_demo_ok,
                "checks": fired,
                "detected_by": sorted(p for p, f in fired.items() if f["exit"] == 1),
                "ran": [f"git apply patch.diff (scratch worktree of /repo HEAD)", "pytest tests -n 8 -x",
                        "python demo.py (with change / pristine)", "./check <prop> with VERIF_REPO=<scratch>"],
            })
            notes = (mdir / "notes.md").read_text() if (mdir / "notes.md").exists() else ""
            meta["needs_to_manifest"] = notes[:1500]
            status = "CONFIRMED" if confirmed else "NOT-CONFIRMED"
            det = ",".join(meta["detected_by"]) or "MISSED"
            print(f"{prop}-{k}: {status} suite[{suite}] demo(bad={rc_demo_bad}, ok={rc_demo_ok}) detected_by={det} "
                  f"rules={ {p: f['rules'] for p, f in fired.items()} }")
            fc_dir = VERIF / "notes" / "first_contact"
            fc_dir.mkdir(parents=True, exist_ok=True)
            fc = fc_dir / f"{prop}-{k}.json"
            if not fc.exists() and rc_demo_bad != 0 and rc_demo_ok == 0:
                fc.write_text(json.dumps({"detected_by": meta["detected_by"], "checks": fired}, indent=1))
            if confirmed:
                dest = VERIF / "seeded" / f"{prop}-{k}"
                dest.mkdir(parents=True, exist_ok=True)
                if patch.resolve() != (dest / "patch.diff").resolve():
                    shutil.copy(patch, dest / "patch.diff")
                    shutil.copy(demo, dest / "demo.py")
                if notes:
                    (dest / "notes.md").write_text(notes)
                (dest / "meta.json").write_text(json.dumps(meta, indent=1))
    finally:
        sh(f"git -C /repo worktree remove --force {wt}")


if __name__ == "__main__":
    main()
