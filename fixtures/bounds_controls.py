"""Controls for GUARDED-OP/subscript: bad_* must fire, ok_* must stay silent."""


def bad_unguarded(body: str, position: int) -> str:
    return body[position + 1]


def bad_guard_killed(body: str, position: int) -> str:
    if position < len(body):
        position += 1
        return body[position]
    return ""


def bad_wrong_list(body: str, other: str, position: int) -> str:
    if position < len(other):
        return body[position]
    return ""


def ok_loop(body: str, position: int) -> int:
    body_length = len(body)
    while position < body_length:
        char = body[position]
        if char == " ":
            position += 1
            continue
        break
    return position


def ok_early_exit(body: str, location: int) -> str:
    if location >= len(body):
        return ""
    return body[location]


def ok_short_circuit(body: str, end: int) -> bool:
    return end < len(body) and body[end] == "x"


def ok_min(body: str, position: int) -> int:
    size = 3
    max_size = min(12, len(body) - position)
    while size < max_size:
        char = body[position + size]
        size += 1
        if char == "}":
            break
    return size


def ok_try(body: str, location: int) -> bool:
    try:
        return body[location] == "a" and body[location + 1] == "b"
    except IndexError:
        return False


def ok_truthy(line: str) -> bool:
    return not line or line[0] in " \t"
