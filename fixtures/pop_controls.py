"""Controls for POP-GUARD."""


def bad_unguarded(items, flag):
    path = []
    path_pop = path.pop
    for item in items:
        if flag:
            path.append(item)
        path_pop()


def bad_wrong_list(items):
    path = []
    other = []
    for item in items:
        other.append(item)
        if other:
            path.pop()


def ok_guarded(items):
    path = []
    path_pop = path.pop
    for item in items:
        if item:
            path.append(item)
        if path:
            path_pop()


def ok_push_dominates(items):
    path = []
    path_append = path.append
    for item in items:
        path_append(item)
        if item:
            path.pop()


def ok_ifexp(items):
    ancestors = []
    ancestors_pop = ancestors.pop
    return ancestors_pop() if ancestors else None
