"""Positive / negative controls for rules/generic_rules.py (never executed)."""
# ruff: noqa


def sentinel_bad(value, default):
    if value == Undefined:
        return default
    return value


def sentinel_ok(value, default):
    if value is Undefined:
        return default
    return value if value is not Undefined else None


def options_callee(schema, descriptions=True, one_of=False, deprecation=False):
    return schema, descriptions, one_of, deprecation


def swapped_bad(schema, descriptions, one_of, deprecation):
    return options_callee(schema, descriptions, deprecation, one_of)


def swapped_ok(schema, descriptions, one_of, deprecation):
    return options_callee(schema, descriptions, one_of, deprecation)


def mutable_bad(node, visited={}, depth=0):
    visited[node] = depth


def mutable_ok(node, visited=None, depth=0, kinds=(), name=""):
    visited = {} if visited is None else visited


def zip_bad(nodes, locations):
    with_loc = [node.loc for node in nodes if node.loc]
    return [(a, b) for a, b in zip(with_loc, locations or ())]


def zip_ok(nodes, keys):
    kept = [node for node in nodes if node.loc]
    names = [node.name for node in nodes if node.loc]
    pairs = list(zip(nodes, keys))
    return list(zip(kept, names)), pairs


async def counter_bad(iterator, results):
    index = 0
    while True:
        item = await anext(iterator)
        if item is None:
            results.append(None)
            continue
        results.append((index, item))
        index += 1


async def counter_ok(iterator, results):
    index = 0
    while True:
        try:
            item = await anext(iterator)
        except StopAsyncIteration:
            break
        if item is None:
            results.append(None)
        else:
            results.append((index, item))
        index += 1


@lru_cache(maxsize=256)
def cached_bad(location):
    return str(location)


def worklist_bad(start, seen):
    work = [start]
    while work:
        item = work.pop()
        if item in seen:
            return
        seen.add(item)
        work.extend(item.children)


def worklist_ok(start, seen):
    work = [start]
    while work:
        item = work.pop()
        if item in seen:
            continue
        seen.add(item)
        work.extend(item.children)


def dispatch_break_bad(definitions, name):
    operation = None
    fragments = {}
    for definition in definitions:
        if isinstance(definition, OperationDefinitionNode):
            if definition.name == name:
                operation = definition
                break
        elif isinstance(definition, FragmentDefinitionNode):
            fragments[definition.name] = definition
    return operation, fragments


def dispatch_break_ok(definitions, name):
    operation = None
    fragments = {}
    for definition in definitions:
        if isinstance(definition, OperationDefinitionNode):
            if definition.name == name:
                operation = definition
        elif isinstance(definition, FragmentDefinitionNode):
            fragments[definition.name] = definition
    return operation, fragments


def param_bad(schema, document, type_resolver=None):
    return execute(schema, document)


def guard_bad(iface_args, type_args, report):
    if iface_args:
        for name, arg in iface_args.items():
            if name not in type_args:
                report(name)
        for name, arg in type_args.items():
            if name not in iface_args and arg.required:
                report(name)


def guard_ok(iface_args, type_args, report):
    if iface_args:
        for name, arg in iface_args.items():
            if name not in type_args:
                report(name)
    for name, arg in type_args.items():
        if name not in iface_args and arg.required:
            report(name)


def itermut_bad(tasks, nulled):
    for task in tasks:
        if nulled(task.path):
            tasks.remove(task)
    return tasks


def itermut_ok(tasks, nulled):
    for task in list(tasks):
        if nulled(task.path):
            tasks.remove(task)
    for task in tasks:
        if task.done:
            tasks.remove(task)
            break
    return tasks


class class_memo_bad:
    def __get__(self, obj, cls):
        try:
            return cls._names
        except AttributeError:
            names = tuple(f.name for f in fields(cls))
            cls._names = names
            return names


class class_memo_ok:
    def __get__(self, obj, cls):
        names = cls.__dict__.get("_names")
        if names is None:
            names = tuple(f.name for f in fields(cls))
            cls._names = names
        return names

    def __new__(cls):
        if cls._instance is None:
            cls._instance = super().__new__(cls)
        return cls._instance


def nonnull_invariant_bad(item_type):
    return is_leaf_type(get_named_type(item_type)) and not is_list_type(item_type)


def nonnull_invariant_ok(item_type):
    return is_leaf_type(get_named_type(item_type)) and not is_list_type(get_nullable_type(item_type))


def guard_bad_early_exit(fields, report):
    for field in fields:
        iface_args = field.iface.args
        if not iface_args:
            continue
        for name, arg in iface_args.items():
            if name not in field.args:
                report(name)
        for name, arg in field.args.items():
            if name not in iface_args and arg.required:
                report(name)


def param_readonly_bad(argument_map, mapper):
    for name, arg in argument_map.items():
        argument_map[name] = mapper(arg)
    return argument_map


def param_readonly_ok(argument_map, mapper, config):
    new_map = {}
    for name, arg in argument_map.items():
        new_map[name] = mapper(arg)
    config = dict(config)
    config["args"] = new_map
    return new_map


def independent_keys_bad(config, lookup):
    mapped = dict.fromkeys(("query", "mutation", "subscription"))
    for operation in mapped:
        root = config[operation]
        if root is None:
            break
        mapped[operation] = lookup(root.name)
    return mapped


def independent_keys_ok(config, lookup):
    mapped = dict.fromkeys(("query", "mutation", "subscription"))
    for operation in mapped:
        root = config[operation]
        if root is None:
            continue
        mapped[operation] = lookup(root.name)
    return mapped


@lru_cache(maxsize=None)
def cached_dict_bad(line, column):
    return {"line": line, "column": column}


RESERVED_BAD = (
    "true"
    "false"
    "null"
)
RESERVED_OK = ("not", "concatenated")
MESSAGE_OK = (
    "Expected a value,"
    " found nothing."
)
