"""Negative control: the exact LineTerminator regex."""
import re

_re_newline = re.compile(r"\r\n|[\n\r]")
_re_digits = re.compile(r"(\d+)")


def lines_of(body: str) -> list[str]:
    return _re_newline.split(body)


def words(s: str) -> list[str]:
    return s.split(" ")
