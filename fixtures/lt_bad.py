"""Positive control: three ways of getting the line terminator set wrong."""
import re

_re_lines = re.compile(r"\r\n|[\n\r ]")
_re_order = re.compile(r"[\n\r]|\r\n")


def count_lines(body: str, position: int) -> int:
    return len(body[:position].splitlines())


def count_lf(body: str, position: int) -> int:
    return body.count("\n", 0, position) + 1
