#!/venv/bin/python
"""Regenerate the data-driven parts of DESIGN.md from the evidence files, the stored seeds and
notes/first_contact.  Sections are delimited by  <!-- GEN:name -->  ...  <!-- /GEN:name -->.

usage: tools_design.py         (run all ./check first so that evidence/ is current)
"""
import json
import re
from pathlib import Path

V = Path(__file__).resolve().parent
NOT_DECIDED = {
    "C01": "well-formedness of every response; defensive `TypeError`s on paths the type system excludes",
    "C02": "equality with the spec algorithm",
    "C03": "equality of data under all completion orders",
    "C05": "trace properties over schedules",
    "C06": "promptness / quiescence under all schedules",
    "C07": "per-event equality with execution",
    "C08": "the round-trip law itself",
    "C09": "AST invariance under all layout rewrites",
    "C10": "numerical correctness per (text, offset)",
    "C11": "exact call sequences",
    "C12": "union-of-rules equality on all documents",
    "C13": "soundness of the rules w.r.t. the executor",
    "C14": "the iff with the spec algorithm",
    "C15": "agreement on all (type, value) pairs",
    "C16": "precision/meaning round trip on all values",
    "C17": "textual fixed point for all schemas",
    "C18": "result equality for all schemas/options",
    "C19": "algebraic laws on all schema pairs",
    "C20": "completeness of the reported errors",
}


def evidence():
    out = {}
    for f in sorted((V / "evidence").glob("C??.json")):
        out[f.stem] = json.loads(f.read_text())
    return out


def gen_a0(ev):
    rows = ["| id  | claimed | rules (as built) | what is **not** decided |", "|-----|---------|------------------|-------------------------|"]
    for i in range(1, 21):
        pid = f"C{i:02d}"
        if pid == "C04":
            rows.append("| C04 | **N/A** | — | everything (§A.5) |")
            continue
        rules = ", ".join(sorted(ev[pid]["coverage"]["rules"]))
        rows.append(f"| {pid} | partial | {rules} | {NOT_DECIDED[pid]} |")
    return "\n".join(rows)


def gen_appendix(ev):
    out = []
    for pid, e in ev.items():
        c = e["coverage"]
        out.append(f"\n#### {pid} - {c['obligations']} obligations on today's tree, {len(c['rules'])} rules\n")
        for r, info in sorted(c["rules"].items()):
            out.append(f"* **{r}** ({info['instances']} instances, floor {info['floor']}): {info['rule']}")
    return "\n".join(out)


def seeds(tag):
    rows = []
    for d in sorted((V / "seeded").iterdir()):
        m = re.fullmatch(r"(C\d\d)-(b|c|d|e|f|g)?(\d+)", d.name)
        if not m or (m.group(2) or "") != tag:
            continue
        meta = json.loads((d / "meta.json").read_text())
        fc_file = V / "notes" / "first_contact" / f"{d.name}.json"
        fc = json.loads(fc_file.read_text()) if fc_file.exists() else None
        rows.append((d.name, meta, fc))
    return rows


def gen_seed_table(tag):
    rows = ["| seed | first contact | detected now by | what the change was |", "|------|---------------|-----------------|---------------------|"]
    n = caught0 = caught = 0
    for name, meta, fc in seeds(tag):
        n += 1
        now = sorted({r for c in meta.get("checks", {}).values() for r in c.get("rules", [])})
        first = sorted({r for c in (fc or {}).get("checks", {}).values() for r in c.get("rules", [])}) if fc else None
        if fc and fc.get("counted_as") == "missed":
            first = []
        caught0 += bool(first)
        caught += bool(now)
        what = " ".join((meta.get("needs_to_manifest") or "").split())[:110].replace("|", "/")
        note = " (accidental hit, see notes/first_contact)" if fc and fc.get("counted_as") == "missed" else ""
        rows.append(f"| {name} | {', '.join(first) if first else ('**missed**' + note if fc is not None else 'n/a')} | {', '.join(now) or '**missed**'} | {what} |")
    head = f"{n} seeds: {caught0} caught at first contact, {caught} caught by the rule set as committed.\n\n"
    return head + "\n".join(rows)


def main():
    ev = evidence()
    p = V / "DESIGN.md"
    s = p.read_text()
    gens = {"A0": gen_a0(ev), "APPENDIX": gen_appendix(ev), "SEEDS-B": gen_seed_table("b"), "SEEDS-C": gen_seed_table("c"), "SEEDS-D": gen_seed_table("d"), "SEEDS-E": gen_seed_table("e"), "SEEDS-F": gen_seed_table("f"), "SEEDS-G": gen_seed_table("g")}
    for name, text in gens.items():
        pat = re.compile(rf"(<!-- GEN:{name} -->\n).*?(\n<!-- /GEN:{name} -->)", re.S)
        if pat.search(s):
            s = pat.sub(lambda m: m.group(1) + text + m.group(2), s)
        else:
            print(f"marker GEN:{name} not found")
    p.write_text(s)
    print("DESIGN.md regenerated:", {k: len(v) for k, v in gens.items()})


if __name__ == "__main__":
    main()
