"""Expression types from mypy used as a library (the repository's own environment has it).

One build per process (2.5-4 s).  Types are looked up by source position, so they
can be joined with the stdlib-ast nodes the rest of the engine works on.  mypy is
used only to *select and classify* sites; an expression it types as Any (or does
not type at all) is reported as None = unknown.
"""

from __future__ import annotations

import ast
import os
from typing import Any

from .loader import AnalysisError, Module, Repo, module_of, repo_root

_KIND = {"NameExpr": "Name", "MemberExpr": "Attribute", "CallExpr": "Call", "IndexExpr": "Subscript",
         "OpExpr": "BinOp", "ConditionalExpr": "IfExp", "AwaitExpr": "Await", "StrExpr": "Constant",
         "IntExpr": "Constant", "ComparisonExpr": "Compare", "UnaryExpr": "UnaryOp",
         "ListExpr": "List", "DictExpr": "Dict", "TupleExpr": "Tuple", "SetExpr": "Set"}  # fmt: skip


class MTypes:
    _instance: "MTypes | None" = None

    @classmethod
    def get(cls, repo: Repo) -> "MTypes":
        if cls._instance is None:
            cls._instance = MTypes(repo)
        return cls._instance

    def __init__(self, repo: Repo) -> None:
        try:
            from mypy import build
            from mypy.find_sources import create_source_list
            from mypy.options import Options
        except ImportError as e:  # pragma: no cover
            raise AnalysisError(f"mypy is not importable in this interpreter: {e}") from e
        self.repo = repo
        opts = Options()
        opts.preserve_asts = True
        opts.export_types = True
        opts.incremental = False
        opts.cache_dir = os.devnull
        opts.python_version = (3, 12)
        opts.follow_imports = "silent"
        cwd = os.getcwd()
        src = repo_root() / "src"
        try:
            os.chdir(src)
            sources = create_source_list(["graphql"], opts)
            self.result = build.build(sources, opts)
        finally:
            os.chdir(cwd)
        self.errors = list(self.result.errors)
        self._index: dict[str, dict[tuple, Any]] = {}
        self.n_types = len(self.result.types)

    def _build_index(self, modname: str) -> dict[tuple, Any]:
        from mypy.nodes import Expression, Node

        state = self.result.graph.get(modname)
        if state is None or state.tree is None:
            raise AnalysisError(f"mypy has no tree for {modname}")
        types = self.result.types
        idx: dict[tuple, Any] = {}
        seen: set[int] = set()
        stack: list[Any] = [state.tree]
        while stack:
            n = stack.pop()
            if id(n) in seen:
                continue
            seen.add(id(n))
            if isinstance(n, Expression):
                t = types.get(n)
                if t is not None:
                    kind = _KIND.get(type(n).__name__, type(n).__name__)
                    key = (n.line, n.column, n.end_line, n.end_column, kind)
                    idx.setdefault(key, t)
            for name in dir(type(n)):
                if name.startswith("_") or name in ("info", "node", "type", "fullname", "defn", "analyzed"):
                    continue
                try:
                    v = getattr(n, name)
                except Exception:
                    continue
                if callable(v):
                    continue
                if isinstance(v, Node):
                    stack.append(v)
                elif isinstance(v, (list, tuple)):
                    for x in v:
                        if isinstance(x, Node):
                            stack.append(x)
                        elif isinstance(x, (list, tuple)):
                            stack.extend(y for y in x if isinstance(y, Node))
        return idx

    def type_of(self, node: ast.AST, mod: Module | None = None) -> str | None:
        """mypy's type of the expression `node` as text, or None when unknown/Any."""
        mod = mod or module_of(node)
        if mod.name not in self._index:
            self._index[mod.name] = self._build_index(mod.name)
        kind = type(node).__name__
        key = (node.lineno, node.col_offset, node.end_lineno, node.end_col_offset, kind)  # type: ignore[attr-defined]
        t = self._index[mod.name].get(key)
        if t is None:
            return None
        s = str(t)
        if s in ("Any", "builtins.object") or s.startswith("Any"):
            return None
        return s
