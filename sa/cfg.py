"""Statement-level control-flow graph for one function body.

Built over exactly the statement kinds graphql-core uses (fails closed with
AnalysisError on anything else).  Conditions of if/while are split into atomic
tests along and/or/not so that every atomic test has a true and a false edge.

Edge labels:
  None                          plain fall-through
  ("cond", expr, bool)          atomic test outcome
  ("iter",) / ("exhausted",)    for-loop head
  ("case", match_case) / ("nocase",)
  ("exc", handler|None)         exception raised here enters this handler
  ("excprop", (types...))       exception leaves the enclosing try blocks (types = handler
                                class texts it was not caught by) towards exit "raise"
Exceptional edges are generated from: explicit `raise`, every node inside a `try`
body, and - when implicit_raise=True - every node that contains a call/await.
`finally` bodies are copied once per kind of continuation (fall, exc, return,
break, continue).
"""

from __future__ import annotations

import ast
from collections import defaultdict
from typing import Callable, Iterable, Iterator

from .loader import AnalysisError, Scope, unparse

Label = tuple | None


class Node:
    __slots__ = ("id", "kind", "ast", "flavor")

    def __init__(self, id: int, kind: str, node: ast.AST | None, flavor: str = "") -> None:
        self.id = id
        self.kind = kind
        self.ast = node
        self.flavor = flavor  # for nodes in copied finally blocks

    def __repr__(self) -> str:
        txt = ""
        if self.ast is not None and self.kind not in ("handler", "for", "with"):
            try:
                txt = " ".join(unparse(self.ast).split())[:50]
            except Exception:  # pragma: no cover
                txt = "?"
        line = getattr(self.ast, "lineno", "")
        return f"<{self.id}:{self.kind}@{line} {txt}>"


CATCH_ALL = {"BaseException"}
CATCH_EXC = {"Exception", "BaseException"}


def handler_types(h: ast.ExceptHandler) -> tuple[str, ...]:
    if h.type is None:
        return ("BaseException",)
    if isinstance(h.type, ast.Tuple):
        return tuple(unparse(e) for e in h.type.elts)
    return (unparse(h.type),)


class _Ctx:
    """One enclosing construct that intercepts jumps."""

    def __init__(self, kind: str, stmt: ast.AST) -> None:
        self.kind = kind  # 'loop' | 'try_body' | 'try_handler' | 'try_else' | 'suppress'
        self.stmt = stmt
        self.break_preds: list = []
        self.continue_target: Node | None = None
        self.handler_nodes: list[tuple[Node, tuple[str, ...]]] = []
        self.suppress_preds: list = []
        self.suppress_types: tuple[str, ...] = ()


class CFG:
    def __init__(self, func: ast.AST, implicit_raise: bool = False, raise_oracle=None, catches=None) -> None:
        """raise_oracle(ast_node) -> [(exception class name, origin ast)]: when given, exceptional
        edges are generated exactly for these (typed mode) and routed with
        catches(handler_types, cls) -> 'yes' | 'maybe' | 'no'."""
        self.func = func
        self.implicit_raise = implicit_raise
        self.raise_oracle = raise_oracle
        self.catches = catches
        self.nodes: list[Node] = []
        self.succ: dict[Node, list[tuple[Node, Label]]] = defaultdict(list)
        self.pred: dict[Node, list[tuple[Node, Label]]] = defaultdict(list)
        self.by_ast: dict[ast.AST, list[Node]] = defaultdict(list)
        self.entry = self._new("entry", None)
        self.exit = self._new("exit", None)  # normal return / fall off the end
        self.rexit = self._new("rexit", None)  # exception leaves the function
        self._ctx: list[_Ctx] = []
        self._finally_memo: dict[tuple, tuple[Node, list]] = {}
        body = func.body if not isinstance(func, ast.Lambda) else [ast.Return(func.body)]
        out = self._block(body, [(self.entry, None)])
        self._connect(out, self.exit)

    # -- construction -----------------------------------------------------
    def _new(self, kind: str, node: ast.AST | None, flavor: str = "") -> Node:
        n = Node(len(self.nodes), kind, node, flavor)
        self.nodes.append(n)
        if node is not None:
            self.by_ast[node].append(n)
        return n

    def _edge(self, a: Node, b: Node, label: Label) -> None:
        self.succ[a].append((b, label))
        self.pred[b].append((a, label))

    def _connect(self, preds: list, target: Node) -> None:
        for p, label in preds:
            self._edge(p, target, label)

    def _block(self, stmts: list[ast.stmt], preds: list) -> list:
        for s in stmts:
            preds = self._stmt(s, preds)
        return preds

    def _may_raise(self, node: ast.AST) -> bool:
        in_try = any(c.kind in ("try_body", "suppress") for c in self._ctx)
        if not in_try and not self.implicit_raise:
            return False
        if isinstance(node, (ast.For, ast.AsyncFor, ast.With, ast.AsyncWith, ast.Assert)):
            return True
        for n in _walk_noscope(node):
            if isinstance(n, (ast.Call, ast.Await, ast.Yield, ast.YieldFrom)):
                return True
            if in_try:
                # inside a try body anything that can raise at all counts
                if isinstance(n, (ast.Subscript, ast.Attribute, ast.BinOp, ast.Starred)):
                    return True
                if isinstance(n, ast.Compare) and not all(
                    isinstance(o, (ast.Is, ast.IsNot)) for o in n.ops
                ):
                    return True
        return False

    def _simple(self, kind: str, node: ast.AST, preds: list, flavor: str = "") -> Node:
        n = self._new(kind, node, self._flavor or flavor)
        self._connect(preds, n)
        if self.raise_oracle is not None:
            for cls, origin in self.raise_oracle(node):
                self._typed_raise(n, len(self._ctx), cls, origin)
        elif self._may_raise(node):
            self._raise_edges(n, len(self._ctx))
        return n

    def _typed_raise(self, src: Node, depth: int, cls: str, origin) -> None:
        preds = [(src, None)]
        i = depth - 1
        while i >= 0:
            c = self._ctx[i]
            if c.kind == "try_body":
                for hn, types in c.handler_nodes:
                    verdict = self.catches(types, cls)
                    if verdict in ("yes", "maybe"):
                        for p, _ in preds:
                            self._edge(p, hn, ("exc", types, cls, origin))
                    if verdict == "yes":
                        return
            if c.kind == "suppress":
                verdict = self.catches(c.suppress_types, cls)
                if verdict in ("yes", "maybe"):
                    for p, _ in preds:
                        c.suppress_preds.append((p, ("exc", c.suppress_types, cls, origin)))
                if verdict == "yes":
                    return
            if c.kind in ("try_body", "try_handler", "try_else") and c.stmt.finalbody:
                key = (id(c.stmt), "exc", cls)
                if key in self._finally_memo:
                    fentry, _ = self._finally_memo[key]
                    for p, _l in preds:
                        self._edge(p, fentry, ("excprop", (), cls, origin))
                    return
                fentry = self._new("finally", c.stmt, "exc")
                for p, _l in preds:
                    self._edge(p, fentry, ("excprop", (), cls, origin))
                saved_ctx, saved_flavor = self._ctx, self._flavor
                self._ctx = self._ctx[:i]
                self._flavor = "exc"
                outs = self._block(c.stmt.finalbody, [(fentry, None)])
                self._flavor = saved_flavor
                self._ctx = saved_ctx
                self._finally_memo[key] = (fentry, outs)
                preds = outs
            i -= 1
        for p, _l in preds:
            self._edge(p, self.rexit, ("excprop", (), cls, origin))

    _flavor = ""

    def _raise_edges(self, src: Node, depth: int) -> None:
        """Add edges for an exception raised at `src` with ctx stack [:depth]."""
        bypassed: list[str] = []
        i = depth - 1
        preds = [(src, None)]
        first = True
        while i >= 0:
            c = self._ctx[i]
            if c.kind == "try_body":
                for hn, types in c.handler_nodes:
                    for p, _ in preds:
                        self._edge(p, hn, ("exc", types) if first else ("exc", types))
                    bypassed.extend(types)
                if any(t in CATCH_ALL for _, ts in c.handler_nodes for t in ts):
                    return
            if c.kind == "suppress":
                for p, _ in preds:
                    c.suppress_preds.append((p, ("exc", c.suppress_types)))
                bypassed.extend(c.suppress_types)
            if c.kind in ("try_body", "try_handler", "try_else") and c.stmt.finalbody:
                # exception travels through a copy of the finally block
                key = (id(c.stmt), "exc", tuple(bypassed))
                if key in self._finally_memo:
                    fentry, _ = self._finally_memo[key]
                    for p, _l in preds:
                        self._edge(p, fentry, ("excprop", tuple(bypassed)))
                    return  # the rest of the chain already exists
                fentry = self._new("finally", c.stmt, "exc")
                for p, _l in preds:
                    self._edge(p, fentry, ("excprop", tuple(bypassed)))
                saved_ctx, saved_flavor = self._ctx, self._flavor
                self._ctx = self._ctx[:i]
                self._flavor = "exc"
                outs = self._block(c.stmt.finalbody, [(fentry, None)])
                self._flavor = saved_flavor
                self._ctx = saved_ctx
                self._finally_memo[key] = (fentry, outs)
                preds = outs
                first = False
                bypassed = list(bypassed)
            i -= 1
        for p, _l in preds:
            self._edge(p, self.rexit, ("excprop", tuple(bypassed)))

    def _jump(self, preds: list, kind: str, until: int) -> list:
        """Route a return/break/continue through the finally blocks of ctx[until:]."""
        i = len(self._ctx) - 1
        while i >= until:
            c = self._ctx[i]
            if c.kind in ("try_body", "try_handler", "try_else") and c.stmt.finalbody:
                fentry = self._new("finally", c.stmt, kind)
                self._connect(preds, fentry)
                saved_ctx, saved_flavor = self._ctx, self._flavor
                self._ctx = self._ctx[:i]
                self._flavor = kind
                preds = self._block(c.stmt.finalbody, [(fentry, None)])
                self._flavor = saved_flavor
                self._ctx = saved_ctx
            i -= 1
        return preds

    def _cond(self, expr: ast.expr, preds: list) -> tuple[list, list]:
        if isinstance(expr, ast.BoolOp):
            if isinstance(expr.op, ast.And):
                falses: list = []
                for v in expr.values:
                    t, f = self._cond(v, preds)
                    falses.extend(f)
                    preds = t
                return preds, falses
            trues: list = []
            for v in expr.values:
                t, f = self._cond(v, preds)
                trues.extend(t)
                preds = f
            return trues, preds
        if isinstance(expr, ast.UnaryOp) and isinstance(expr.op, ast.Not):
            t, f = self._cond(expr.operand, preds)
            return f, t
        n = self._simple("test", expr, preds)
        return [(n, ("cond", expr, True))], [(n, ("cond", expr, False))]

    def _stmt(self, s: ast.stmt, preds: list) -> list:
        if isinstance(
            s,
            (
                ast.Expr,
                ast.Assign,
                ast.AnnAssign,
                ast.AugAssign,
                ast.Delete,
                ast.Pass,
                ast.Import,
                ast.ImportFrom,
                ast.Nonlocal,
                ast.Global,
                ast.Assert,
            ),
        ):
            return [(self._simple("stmt", s, preds), None)]
        if isinstance(s, (ast.FunctionDef, ast.AsyncFunctionDef, ast.ClassDef)):
            n = self._new("def", s, self._flavor)
            self._connect(preds, n)
            return [(n, None)]
        if isinstance(s, ast.Return):
            n = self._simple("return", s, preds)
            out = self._jump([(n, None)], "return", 0)
            self._connect(out, self.exit)
            return []
        if isinstance(s, ast.Raise):
            n = self._new("raise", s, self._flavor)
            self._connect(preds, n)
            if self.raise_oracle is not None:
                for cls, origin in self.raise_oracle(s):
                    self._typed_raise(n, len(self._ctx), cls, origin)
            else:
                self._raise_edges(n, len(self._ctx))
            return []
        if isinstance(s, ast.If):
            t, f = self._cond(s.test, preds)
            out = self._block(s.body, t)
            out += self._block(s.orelse, f)
            return out
        if isinstance(s, ast.While):
            head = self._new("join", s, self._flavor)
            self._connect(preds, head)
            t, f = self._cond(s.test, [(head, None)])
            ctx = _Ctx("loop", s)
            ctx.continue_target = head
            self._ctx.append(ctx)
            out = self._block(s.body, t)
            self._ctx.pop()
            self._connect(out, head)
            if _is_true_const(s.test):
                f = []
            return self._block(s.orelse, f) + ctx.break_preds
        if isinstance(s, (ast.For, ast.AsyncFor)):
            head = self._simple("for", s, preds)
            ctx = _Ctx("loop", s)
            ctx.continue_target = head
            self._ctx.append(ctx)
            out = self._block(s.body, [(head, ("iter",))])
            self._ctx.pop()
            self._connect(out, head)
            return self._block(s.orelse, [(head, ("exhausted",))]) + ctx.break_preds
        if isinstance(s, ast.Break):
            n = self._new("stmt", s, self._flavor)
            self._connect(preds, n)
            idx = self._loop_index()
            out = self._jump([(n, None)], "break", idx + 1)
            self._ctx[idx].break_preds.extend(out)
            return []
        if isinstance(s, ast.Continue):
            n = self._new("stmt", s, self._flavor)
            self._connect(preds, n)
            idx = self._loop_index()
            out = self._jump([(n, None)], "continue", idx + 1)
            self._connect(out, self._ctx[idx].continue_target)  # type: ignore[arg-type]
            return []
        if isinstance(s, (ast.With, ast.AsyncWith)):
            n = self._simple("with", s, preds)
            sup = _suppressed_types(s)
            if sup:
                ctx = _Ctx("suppress", s)
                ctx.suppress_types = sup
                self._ctx.append(ctx)
                out = self._block(s.body, [(n, None)])
                self._ctx.pop()
                return out + ctx.suppress_preds
            return self._block(s.body, [(n, None)])
        if isinstance(s, ast.Try):
            return self._try(s, preds)
        if isinstance(s, ast.Match):
            subj = self._simple("match", s, preds)
            out: list = []
            fall = [(subj, None)]
            exhaustive = False
            for case in s.cases:
                cn = self._new("case", case, self._flavor)
                self._connect(fall, cn)
                body_preds = [(cn, ("case", case))]
                irrefutable = _irrefutable(case.pattern)
                if case.guard is not None:
                    t, f = self._cond(case.guard, body_preds)
                    body_preds = t
                    fall = [(cn, ("nocase",))] + f if not irrefutable else f
                else:
                    fall = [(cn, ("nocase",))] if not irrefutable else []
                    if irrefutable:
                        exhaustive = True
                out += self._block(case.body, body_preds)
                if exhaustive:
                    break
            return out + fall
        raise AnalysisError(
            f"cfg: unsupported statement {type(s).__name__} at line {s.lineno}"
        )

    def _loop_index(self) -> int:
        for i in range(len(self._ctx) - 1, -1, -1):
            if self._ctx[i].kind == "loop":
                return i
        raise AnalysisError("break/continue outside loop")

    def _try(self, s: ast.Try, preds: list) -> list:
        body_ctx = _Ctx("try_body", s)
        for h in s.handlers:
            hn = self._new("handler", h, self._flavor)
            body_ctx.handler_nodes.append((hn, handler_types(h)))
        # body
        self._ctx.append(body_ctx)
        tentry = self._new("join", s, self._flavor)
        self._connect(preds, tentry)
        out = self._block(s.body, [(tentry, None)])
        self._ctx.pop()
        # else
        if s.orelse:
            self._ctx.append(_Ctx("try_else", s))
            out = self._block(s.orelse, out)
            self._ctx.pop()
        # handlers
        for (hn, _types), h in zip(body_ctx.handler_nodes, s.handlers):
            self._ctx.append(_Ctx("try_handler", s))
            out = out + self._block(h.body, [(hn, None)])
            self._ctx.pop()
        # finally on the fall-through continuation
        if s.finalbody:
            fentry = self._new("finally", s, self._flavor or "fall")
            self._connect(out, fentry)
            saved = self._flavor
            self._flavor = self._flavor or "fall"
            out = self._block(s.finalbody, [(fentry, None)])
            self._flavor = saved
        return out

    # -- queries ----------------------------------------------------------
    def nodes_of(self, stmt: ast.AST) -> list[Node]:
        return self.by_ast.get(stmt, [])

    def node_for_expr(self, expr: ast.AST) -> list[Node]:
        """CFG nodes whose ast contains `expr` (smallest enclosing)."""
        n: ast.AST | None = expr
        while n is not None:
            if n in self.by_ast:
                res = [
                    x
                    for x in self.by_ast[n]
                    if x.kind not in ("join", "finally", "handler")
                    or isinstance(n, ast.ExceptHandler)
                ]
                # for compound statements the node stands for the header only
                if res:
                    return res
            n = getattr(n, "parent", None)
            if n is self.func:
                break
        return []

    def reachable(
        self,
        start: Iterable[Node],
        follow: Callable[[Node, Node, Label], bool] | None = None,
        avoid: Callable[[Node], bool] | None = None,
    ) -> set[Node]:
        seen: set[Node] = set()
        stack = [n for n in start if not (avoid and avoid(n))]
        while stack:
            n = stack.pop()
            if n in seen:
                continue
            seen.add(n)
            for m, label in self.succ.get(n, []):
                if follow is not None and not follow(n, m, label):
                    continue
                if avoid is not None and avoid(m):
                    continue
                if m not in seen:
                    stack.append(m)
        return seen

    def find_path(
        self,
        start: Node,
        goal: Callable[[Node], bool],
        follow: Callable[[Node, Node, Label], bool] | None = None,
        avoid: Callable[[Node], bool] | None = None,
    ) -> list[Node] | None:
        """Shortest path (BFS) from start to a goal node avoiding `avoid` nodes."""
        from collections import deque

        if avoid and avoid(start):
            return None
        prev: dict[Node, Node | None] = {start: None}
        dq = deque([start])
        while dq:
            n = dq.popleft()
            if goal(n) and n is not start:
                path = []
                cur: Node | None = n
                while cur is not None:
                    path.append(cur)
                    cur = prev[cur]
                return path[::-1]
            for m, label in self.succ.get(n, []):
                if follow is not None and not follow(n, m, label):
                    continue
                if m in prev:
                    continue
                if avoid is not None and avoid(m) and not goal(m):
                    continue
                prev[m] = n
                dq.append(m)
        return None

    def dominators(self, follow=None) -> dict[Node, set[Node]]:
        reach = self.reachable([self.entry], follow)
        order = sorted(reach, key=lambda n: n.id)
        dom: dict[Node, set[Node]] = {n: set(order) for n in order}
        dom[self.entry] = {self.entry}
        changed = True
        while changed:
            changed = False
            for n in order:
                if n is self.entry:
                    continue
                ps = [
                    p
                    for p, l in self.pred.get(n, [])
                    if p in reach and (follow is None or follow(p, n, l))
                ]
                if not ps:
                    continue
                new = set.intersection(*(dom[p] for p in ps)) | {n}
                if new != dom[n]:
                    dom[n] = new
                    changed = True
        return dom

    def describe_path(self, path: list[Node]) -> str:
        parts = []
        for n in path:
            if n.kind in ("join",):
                continue
            line = getattr(n.ast, "lineno", None)
            parts.append(f"{n.kind}@{line}" if line else n.kind)
        return " -> ".join(parts)


def no_exc(_a: Node, _b: Node, label: Label) -> bool:
    """Edge filter: normal control flow only."""
    return not (label and label[0] in ("exc", "excprop"))


def exc_world(base: bool) -> Callable[[Node, Node, Label], bool]:
    """Edge filter for a world in which raised exceptions are `Exception`s
    (base=False) or arbitrary `BaseException`s (base=True): an excprop edge that
    bypassed a handler wide enough to catch it is infeasible."""
    wide = CATCH_ALL if base else CATCH_EXC

    def follow(_a: Node, _b: Node, label: Label) -> bool:
        if label and label[0] == "excprop":
            return not any(t in wide for t in label[1])
        return True

    return follow


def _walk_noscope(node: ast.AST) -> Iterator[ast.AST]:
    stack = [node]
    while stack:
        n = stack.pop()
        yield n
        for c in ast.iter_child_nodes(n):
            if isinstance(c, Scope):
                continue
            stack.append(c)


def _is_true_const(e: ast.expr) -> bool:
    return isinstance(e, ast.Constant) and e.value is True


def _irrefutable(p: ast.pattern) -> bool:
    if isinstance(p, ast.MatchAs) and p.pattern is None:
        return True
    if isinstance(p, ast.MatchOr):
        return any(_irrefutable(x) for x in p.patterns)
    return False


def _suppressed_types(s: ast.With | ast.AsyncWith) -> tuple[str, ...]:
    for item in s.items:
        e = item.context_expr
        if isinstance(e, ast.Name):
            # module-level alias: `suppress_exceptions = suppress(Exception)`
            try:
                from .loader import module_of

                bound = module_of(s).toplevel_assign(e.id)
            except AnalysisError:
                bound = None
            if bound is not None:
                e = bound
        if isinstance(e, ast.Call):
            f = e.func
            name = f.id if isinstance(f, ast.Name) else getattr(f, "attr", "")
            if name == "suppress":
                return tuple(unparse(a) for a in e.args)
    return ()
