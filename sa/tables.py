"""Static evaluation of constant tables and of pure predicate expressions.

`Evaluator` folds literal expressions (dict/tuple/list/set/frozenset displays,
string and integer constants, enum members, references to other module-level
constants resolved through `from x import y`) and interprets *pure* expressions
built from comparisons, boolean operators and a fixed set of `str` predicates.
Anything else raises `NotStatic` - callers decide whether that is an analysis
error or "unknown".
"""

from __future__ import annotations

import ast
import re
from typing import Any

from .loader import AnalysisError, Module, Repo, unparse


class NotStatic(Exception):
    pass


class EnumMember:
    __slots__ = ("cls", "name", "value")

    def __init__(self, cls: str, name: str, value: Any) -> None:
        self.cls, self.name, self.value = cls, name, value

    def __eq__(self, o: object) -> bool:
        return isinstance(o, EnumMember) and (o.cls, o.name) == (self.cls, self.name)

    def __hash__(self) -> int:
        return hash((self.cls, self.name))

    def __repr__(self) -> str:
        return f"{self.cls}.{self.name}"


PURE_STR_METHODS = {
    "isascii", "isdigit", "isalpha", "isalnum", "isspace", "isupper", "islower",
    "lower", "upper", "startswith", "endswith", "strip", "lstrip", "rstrip", "removesuffix", "removeprefix",
}  # fmt: skip
class Rec(dict):
    """A record with attribute access, used to fold predicates over small abstract objects."""


PURE_BUILTINS = {"len": len, "abs": abs, "ord": ord, "chr": chr, "min": min, "max": max, "all": all, "any": any,
                 "frozenset": frozenset, "set": set, "tuple": tuple, "list": list,
                 "dict": dict, "str": str, "int": int, "bool": bool, "sorted": sorted,
                 "range": range, "enumerate": enumerate, "zip": zip, "isinstance": None}  # fmt: skip


def resolve_import(repo: Repo, mod: Module, name: str) -> tuple[Module, str] | None:
    """Follow `from .x import name [as alias]` (also through package __init__)."""
    for stmt in ast.walk(mod.tree):
        if isinstance(stmt, ast.ImportFrom):
            for a in stmt.names:
                if (a.asname or a.name) == name:
                    base = mod.name.split(".")
                    if not mod.is_package:
                        base = base[:-1]
                    if stmt.level:
                        base = base[: len(base) - (stmt.level - 1)]
                        target = ".".join(base + ([stmt.module] if stmt.module else []))
                    else:
                        target = stmt.module or ""
                    if target in repo.modules:
                        tm = repo.modules[target]
                        if _defines(tm, a.name):
                            return tm, a.name
                        if tm is not mod:
                            nxt = resolve_import(repo, tm, a.name)
                            if nxt:
                                return nxt
                    # `from . import x` may name a submodule
                    sub = f"{target}.{a.name}"
                    if sub in repo.modules:
                        return repo.modules[sub], ""
                    return None
    return None


def _defines(mod: Module | None, name: str) -> bool:
    if mod is None:
        return False
    if name in mod.defs:
        return True
    return mod.toplevel_assign(name) is not None


def resolve_name(repo: Repo, mod: Module, name: str) -> tuple[Module, str] | None:
    """Module and local name where `name` (as seen in `mod`) is defined."""
    if _defines(mod, name):
        return mod, name
    return resolve_import(repo, mod, name)


class Evaluator:
    def __init__(self, repo: Repo, mod: Module, env: dict[str, Any] | None = None) -> None:
        self.repo = repo
        self.mod = mod
        self.env = dict(env or {})
        self._depth = 0

    def child(self, mod: Module, env: dict[str, Any] | None = None) -> "Evaluator":
        e = Evaluator(self.repo, mod, env)
        e._depth = self._depth + 1
        return e

    def enum_members(self, cls: ast.ClassDef, mod: Module) -> dict[str, EnumMember]:
        out = {}
        for stmt in cls.body:
            if isinstance(stmt, ast.Assign) and len(stmt.targets) == 1:
                t = stmt.targets[0]
                if isinstance(t, ast.Name) and not t.id.startswith("_"):
                    try:
                        v = self.child(mod).eval(stmt.value)
                    except NotStatic:
                        continue
                    out[t.id] = EnumMember(cls.name, t.id, v)
        return out

    def lookup(self, name: str) -> Any:
        if name in self.env:
            return self.env[name]
        if self._depth > 12:
            raise NotStatic(f"lookup depth {name}")
        r = resolve_name(self.repo, self.mod, name)
        if r is None:
            raise NotStatic(f"unresolved name {name}")
        mod, local = r
        if local in mod.defs:
            node = mod.defs[local]
            if isinstance(node, ast.ClassDef):
                return ("class", mod, node)
            return ("func", mod, node)
        expr = mod.toplevel_assign(local)
        if expr is None:
            raise NotStatic(f"no value for {name}")
        return self.child(mod).eval(expr)

    def eval(self, e: ast.AST) -> Any:  # noqa: C901, PLR0911, PLR0912
        if isinstance(e, ast.Constant):
            return e.value
        if isinstance(e, ast.Name):
            if e.id in ("True", "False", "None"):
                return {"True": True, "False": False, "None": None}[e.id]
            return self.lookup(e.id)
        if isinstance(e, ast.Tuple):
            return tuple(self._elts(e.elts))
        if isinstance(e, ast.List):
            return list(self._elts(e.elts))
        if isinstance(e, ast.Set):
            return set(self._elts(e.elts))
        if isinstance(e, ast.Dict):
            out: dict[Any, Any] = {}
            for k, v in zip(e.keys, e.values):
                if k is None:
                    out.update(self.eval(v))
                else:
                    out[self.eval(k)] = self.eval(v)
            return out
        if isinstance(e, ast.JoinedStr):
            parts = []
            for v in e.values:
                if isinstance(v, ast.Constant):
                    parts.append(str(v.value))
                elif isinstance(v, ast.FormattedValue) and v.format_spec is None and v.conversion == -1:
                    parts.append(str(self.eval(v.value)))
                else:
                    raise NotStatic("formatted value")
            return "".join(parts)
        if isinstance(e, ast.Attribute):
            base = self.eval(e.value)
            if isinstance(base, tuple) and base and base[0] == "class":
                _, mod, cls = base
                members = self.enum_members(cls, mod)
                if e.attr in members:
                    return members[e.attr]
                raise NotStatic(f"no member {cls.name}.{e.attr}")
            if isinstance(base, EnumMember) and e.attr == "value":
                return base.value
            if isinstance(base, EnumMember) and e.attr == "name":
                return base.name
            if isinstance(base, Rec) and e.attr in base:
                return base[e.attr]
            raise NotStatic(f"attribute {unparse(e)}")
        if isinstance(e, ast.UnaryOp):
            v = self.eval(e.operand)
            if isinstance(e.op, ast.Not):
                return not v
            if isinstance(e.op, ast.USub):
                return -v
            if isinstance(e.op, ast.UAdd):
                return +v
            raise NotStatic("unary")
        if isinstance(e, ast.BoolOp):
            if isinstance(e.op, ast.And):
                v = True
                for x in e.values:
                    v = self.eval(x)
                    if not v:
                        return v
                return v
            v = False
            for x in e.values:
                v = self.eval(x)
                if v:
                    return v
            return v
        if isinstance(e, ast.IfExp):
            return self.eval(e.body) if self.eval(e.test) else self.eval(e.orelse)
        if isinstance(e, ast.Compare):
            left = self.eval(e.left)
            for op, c in zip(e.ops, e.comparators):
                right = self.eval(c)
                if not self._cmp(op, left, right):
                    return False
                left = right
            return True
        if isinstance(e, ast.BinOp):
            l, r = self.eval(e.left), self.eval(e.right)
            try:
                if isinstance(e.op, ast.Add):
                    return l + r
                if isinstance(e.op, ast.Sub):
                    return l - r
                if isinstance(e.op, ast.Mult):
                    return l * r
                if isinstance(e.op, ast.BitOr):
                    return l | r
                if isinstance(e.op, ast.BitAnd):
                    return l & r
                if isinstance(e.op, ast.LShift):
                    return l << r
                if isinstance(e.op, ast.Pow):
                    return l**r
                if isinstance(e.op, ast.Mod):
                    return l % r
                if isinstance(e.op, ast.FloorDiv):
                    return l // r
            except Exception as ex:
                raise NotStatic(str(ex)) from ex
            raise NotStatic("binop")
        if isinstance(e, ast.Subscript):
            base = self.eval(e.value)
            try:
                if isinstance(e.slice, ast.Slice):
                    lo = self.eval(e.slice.lower) if e.slice.lower else None
                    hi = self.eval(e.slice.upper) if e.slice.upper else None
                    st = self.eval(e.slice.step) if e.slice.step else None
                    return base[lo:hi:st]
                return base[self.eval(e.slice)]
            except NotStatic:
                raise
            except Exception as ex:
                raise NotStatic(str(ex)) from ex
        if isinstance(e, ast.Call):
            return self._call(e)
        if isinstance(e, (ast.ListComp, ast.SetComp, ast.GeneratorExp, ast.DictComp)):
            return self._comp(e)
        if isinstance(e, ast.Starred):
            raise NotStatic("starred")
        raise NotStatic(type(e).__name__)

    def _elts(self, elts: list[ast.expr]) -> list[Any]:
        out = []
        for x in elts:
            if isinstance(x, ast.Starred):
                out.extend(self.eval(x.value))
            else:
                out.append(self.eval(x))
        return out

    @staticmethod
    def _cmp(op: ast.cmpop, l: Any, r: Any) -> bool:
        try:
            if isinstance(op, ast.Eq):
                return l == r
            if isinstance(op, ast.NotEq):
                return l != r
            if isinstance(op, ast.Lt):
                return l < r
            if isinstance(op, ast.LtE):
                return l <= r
            if isinstance(op, ast.Gt):
                return l > r
            if isinstance(op, ast.GtE):
                return l >= r
            if isinstance(op, ast.In):
                return l in r
            if isinstance(op, ast.NotIn):
                return l not in r
            if isinstance(op, ast.Is):
                return l is r
            if isinstance(op, ast.IsNot):
                return l is not r
        except Exception as ex:
            raise NotStatic(str(ex)) from ex
        raise NotStatic("cmp")

    def _call(self, e: ast.Call) -> Any:
        if e.keywords and any(k.arg is None for k in e.keywords):
            raise NotStatic("**kwargs")
        f = e.func
        if isinstance(f, ast.Attribute) and isinstance(f.value, ast.Name) and f.value.id == "dict" and f.attr == "fromkeys":
            return dict.fromkeys(*self._elts(e.args))
        if isinstance(f, ast.Attribute) and isinstance(f.value, ast.Name) and f.value.id == "re" and f.attr == "compile" and "re" not in self.env:
            import re as _re

            args = self._elts(e.args)
            if args and isinstance(args[0], str) and len(args) == 1 and not e.keywords:
                try:
                    return _re.compile(args[0])  # a pure value: the pattern object of a constant string
                except _re.error as ex:
                    raise NotStatic(f"raises re.error: {ex}") from ex
            raise NotStatic("re.compile with flags")
        if isinstance(f, ast.Attribute):
            recv = self.eval(f.value)
            args = self._elts(e.args)
            if type(recv).__name__ == "Pattern" and f.attr in ("split", "match", "fullmatch", "search", "sub", "findall") and all(isinstance(a, (str, int)) for a in args):
                r = getattr(recv, f.attr)(*args)
                return bool(r) if type(r).__name__ == "Match" else r
            if isinstance(recv, bytes) and f.attr == "decode":
                try:
                    return recv.decode(*args)
                except Exception as ex:
                    raise NotStatic(f"raises {type(ex).__name__}: {ex}") from ex
            if isinstance(recv, str) and f.attr in PURE_STR_METHODS | {"join", "split", "replace", "format", "encode"}:
                try:
                    return getattr(recv, f.attr)(*args)
                except Exception as ex:
                    raise NotStatic(str(ex)) from ex
            if isinstance(recv, dict) and f.attr in ("get", "keys", "values", "items"):
                return getattr(recv, f.attr)(*args)
            if isinstance(recv, (frozenset, set)) and f.attr in ("union", "difference", "intersection"):
                return getattr(recv, f.attr)(*args)
            if isinstance(f.value, ast.Name) and f.value.id == "dict" and f.attr == "fromkeys":
                return dict.fromkeys(*args)
            raise NotStatic(f"method {f.attr}")
        if isinstance(f, ast.Name) and f.id == "isinstance" and "isinstance" not in self.env and len(e.args) == 2:
            classes = {"str": str, "int": int, "float": float, "bool": bool, "list": list, "tuple": tuple, "dict": dict, "bytes": bytes}
            names = [x.id for x in ([e.args[1]] if isinstance(e.args[1], ast.Name) else getattr(e.args[1], "elts", [])) if isinstance(x, ast.Name)]
            if names and all(nm in classes for nm in names):
                return isinstance(self.eval(e.args[0]), tuple(classes[nm] for nm in names))
            raise NotStatic("isinstance with a non-builtin class")
        if isinstance(f, ast.Name):
            if f.id in self.env and callable(self.env[f.id]):
                return self.env[f.id](*self._elts(e.args), **{k.arg: self.eval(k.value) for k in e.keywords if k.arg})
            if f.id in PURE_BUILTINS and PURE_BUILTINS[f.id] is not None and f.id not in self.env:
                try:
                    r = resolve_name(self.repo, self.mod, f.id)
                except Exception:
                    r = None
                if r is None:
                    args = self._elts(e.args)
                    kw = {k.arg: self.eval(k.value) for k in e.keywords}
                    try:
                        return PURE_BUILTINS[f.id](*args, **kw)
                    except Exception as ex:
                        raise NotStatic(f"raises {type(ex).__name__}: {ex}") from ex
            target = self.lookup(f.id)
            if isinstance(target, tuple) and target[0] == "func":
                return self.call_function(target[1], target[2], self._elts(e.args),
                                          {k.arg: self.eval(k.value) for k in e.keywords})
            if isinstance(target, tuple) and target[0] == "class":
                # Enum lookup by value: TokenKind("x")
                members = self.enum_members(target[2], target[1])
                args = self._elts(e.args)
                if len(args) == 1:
                    for m in members.values():
                        if m.value == args[0]:
                            return m
                raise NotStatic("class call")
        raise NotStatic(f"call {unparse(e.func)}")

    def call_function(self, mod: Module, fn: ast.AST, args: list[Any], kwargs: dict[str, Any]) -> Any:
        """Interpret a pure function whose body is (docstring +) guard-ifs + returns."""
        if self._depth > 12:
            raise NotStatic("call depth")
        params = [a.arg for a in fn.args.posonlyargs + fn.args.args]  # type: ignore[attr-defined]
        env = dict(zip(params, args))
        env.update(kwargs)
        defaults = fn.args.defaults  # type: ignore[attr-defined]
        for p, d in zip(params[len(params) - len(defaults):], defaults):
            if p not in env:
                env[p] = self.child(mod).eval(d)
        ev = self.child(mod, env)
        return ev._exec_block(fn.body)  # type: ignore[attr-defined]

    class _NoReturn:
        pass

    def _exec_block(self, body: list[ast.stmt]) -> Any:
        for s in body:
            if isinstance(s, ast.Expr) and isinstance(s.value, ast.Constant):
                continue
            if isinstance(s, ast.Return):
                return self.eval(s.value) if s.value is not None else None
            if isinstance(s, ast.If):
                r = self._exec_block(s.body if self.eval(s.test) else s.orelse)
                if r is not Evaluator._NoReturn:
                    return r
                continue
            if isinstance(s, ast.Assign) and len(s.targets) == 1 and isinstance(s.targets[0], ast.Name):
                self.env[s.targets[0].id] = self.eval(s.value)
                continue
            if isinstance(s, ast.Assign) and len(s.targets) == 1 and isinstance(s.targets[0], (ast.Tuple, ast.List)):
                _bind(s.targets[0], self.eval(s.value), self.env)
                continue
            if isinstance(s, ast.Assign) and all(isinstance(t, ast.Name) for t in s.targets):
                v = self.eval(s.value)  # a = b = c = <value>
                for t in s.targets:
                    self.env[t.id] = v
                continue
            if isinstance(s, (ast.FunctionDef, ast.AsyncFunctionDef)):
                continue  # local helpers are called through the evaluator's call hook
            if isinstance(s, ast.Pass):
                continue
            raise NotStatic(f"statement {type(s).__name__}")
        return Evaluator._NoReturn

    def _comp(self, e: ast.AST) -> Any:
        results: list[Any] = []

        def rec(i: int, ev: "Evaluator") -> None:
            gens = e.generators  # type: ignore[attr-defined]
            if i == len(gens):
                if isinstance(e, ast.DictComp):
                    results.append((ev.eval(e.key), ev.eval(e.value)))
                else:
                    results.append(ev.eval(e.elt))  # type: ignore[attr-defined]
                return
            g = gens[i]
            for item in ev.eval(g.iter):
                env = dict(ev.env)
                _bind(g.target, item, env)
                ev2 = Evaluator(self.repo, self.mod, env)
                ev2._depth = self._depth
                if all(ev2.eval(c) for c in g.ifs):
                    rec(i + 1, ev2)

        rec(0, self)
        if isinstance(e, ast.DictComp):
            return dict(results)
        if isinstance(e, ast.SetComp):
            return set(results)
        return results


def _bind(target: ast.AST, value: Any, env: dict[str, Any]) -> None:
    if isinstance(target, ast.Name):
        env[target.id] = value
    elif isinstance(target, (ast.Tuple, ast.List)):
        vals = list(value)
        if len(vals) != len(target.elts):
            raise NotStatic("unpack")
        for t, v in zip(target.elts, vals):
            _bind(t, v, env)
    else:
        raise NotStatic("bind")


def module_const(repo: Repo, module: str, name: str) -> Any:
    mod = repo.mod(module)
    expr = mod.toplevel_assign(name)
    if expr is None:
        raise AnalysisError(f"anchor missing: constant {module}:{name}")
    try:
        return Evaluator(repo, mod).eval(expr)
    except NotStatic as ex:
        raise AnalysisError(f"constant {module}:{name} is not static: {ex}") from ex


def char_class(repo: Repo, module: str, func: str, universe: list[str]) -> set[str]:
    """Set of characters of `universe` accepted by a pure one-argument predicate."""
    mod = repo.mod(module)
    fn = repo.func(module, func)
    ev = Evaluator(repo, mod)
    out = set()
    for ch in universe:
        try:
            if ev.call_function(mod, fn, [ch], {}):
                out.add(ch)
        except NotStatic as ex:
            raise AnalysisError(f"predicate {module}:{func} is not pure/static: {ex}") from ex
    return out


# -- regular expressions -----------------------------------------------------


def regex_language(pattern: str, limit: int = 64) -> set[str] | None:
    """Finite language of a regex made of literals, classes and alternation, else None."""
    import re._parser as sp  # type: ignore[import-not-found]

    try:
        tree = sp.parse(pattern)
    except re.error:
        return None

    def seq(items) -> set[str] | None:
        langs = {""}
        for op, av in items:
            sub = one(op, av)
            if sub is None:
                return None
            langs = {a + b for a in langs for b in sub}
            if len(langs) > limit:
                return None
        return langs

    def one(op, av) -> set[str] | None:
        name = str(op)
        if name == "LITERAL":
            return {chr(av)}
        if name == "IN":
            out = set()
            for o, a in av:
                if str(o) == "LITERAL":
                    out.add(chr(a))
                elif str(o) == "RANGE":
                    if a[1] - a[0] > limit:
                        return None
                    out.update(chr(c) for c in range(a[0], a[1] + 1))
                else:
                    return None
            return out
        if name == "BRANCH":
            out = set()
            for alt in av[1]:
                s = seq(alt)
                if s is None:
                    return None
                out |= s
            return out
        if name == "SUBPATTERN":
            return seq(av[3])
        return None

    return seq(tree)


def clone(node: ast.AST) -> ast.AST:
    """Deep copy of a subtree that does not follow the `parent` link of its root (which would copy the whole module)."""
    import copy

    p = getattr(node, "parent", None)
    return copy.deepcopy(node, {id(p): None} if p is not None else {})


def inline_locals(expr: ast.AST, fn: ast.AST, keep: set[str] | frozenset[str] = frozenset(), depth: int = 3) -> ast.AST:
    """`expr` with every local that the function binds exactly once (plain `name = <expression>`, no augmented or
    conditional re-binding) replaced by that expression - the named-boolean refactoring undone, so that a test can
    be folded over its real variables.  Names in `keep` (the variables of the fold) are left alone."""
    import copy

    binds: dict[str, list[ast.AST]] = {}
    for s in ast.walk(fn):
        if isinstance(s, ast.Assign):
            for t in s.targets:
                for x in ast.walk(t):
                    if isinstance(x, ast.Name):
                        binds.setdefault(x.id, []).append(s.value if (len(s.targets) == 1 and t is s.targets[0] and isinstance(t, ast.Name)) else None)
        elif isinstance(s, (ast.AugAssign, ast.AnnAssign)) and isinstance(s.target, ast.Name):
            binds.setdefault(s.target.id, []).append(s.value if isinstance(s, ast.AnnAssign) else None)
        elif isinstance(s, (ast.For, ast.AsyncFor, ast.comprehension)):
            for x in ast.walk(s.target):
                if isinstance(x, ast.Name):
                    binds.setdefault(x.id, []).append(None)
        elif isinstance(s, ast.NamedExpr):
            binds.setdefault(s.target.id, []).append(None)
    params = {a.arg for a in getattr(fn, "args", ast.arguments(posonlyargs=[], args=[], kwonlyargs=[], kw_defaults=[], defaults=[])).args} if hasattr(fn, "args") else set()
    single = {n: v[0] for n, v in binds.items() if len(v) == 1 and v[0] is not None and n not in keep and n not in params}

    class Sub(ast.NodeTransformer):
        def visit_Name(self, n: ast.Name):  # noqa: N802
            if isinstance(n.ctx, ast.Load) and n.id in single:
                return clone(single[n.id])
            return n

    out = clone(expr)
    for _ in range(depth):
        before = ast.dump(out)
        out = ast.fix_missing_locations(Sub().visit(out))
        if ast.dump(out) == before:
            break
    return out


def inline_single_return_helpers(fn: ast.AST, mod: Module, arg_name: str, depth: int = 2) -> ast.AST:
    """A copy of `fn` in which every call `helper(..., <arg_name>, ...)` of a module-level function whose body is a
    single `return <expr>` (docstring aside) is replaced by that expression with the parameters substituted - the
    extract-helper refactoring undone, so that rules which follow one parameter through a method (which fields of the
    node reach the result, in which order) see through helpers that receive the node.  `*args` of the helper are spliced
    where the helper uses `*args`.  The copy carries parent links and the line numbers of the original method."""
    import copy

    def single_return(h: ast.AST) -> ast.expr | None:
        body = [s for s in h.body if not (isinstance(s, ast.Expr) and isinstance(s.value, ast.Constant))]
        if len(body) == 1 and isinstance(body[0], ast.Return) and body[0].value is not None:
            return body[0].value
        return None

    class Inline(ast.NodeTransformer):
        def visit_Call(self, c: ast.Call):  # noqa: N802
            self.generic_visit(c)
            if not (isinstance(c.func, ast.Name) and any(isinstance(a, ast.Name) and a.id == arg_name for a in c.args)):
                return c
            h = mod.defs.get(c.func.id)
            if not isinstance(h, ast.FunctionDef) or c.keywords:
                return c
            expr = single_return(h)
            if expr is None or h.args.kwonlyargs or h.args.kwarg:
                return c
            params = [a.arg for a in h.args.posonlyargs + h.args.args]
            if len(c.args) < len(params) - len(h.args.defaults) or any(isinstance(a, ast.Starred) for a in c.args):
                return c
            bind = {p: c.args[i] for i, p in enumerate(params) if i < len(c.args)}
            rest = c.args[len(params):]
            if rest and h.args.vararg is None:
                return c
            var = h.args.vararg.arg if h.args.vararg is not None else None

            class Sub(ast.NodeTransformer):
                def visit_Name(self, n: ast.Name):  # noqa: N802
                    return clone(bind[n.id]) if isinstance(n.ctx, ast.Load) and n.id in bind else n

                def _splice(self, elts: list[ast.expr]) -> list[ast.expr]:
                    out: list[ast.expr] = []
                    for e in elts:
                        if isinstance(e, ast.Starred) and isinstance(e.value, ast.Name) and e.value.id == var:
                            out.extend(clone(r) for r in rest)
                        else:
                            out.append(self.visit(e))
                    return out

                def visit_Tuple(self, t: ast.Tuple):  # noqa: N802
                    t.elts = self._splice(t.elts)
                    return t

                def visit_List(self, t: ast.List):  # noqa: N802
                    t.elts = self._splice(t.elts)
                    return t

                def visit_Call(self, k: ast.Call):  # noqa: N802
                    k.func = self.visit(k.func)
                    k.args = self._splice(k.args)
                    for kw in k.keywords:
                        kw.value = self.visit(kw.value)
                    return k

            new = Sub().visit(clone(expr))
            return ast.copy_location(new, c)

    out = clone(fn)
    for _ in range(depth):
        before = ast.dump(out)
        out = Inline().visit(out)
        if ast.dump(out) == before:
            break
    ast.fix_missing_locations(out)
    out.parent = getattr(fn, "parent", None)  # type: ignore[attr-defined]
    for node in ast.walk(out):
        for child in ast.iter_child_nodes(node):
            child.parent = node  # type: ignore[attr-defined]
        if not hasattr(node, "lineno") and isinstance(node, (ast.expr, ast.stmt)):
            node.lineno = getattr(fn, "lineno", 1)  # type: ignore[attr-defined]
    return out
