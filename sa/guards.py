"""Must-facts dataflow over the CFG and a small linear entailment engine.

A *fact* is an atomic test with its outcome, or an equality introduced by a
simple assignment.  Facts flowing into a node are those that hold on **every**
path from the function entry (intersection at joins); a fact is killed when a
name (or attribute chain) it mentions is re-assigned, or an object it mentions
is mutated through a known mutator call or passed to another call.
"""

from __future__ import annotations

import ast
from typing import Iterable

from .cfg import CFG, Node
from .loader import Scope, parent, unparse

MUTATORS = {
    "append", "extend", "insert", "pop", "remove", "clear", "sort", "reverse",
    "update", "setdefault", "popitem", "add", "discard", "appendleft", "popleft",
    "__setitem__", "__delitem__",
}  # fmt: skip


class Fact:
    __slots__ = ("kind", "text", "pol", "expr", "deps", "name")

    def __init__(self, kind: str, expr: ast.AST, pol: bool = True, name: str = "") -> None:
        self.kind = kind  # 'cond' | 'eq' | 'iter'
        self.expr = expr
        self.pol = pol
        self.name = name
        self.text = unparse(expr)
        self.deps = _deps(expr) | ({name} if name else set())

    @property
    def key(self) -> tuple:
        return (self.kind, self.name, self.text, self.pol)

    def __repr__(self) -> str:
        if self.kind == "eq":
            return f"{self.name} == {self.text}"
        return self.text if self.pol else f"not ({self.text})"


def _deps(expr: ast.AST) -> set[str]:
    out: set[str] = set()
    for n in ast.walk(expr):
        if isinstance(n, ast.Name):
            out.add(n.id)
        elif isinstance(n, ast.Attribute):
            out.add(unparse(n))
    return out


def _chain_prefixes(text: str) -> list[str]:
    parts = text.split(".")
    return [".".join(parts[: i + 1]) for i in range(len(parts))]


def aliases_of(func: ast.AST) -> dict[str, tuple[str, str]]:
    """`f = x.method` bound-method aliases: name -> (receiver text, method)."""
    out: dict[str, tuple[str, str]] = {}
    stack = list(ast.iter_child_nodes(func))
    while stack:
        n = stack.pop()
        if isinstance(n, Scope):
            continue
        stack.extend(ast.iter_child_nodes(n))
        if isinstance(n, ast.Assign) and len(n.targets) == 1:
            t = n.targets[0]
            if isinstance(t, ast.Name) and isinstance(n.value, ast.Attribute):
                if isinstance(n.value.value, (ast.Name, ast.Attribute)):
                    out[t.id] = (unparse(n.value.value), n.value.attr)
    return out


def effects(node: ast.AST, aliases: dict[str, tuple[str, str]]) -> tuple[set[str], set[str]]:
    """(assigned names/attr chains, mutated object texts) of one CFG node's ast."""
    assigned: set[str] = set()
    mutated: set[str] = set()

    def target(t: ast.AST) -> None:
        if isinstance(t, ast.Name):
            assigned.add(t.id)
        elif isinstance(t, ast.Attribute):
            assigned.add(unparse(t))
            mutated.add(unparse(t.value))
        elif isinstance(t, ast.Subscript):
            mutated.add(unparse(t.value))
        elif isinstance(t, (ast.Tuple, ast.List)):
            for e in t.elts:
                target(e)
        elif isinstance(t, ast.Starred):
            target(t.value)

    if isinstance(node, (ast.For, ast.AsyncFor)):
        target(node.target)
        roots: list[ast.AST] = [node.iter]
    elif isinstance(node, (ast.With, ast.AsyncWith)):
        roots = []
        for item in node.items:
            roots.append(item.context_expr)
            if item.optional_vars is not None:
                target(item.optional_vars)
    elif isinstance(node, ast.ExceptHandler):
        if node.name:
            assigned.add(node.name)
        roots = []
    elif isinstance(node, (ast.FunctionDef, ast.AsyncFunctionDef, ast.ClassDef)):
        assigned.add(node.name)
        roots = []
    elif isinstance(node, ast.Match):
        roots = [node.subject]
    elif isinstance(node, ast.match_case):
        for n in ast.walk(node.pattern):
            if isinstance(n, ast.MatchAs) and n.name:
                assigned.add(n.name)
            if isinstance(n, ast.MatchStar) and n.name:
                assigned.add(n.name)
            if isinstance(n, ast.MatchMapping) and n.rest:
                assigned.add(n.rest)
        roots = []
    elif isinstance(node, (ast.Try, ast.While)):
        roots = []  # join / finally markers
    else:
        roots = [node]

    stack = list(roots)
    while stack:
        n = stack.pop()
        if isinstance(n, Scope):
            continue
        stack.extend(ast.iter_child_nodes(n))
        if isinstance(n, ast.Assign):
            for t in n.targets:
                target(t)
        elif isinstance(n, (ast.AnnAssign, ast.AugAssign)):
            target(n.target)
        elif isinstance(n, ast.NamedExpr):
            target(n.target)
        elif isinstance(n, ast.Delete):
            for t in n.targets:
                target(t)
        elif isinstance(n, (ast.Import, ast.ImportFrom)):
            for a in n.names:
                assigned.add((a.asname or a.name).split(".")[0])
        elif isinstance(n, ast.comprehension):
            pass  # comprehension variables live in their own scope
        elif isinstance(n, ast.Call):
            f = n.func
            if isinstance(f, ast.Attribute):
                if f.attr in MUTATORS:
                    mutated.add(unparse(f.value))
            elif isinstance(f, ast.Name) and f.id in aliases:
                recv, meth = aliases[f.id]
                if meth in MUTATORS:
                    mutated.add(recv)
    return assigned, mutated


class FactFlow:
    """Forward must-analysis: facts that hold on entry to each CFG node."""

    def __init__(self, cfg: CFG, follow=None) -> None:
        self.cfg = cfg
        self.aliases = aliases_of(cfg.func)
        self.follow = follow
        self._eff: dict[Node, tuple[set[str], set[str]]] = {}
        self.IN: dict[Node, dict[tuple, Fact]] = {}
        self._solve()

    def _effects(self, n: Node) -> tuple[set[str], set[str]]:
        if n not in self._eff:
            if n.ast is None or n.kind in ("join", "finally"):
                self._eff[n] = (set(), set())
            else:
                self._eff[n] = effects(n.ast, self.aliases)
        return self._eff[n]

    def _transfer(self, n: Node, facts: dict[tuple, Fact]) -> dict[tuple, Fact]:
        assigned, mutated = self._effects(n)
        out = facts
        if assigned or mutated:
            out = {}
            for k, f in facts.items():
                if f.deps & assigned:
                    continue
                if mutated and any(
                    m == d or d.startswith(m + ".") for m in mutated for d in f.deps
                ):
                    continue
                out[k] = f
        # gen: after a push the receiver is non-empty
        a = n.ast
        if n.kind == "stmt" and isinstance(a, ast.Expr):
            for c in [a.value]:
                if isinstance(c, ast.Call):
                    recv = None
                    if isinstance(c.func, ast.Attribute) and c.func.attr in ("append", "add", "appendleft"):
                        recv = c.func.value
                    elif isinstance(c.func, ast.Name) and c.func.id in self.aliases:
                        r, meth = self.aliases[c.func.id]
                        if meth in ("append", "add", "appendleft"):
                            recv = ast.parse(r, mode="eval").body
                    if recv is not None and isinstance(recv, (ast.Name, ast.Attribute)):
                        f = Fact("cond", recv, True)
                        out = dict(out)
                        out[f.key] = f
        # gen: an index read that did not raise was in range
        if n.kind in ("stmt", "return") and a is not None and not isinstance(a, ast.Expr):
            for sub in _unconditional_index_reads(a):
                cmp_ = ast.Compare(
                    left=sub.slice,
                    ops=[ast.Lt()],
                    comparators=[ast.Call(func=ast.Name(id="len", ctx=ast.Load()), args=[sub.value], keywords=[])],
                )
                f = Fact("cond", cmp_, True)
                if not (f.deps & assigned):
                    out = dict(out)
                    out[f.key] = f
        # gen: simple equalities
        if n.kind == "stmt" and isinstance(a, (ast.Assign, ast.AnnAssign)):
            value = a.value
            targets = a.targets if isinstance(a, ast.Assign) else [a.target]
            if value is not None and len(targets) == 1 and isinstance(targets[0], ast.Name):
                name = targets[0].id
                if name not in _deps(value) and not _has_call_other_than(value, {"len", "min", "max", "float", "int", "str", "abs"}):
                    f = Fact("eq", value, True, name)
                    out = dict(out)
                    out[f.key] = f
        return out

    def _edge_fact(self, label) -> Fact | None:
        if label and label[0] == "cond":
            return Fact("cond", label[1], label[2])
        return None

    def _solve(self) -> None:
        cfg = self.cfg
        TOP = None
        IN: dict[Node, dict[tuple, Fact] | None] = {n: TOP for n in cfg.nodes}
        IN[cfg.entry] = {}
        work = [cfg.entry]
        while work:
            n = work.pop()
            cur = IN[n]
            if cur is None:
                continue
            out = self._transfer(n, cur)
            for m, label in cfg.succ.get(n, []):
                if self.follow is not None and not self.follow(n, m, label):
                    continue
                ef = self._edge_fact(label)
                # the edge fact talks about the state after n's own effects
                o = out
                if ef is not None:
                    assigned, _ = self._effects(n)
                    if not (ef.deps & assigned):
                        o = dict(out)
                        o[ef.key] = ef
                old = IN[m]
                if old is None:
                    IN[m] = dict(o)
                    work.append(m)
                else:
                    new = {k: v for k, v in old.items() if k in o}
                    if len(new) != len(old):
                        IN[m] = new
                        work.append(m)
        self.IN = {n: (f if f is not None else {}) for n, f in IN.items()}
        self.unreachable = {n for n, f in IN.items() if f is None}

    def facts_at(self, expr: ast.AST) -> list[Fact]:
        """Facts that hold whenever `expr` is evaluated (CFG facts + facts from the
        enclosing short-circuit / conditional-expression / comprehension context)."""
        nodes = self.cfg.node_for_expr(expr)
        nodes = [n for n in nodes if n not in self.unreachable]
        if not nodes:
            facts: list[Fact] = []
        else:
            common = None
            for n in nodes:
                ks = set(self.IN[n])
                common = ks if common is None else (common & ks)
            facts = [self.IN[nodes[0]][k] for k in (common or set())]
        return facts + expr_context_facts(expr)


def _unconditional_index_reads(stmt: ast.AST) -> list[ast.Subscript]:
    """Non-slice index reads on a plain name that are evaluated whenever `stmt` runs."""
    out: list[ast.Subscript] = []
    stack = [stmt]
    while stack:
        n = stack.pop()
        if isinstance(n, (ast.IfExp, ast.BoolOp, ast.Lambda, ast.ListComp, ast.SetComp,
                          ast.DictComp, ast.GeneratorExp, ast.FunctionDef, ast.AsyncFunctionDef,
                          ast.ClassDef)):
            continue
        if (
            isinstance(n, ast.Subscript)
            and isinstance(n.ctx, ast.Load)
            and not isinstance(n.slice, (ast.Slice, ast.Tuple))
            and isinstance(n.value, ast.Name)
            and linear(n.slice) is not None
        ):
            out.append(n)
        if isinstance(n, ast.AnnAssign):
            stack.extend(x for x in (n.target, n.value) if x is not None)
            continue
        stack.extend(ast.iter_child_nodes(n))
    return out


# type tests are pure: `ok = isinstance(x, T)` is an equality that survives until x or ok is rebound
_PURE_TESTS = {"isinstance", "issubclass", "callable", "hasattr", "all", "any", "bool"}


def _has_call_other_than(expr: ast.AST, ok: set[str]) -> bool:
    for n in ast.walk(expr):
        if isinstance(n, ast.Call):
            if not (isinstance(n.func, ast.Name) and (n.func.id in ok or n.func.id in _PURE_TESTS or n.func.id.startswith("is_"))):
                return True
        if isinstance(n, (ast.Await, ast.Yield, ast.YieldFrom)):
            return True
    return False


def split_cond(expr: ast.AST, pol: bool) -> list[Fact]:
    """Atomic facts implied by `expr` having truth value `pol`."""
    if isinstance(expr, ast.UnaryOp) and isinstance(expr.op, ast.Not):
        return split_cond(expr.operand, not pol)
    if isinstance(expr, ast.BoolOp):
        if isinstance(expr.op, ast.And) and pol:
            return [f for v in expr.values for f in split_cond(v, True)]
        if isinstance(expr.op, ast.Or) and not pol:
            return [f for v in expr.values for f in split_cond(v, False)]
        return [Fact("cond", expr, pol)]
    return [Fact("cond", expr, pol)]


def expr_context_facts(expr: ast.AST) -> list[Fact]:
    """Facts established by the expression context of `expr` inside its statement:
    earlier operands of and/or, the test of an enclosing conditional expression,
    `if` clauses of an enclosing comprehension."""
    facts: list[Fact] = []
    child = expr
    p = parent(child)
    while p is not None and not isinstance(p, (ast.stmt, ast.ExceptHandler, ast.match_case)):
        if isinstance(p, ast.BoolOp):
            idx = next(i for i, v in enumerate(p.values) if v is child)
            for v in p.values[:idx]:
                facts += split_cond(v, isinstance(p.op, ast.And))
        elif isinstance(p, ast.IfExp):
            if child is p.body:
                facts += split_cond(p.test, True)
            elif child is p.orelse:
                facts += split_cond(p.test, False)
        elif isinstance(p, (ast.ListComp, ast.SetComp, ast.GeneratorExp, ast.DictComp)):
            inside_elt = child in (
                getattr(p, "elt", None), getattr(p, "key", None), getattr(p, "value", None)
            )
            if inside_elt:
                for g in p.generators:
                    for c in g.ifs:
                        facts += split_cond(c, True)
        elif isinstance(p, ast.comprehension):
            # an `if` clause sees the earlier `if` clauses of the same generator
            if child in p.ifs:
                for c in p.ifs[: p.ifs.index(child)]:
                    facts += split_cond(c, True)
        elif isinstance(p, (ast.Lambda, ast.FunctionDef, ast.AsyncFunctionDef)):
            break
        child = p
        p = parent(child)
    # a compound statement's own test does not guard itself; nothing to add
    return facts


# -- linear arithmetic ---------------------------------------------------------


class Lin:
    """c + sum(coeff * atom); atoms are normalised source texts."""

    __slots__ = ("terms", "const")

    def __init__(self, terms: dict[str, int] | None = None, const: int = 0) -> None:
        self.terms = {k: v for k, v in (terms or {}).items() if v != 0}
        self.const = const

    def __add__(self, o: "Lin") -> "Lin":
        t = dict(self.terms)
        for k, v in o.terms.items():
            t[k] = t.get(k, 0) + v
        return Lin(t, self.const + o.const)

    def __neg__(self) -> "Lin":
        return Lin({k: -v for k, v in self.terms.items()}, -self.const)

    def __sub__(self, o: "Lin") -> "Lin":
        return self + (-o)

    def scale(self, k: int) -> "Lin":
        return Lin({a: v * k for a, v in self.terms.items()}, self.const * k)

    def subst(self, atom: str, repl: "Lin") -> "Lin":
        if atom not in self.terms:
            return self
        k = self.terms[atom]
        rest = Lin({a: v for a, v in self.terms.items() if a != atom}, self.const)
        return rest + repl.scale(k)

    def is_const(self) -> bool:
        return not self.terms

    def __repr__(self) -> str:
        parts = [f"{v}*{k}" for k, v in sorted(self.terms.items())]
        parts.append(str(self.const))
        return " + ".join(parts)


def linear(expr: ast.AST) -> Lin | None:
    if isinstance(expr, ast.Constant):
        if isinstance(expr.value, bool) or not isinstance(expr.value, int):
            return None
        return Lin({}, expr.value)
    if isinstance(expr, ast.BinOp):
        l, r = linear(expr.left), linear(expr.right)
        if l is None or r is None:
            return None
        if isinstance(expr.op, ast.Add):
            return l + r
        if isinstance(expr.op, ast.Sub):
            return l - r
        if isinstance(expr.op, ast.Mult):
            if l.is_const():
                return r.scale(l.const)
            if r.is_const():
                return l.scale(r.const)
        return None
    if isinstance(expr, ast.UnaryOp) and isinstance(expr.op, ast.USub):
        v = linear(expr.operand)
        return -v if v is not None else None
    if isinstance(expr, (ast.Name, ast.Attribute)):
        return Lin({unparse(expr): 1})
    if isinstance(expr, ast.Call) and isinstance(expr.func, ast.Name):
        if expr.func.id == "len" and len(expr.args) == 1 and not expr.keywords:
            return Lin({f"len({unparse(expr.args[0])})": 1})
    return None


class Constraints:
    """Set of `lin >= 0` constraints derived from facts, closed under the
    equalities introduced by simple assignments."""

    def __init__(self, facts: Iterable[Fact]) -> None:
        self.ge: list[tuple[Lin, str]] = []  # lin >= 0, with provenance
        self.eq: dict[str, Lin] = {}
        self.min_of: dict[str, list[Lin]] = {}
        facts = list(facts)
        for f in facts:
            if f.kind == "eq":
                lin = linear(f.expr)
                if lin is not None:
                    self.eq[f.name] = lin
                elif (
                    isinstance(f.expr, ast.Call)
                    and isinstance(f.expr.func, ast.Name)
                    and f.expr.func.id == "min"
                    and not f.expr.keywords
                ):
                    args = [linear(a) for a in f.expr.args]
                    if all(a is not None for a in args) and len(args) >= 2:
                        for a in args:
                            # name <= a   <=>   a - name >= 0
                            self.ge.append((a - Lin({f.name: 1}), repr(f)))  # type: ignore[operator]
        # boolean locals: `flag = len(xs) != 1` makes a later test of `flag` a test of the comparison
        bool_eq = {
            f.name: f.expr
            for f in facts
            if f.kind == "eq" and isinstance(f.expr, (ast.Compare, ast.BoolOp, ast.UnaryOp))
        }
        for f in facts:
            if f.kind == "cond":
                self._add_cond(f.expr, f.pol, repr(f))
                if isinstance(f.expr, ast.Name) and f.expr.id in bool_eq:
                    # a conjunction held true (a disjunction held false) gives each of its parts
                    for sub in split_cond(bool_eq[f.expr.id], f.pol):
                        self._add_cond(sub.expr, sub.pol, f"{repr(f)} where {f.expr.id} = {unparse(bool_eq[f.expr.id])}")
        # len(x) >= 0 for every len atom mentioned
        atoms = {a for lin, _ in self.ge for a in lin.terms}
        for a in atoms:
            if a.startswith("len("):
                self.ge.append((Lin({a: 1}), f"{a} >= 0"))

    def norm(self, lin: Lin) -> Lin:
        for _ in range(4):
            changed = False
            for name, repl in self.eq.items():
                if name in lin.terms:
                    lin = lin.subst(name, repl)
                    changed = True
            if not changed:
                break
        return lin

    def _add_cond(self, expr: ast.AST, pol: bool, why: str) -> None:
        if isinstance(expr, ast.Compare) and len(expr.ops) == 1:
            l, r = linear(expr.left), linear(expr.comparators[0])
            if l is None or r is None:
                return
            op = expr.ops[0]
            d = r - l  # r - l
            one = Lin({}, 1)
            if not pol:
                op = {
                    ast.Lt: ast.GtE, ast.LtE: ast.Gt, ast.Gt: ast.LtE, ast.GtE: ast.Lt,
                    ast.Eq: ast.NotEq, ast.NotEq: ast.Eq,
                }.get(type(op), type(None))()  # fmt: skip
            if isinstance(op, ast.Lt):  # l < r  => r - l - 1 >= 0
                self.ge.append((d - one, why))
            elif isinstance(op, ast.LtE):
                self.ge.append((d, why))
            elif isinstance(op, ast.Gt):  # l > r => l - r - 1 >= 0
                self.ge.append((-d - one, why))
            elif isinstance(op, ast.GtE):
                self.ge.append((-d, why))
            elif isinstance(op, ast.Eq):
                self.ge.append((d, why))
                self.ge.append((-d, why))
        elif isinstance(expr, ast.Compare) and len(expr.ops) == 2 and pol:
            # a <= b <= c
            mid = expr.comparators[0]
            self._add_cond(ast.Compare(expr.left, [expr.ops[0]], [mid]), True, why)
            self._add_cond(ast.Compare(mid, [expr.ops[1]], [expr.comparators[1]]), True, why)
        elif isinstance(expr, (ast.Name, ast.Attribute)):
            # truthiness of a sized object: len >= 1 / len == 0
            atom = Lin({f"len({unparse(expr)})": 1})
            if pol:
                self.ge.append((atom - Lin({}, 1), why))
            else:
                self.ge.append((-atom, why))

    def prove_ge0(self, goal: Lin) -> str | None:
        """Return a proof sketch if `goal >= 0` follows from <= 2 constraints."""
        goal = self.norm(goal)
        if goal.is_const():
            return "constant" if goal.const >= 0 else None
        cs = [(self.norm(l), w) for l, w in self.ge]
        for l, w in cs:
            d = goal - l
            if d.is_const() and d.const >= 0:
                return w
        for i, (l1, w1) in enumerate(cs):
            for l2, w2 in cs[i + 1 :]:
                d = goal - l1 - l2
                if d.is_const() and d.const >= 0:
                    return f"{w1} ; {w2}"
        return None

    def prove_lt(self, a: ast.AST, b: ast.AST) -> str | None:
        la, lb = linear(a), linear(b)
        if la is None or lb is None:
            return None
        return self.prove_ge0(lb - la - Lin({}, 1))
