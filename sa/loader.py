"""Parse the package under analysis: ast + parent links + qualified names.

Nothing under the analysed tree is imported or executed.
"""

from __future__ import annotations

import ast
import hashlib
import os
from pathlib import Path
from typing import Iterator


class AnalysisError(Exception):
    """The analysis itself is broken (anchor missing, floor not met, ...).

    Never reported as a violation: the CLI turns it into exit code 2.
    """


def repo_root() -> Path:
    return Path(os.environ.get("VERIF_REPO", "/repo"))


def src_root() -> Path:
    return repo_root() / "src" / "graphql"


FuncDef = (ast.FunctionDef, ast.AsyncFunctionDef)
Scope = (ast.FunctionDef, ast.AsyncFunctionDef, ast.ClassDef, ast.Lambda)


class _LiteralMatchToIf(ast.NodeTransformer):
    """`match <name>:` whose cases are all literal patterns (`case "a" | "b":`, `case 1:`, optional final `case _:`, no
    guards) is the if/elif chain `if <name> in "ab": ... elif <name> == ...: ... else: ...` - the subject is a plain name,
    evaluated without side effect, and a literal pattern compares with `==`.  The rules read comparisons; rewriting the
    tree once here lets every one of them see through this spelling (positions are those of the original nodes).
    Class patterns and anything with a guard or a capture are left alone (rules.language_rules.pattern_facts reads those)."""

    @staticmethod
    def _alts(p: ast.pattern) -> list[ast.Constant] | None:
        if isinstance(p, ast.MatchValue) and isinstance(p.value, ast.Constant):
            return [p.value]
        if isinstance(p, ast.MatchOr):
            out: list[ast.Constant] = []
            for q in p.patterns:
                if not (isinstance(q, ast.MatchValue) and isinstance(q.value, ast.Constant)):
                    return None
                out.append(q.value)
            return out
        return None

    def visit_Match(self, node: ast.Match) -> ast.AST:
        self.generic_visit(node)
        if not isinstance(node.subject, ast.Name) or not node.cases:
            return node
        arms: list[tuple[ast.expr | None, list[ast.stmt]]] = []
        for i, c in enumerate(node.cases):
            if c.guard is not None:
                return node
            if isinstance(c.pattern, ast.MatchAs) and c.pattern.pattern is None and c.pattern.name is None:
                if i != len(node.cases) - 1:
                    return node
                arms.append((None, c.body))
                continue
            alts = self._alts(c.pattern)
            if not alts or any(isinstance(a.value, (bool, type(None))) for a in alts):
                return node
            subj = ast.copy_location(ast.Name(id=node.subject.id, ctx=ast.Load()), node.subject)
            if len(alts) == 1:
                test: ast.expr = ast.Compare(left=subj, ops=[ast.Eq()], comparators=[alts[0]])
            elif all(isinstance(a.value, str) and len(a.value) == 1 for a in alts):
                test = ast.Compare(left=subj, ops=[ast.In()], comparators=[ast.copy_location(ast.Constant(value="".join(a.value for a in alts)), alts[0])])
            else:
                test = ast.Compare(left=subj, ops=[ast.In()], comparators=[ast.copy_location(ast.Tuple(elts=list(alts), ctx=ast.Load()), alts[0])])
            ast.copy_location(test, c.pattern)
            arms.append((test, c.body))
        if arms[0][0] is None:
            return node
        orelse: list[ast.stmt] = []
        for test, body in reversed(arms):
            if test is None:
                orelse = list(body)
                continue
            new_if = ast.If(test=test, body=list(body), orelse=orelse)
            ast.copy_location(new_if, test)
            new_if.end_lineno = getattr(body[-1], "end_lineno", getattr(test, "end_lineno", None))
            new_if.end_col_offset = getattr(body[-1], "end_col_offset", 0)
            orelse = [new_if]
        top = orelse[0]
        top.lineno, top.col_offset = node.lineno, node.col_offset
        top.end_lineno, top.end_col_offset = node.end_lineno, node.end_col_offset
        return top


class Module:
    def __init__(self, name: str, path: Path, rel: str | None = None) -> None:
        self.name = name
        self.path = path
        self.rel = rel if rel is not None else str(path.relative_to(repo_root()))
        self.src = path.read_text(encoding="utf-8")
        self.digest = hashlib.sha256(self.src.encode()).hexdigest()[:16]
        try:
            self.tree = ast.parse(self.src, filename=str(path))
        except SyntaxError as e:  # pragma: no cover
            raise AnalysisError(f"cannot parse {path}: {e}") from e
        self.tree = _LiteralMatchToIf().visit(self.tree)
        self.is_package = path.name == "__init__.py"
        self.defs: dict[str, ast.AST] = {}  # qualname -> def node
        self._annotate()

    def _annotate(self) -> None:
        tree = self.tree
        tree.parent = None  # type: ignore[attr-defined]
        tree.module = self  # type: ignore[attr-defined]
        stack: list[tuple[ast.AST, str]] = [(tree, "")]
        while stack:
            node, prefix = stack.pop()
            for child in ast.iter_child_nodes(node):
                child.parent = node  # type: ignore[attr-defined]
                child_prefix = prefix
                if isinstance(child, (*FuncDef, ast.ClassDef)):
                    qn = f"{prefix}{child.name}"
                    child.qualname = qn  # type: ignore[attr-defined]
                    child.module = self  # type: ignore[attr-defined]
                    # first definition wins for lookup, but keep overloads out
                    if qn not in self.defs or _is_overload(self.defs[qn]):
                        self.defs[qn] = child
                    child_prefix = qn + "."
                stack.append((child, child_prefix))

    # -- lookup -----------------------------------------------------------
    def get(self, qualname: str) -> ast.AST:
        try:
            return self.defs[qualname]
        except KeyError:
            raise AnalysisError(
                f"anchor missing: {self.name}:{qualname} (file {self.rel})"
            ) from None

    def has(self, qualname: str) -> bool:
        return qualname in self.defs

    def functions(self) -> Iterator[ast.AST]:
        for node in self.defs.values():
            if isinstance(node, FuncDef):
                yield node

    def classes(self) -> Iterator[ast.ClassDef]:
        for node in self.defs.values():
            if isinstance(node, ast.ClassDef):
                yield node

    def toplevel_assign(self, name: str) -> ast.expr | None:
        """Value expression of the last module-level assignment to `name`."""
        found = None
        for stmt in self.tree.body:
            if isinstance(stmt, ast.Assign):
                for t in stmt.targets:
                    if isinstance(t, ast.Name) and t.id == name:
                        found = stmt.value
            elif isinstance(stmt, ast.AnnAssign) and stmt.value is not None:
                if isinstance(stmt.target, ast.Name) and stmt.target.id == name:
                    found = stmt.value
        return found


def _is_overload(node: ast.AST) -> bool:
    for d in getattr(node, "decorator_list", []):
        if isinstance(d, ast.Name) and d.id == "overload":
            return True
        if isinstance(d, ast.Attribute) and d.attr == "overload":
            return True
    return False


class Repo:
    """All modules of the analysed package, parsed."""

    def __init__(self) -> None:
        root = src_root()
        if not root.is_dir():
            raise AnalysisError(f"no package at {root}")
        self.root = root
        self.modules: dict[str, Module] = {}
        for path in sorted(root.rglob("*.py")):
            rel = path.relative_to(root.parent).with_suffix("")
            parts = list(rel.parts)
            if parts[-1] == "__init__":
                parts.pop()
            name = ".".join(parts)
            self.modules[name] = Module(name, path)
        if len(self.modules) < 100:
            raise AnalysisError(
                f"only {len(self.modules)} modules under {root}: tree incomplete"
            )

    def mod(self, name: str) -> Module:
        if not name.startswith("graphql"):
            name = "graphql." + name
        try:
            return self.modules[name]
        except KeyError:
            raise AnalysisError(f"anchor missing: module {name}") from None

    def func(self, module: str, qualname: str) -> ast.FunctionDef:
        node = self.mod(module).get(qualname)
        if not isinstance(node, FuncDef):
            raise AnalysisError(f"anchor {module}:{qualname} is not a function")
        return node  # type: ignore[return-value]

    def cls(self, module: str, qualname: str) -> ast.ClassDef:
        node = self.mod(module).get(qualname)
        if not isinstance(node, ast.ClassDef):
            raise AnalysisError(f"anchor {module}:{qualname} is not a class")
        return node

    def package_modules(self, prefix: str) -> list[Module]:
        if not prefix.startswith("graphql"):
            prefix = "graphql." + prefix
        return [
            m
            for n, m in self.modules.items()
            if n == prefix or n.startswith(prefix + ".")
        ]

    def all_functions(self) -> Iterator[ast.AST]:
        for m in self.modules.values():
            yield from m.functions()

    def digests(self, mods: list[str] | None = None) -> dict[str, str]:
        out = {}
        for n, m in self.modules.items():
            if mods is None or n in mods:
                out[m.rel] = m.digest
        return out


# -- generic ast helpers ----------------------------------------------------


def parent(node: ast.AST) -> ast.AST | None:
    return getattr(node, "parent", None)


def ancestors(node: ast.AST) -> Iterator[ast.AST]:
    p = parent(node)
    while p is not None:
        yield p
        p = parent(p)


def enclosing_function(node: ast.AST) -> ast.AST | None:
    for a in ancestors(node):
        if isinstance(a, (*FuncDef, ast.Lambda)):
            return a
    return None


def enclosing_def(node: ast.AST) -> ast.AST | None:
    """Nearest enclosing def/class with a qualname."""
    for a in ancestors(node):
        if isinstance(a, (*FuncDef, ast.ClassDef)):
            return a
    return None


def enclosing_stmt(node: ast.AST) -> ast.stmt:
    n = node
    while not isinstance(n, ast.stmt):
        n = parent(n)  # type: ignore[assignment]
        if n is None:
            raise AnalysisError("node without enclosing statement")
    return n


def module_of(node: ast.AST) -> Module:
    n: ast.AST | None = node
    while n is not None:
        m = getattr(n, "module", None)
        if m is not None and isinstance(n, ast.Module):
            return m
        n = parent(n)
    raise AnalysisError("node without module")


def qualname_of(node: ast.AST) -> str:
    """Qualified name of the def containing (or being) node; '<module>' at top."""
    if isinstance(node, (*FuncDef, ast.ClassDef)):
        return node.qualname  # type: ignore[attr-defined]
    d = enclosing_def(node)
    return d.qualname if d is not None else "<module>"  # type: ignore[attr-defined]


def where(node: ast.AST) -> str:
    m = module_of(node)
    return f"{m.rel}:{getattr(node, 'lineno', 0)}"


def unparse(node: ast.AST) -> str:
    """Normalised source text of a construct (layout-independent)."""
    return ast.unparse(node)


def walk_local(func: ast.AST) -> Iterator[ast.AST]:
    """Walk a function body without descending into nested defs/lambdas/classes."""
    stack = list(ast.iter_child_nodes(func))[::-1]
    while stack:
        n = stack.pop()
        yield n
        if isinstance(n, Scope):
            continue
        stack.extend(list(ast.iter_child_nodes(n))[::-1])


def walk_body(func: ast.AST) -> Iterator[ast.AST]:
    """Like walk_local but only the body statements (not args/decorators)."""
    stack: list[ast.AST] = list(getattr(func, "body", []))[::-1]
    while stack:
        n = stack.pop()
        yield n
        if isinstance(n, Scope):
            continue
        stack.extend(list(ast.iter_child_nodes(n))[::-1])


def call_name(call: ast.Call) -> str:
    """Dotted text of the callee (`self.foo.bar`, `len`) or ''."""
    f = call.func
    parts = []
    while isinstance(f, ast.Attribute):
        parts.append(f.attr)
        f = f.value
    if isinstance(f, ast.Name):
        parts.append(f.id)
        return ".".join(reversed(parts))
    return ""


def last_attr(call: ast.Call) -> str:
    f = call.func
    if isinstance(f, ast.Attribute):
        return f.attr
    if isinstance(f, ast.Name):
        return f.id
    return ""


def names_in(node: ast.AST) -> set[str]:
    return {n.id for n in ast.walk(node) if isinstance(n, ast.Name)}


def fixture(name: str) -> Module:
    """A control fixture under /verif/fixtures, parsed like a repo module."""
    path = Path(__file__).resolve().parent.parent / "fixtures" / f"{name}.py"
    if not path.exists():
        raise AnalysisError(f"control fixture missing: {path}")
    return Module(f"fixtures.{name}", path, rel=f"fixtures/{name}.py")


def class_tests(scope: ast.AST, subject: str) -> set[str]:
    """Class names `subject` is tested against in `scope`: isinstance(subject, X | (X, Y)) calls and
    `match subject: case X(): ...` class patterns (the two spellings of one dispatch)."""
    out: set[str] = set()
    for n in ast.walk(scope):
        if isinstance(n, ast.Call) and call_name(n) == "isinstance" and len(n.args) == 2 and unparse(n.args[0]) == subject:
            out |= {x.id for x in ast.walk(n.args[1]) if isinstance(x, ast.Name)}
            out |= {x.attr for x in ast.walk(n.args[1]) if isinstance(x, ast.Attribute)}
        elif isinstance(n, ast.Match) and unparse(n.subject) == subject:
            for case in n.cases:
                for pat in ast.walk(case.pattern):
                    if isinstance(pat, ast.MatchClass):
                        out |= {x.id for x in ast.walk(pat.cls) if isinstance(x, ast.Name)}
                        out |= {x.attr for x in ast.walk(pat.cls) if isinstance(x, ast.Attribute)}
    return out
