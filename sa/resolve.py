"""Name resolution across modules: class hierarchy, method lookup, call graph."""

from __future__ import annotations

import ast
from typing import Iterator

from .loader import AnalysisError, FuncDef, Module, Repo, call_name, enclosing_def, module_of, unparse, walk_body
from .tables import resolve_name


class ClassInfo:
    def __init__(self, mod: Module, node: ast.ClassDef) -> None:
        self.mod = mod
        self.node = node
        self.name = node.name
        self.full = f"{mod.name}.{node.qualname}"  # type: ignore[attr-defined]
        self.bases: list["ClassInfo"] = []
        self.base_texts = [unparse(b) for b in node.bases]

    def methods(self) -> dict[str, ast.AST]:
        out: dict[str, ast.AST] = {}
        for s in self.node.body:
            if isinstance(s, FuncDef):
                out.setdefault(s.name, s)
        return out

    def aliases(self) -> dict[str, str]:
        """class-level `a = b` method aliases."""
        out = {}
        for s in self.node.body:
            if isinstance(s, ast.Assign) and len(s.targets) == 1 and isinstance(s.targets[0], ast.Name) \
                    and isinstance(s.value, ast.Name):
                out[s.targets[0].id] = s.value.id
        return out

    def __repr__(self) -> str:
        return f"<class {self.full}>"


class ClassIndex:
    def __init__(self, repo: Repo) -> None:
        self.repo = repo
        self.by_full: dict[str, ClassInfo] = {}
        self.by_node: dict[ast.ClassDef, ClassInfo] = {}
        for mod in repo.modules.values():
            for c in mod.classes():
                ci = ClassInfo(mod, c)
                self.by_full[ci.full] = ci
                self.by_node[c] = ci
        for ci in self.by_full.values():
            for b in ci.node.bases:
                target = self.resolve_class_expr(ci.mod, b)
                if target is not None:
                    ci.bases.append(target)

    def resolve_class_expr(self, mod: Module, e: ast.AST) -> ClassInfo | None:
        if isinstance(e, ast.Subscript):  # Generic[T] / Base[T]
            e = e.value
        if isinstance(e, ast.Name):
            r = resolve_name(self.repo, mod, e.id)
            if r is not None:
                tm, local = r
                node = tm.defs.get(local)
                if isinstance(node, ast.ClassDef):
                    return self.by_node.get(node)
        return None

    def get(self, module: str, name: str) -> ClassInfo:
        if not module.startswith("graphql"):
            module = "graphql." + module
        ci = self.by_full.get(f"{module}.{name}")
        if ci is None:
            raise AnalysisError(f"anchor missing: class {module}.{name}")
        return ci

    def mro(self, ci: ClassInfo) -> list[ClassInfo]:
        out: list[ClassInfo] = []
        stack = [ci]
        while stack:
            c = stack.pop(0)
            if c in out:
                continue
            out.append(c)
            stack = c.bases + stack
        return out

    def is_subclass(self, ci: ClassInfo, base: ClassInfo) -> bool:
        return base in self.mro(ci)

    def subclasses(self, base: ClassInfo, strict: bool = True) -> list[ClassInfo]:
        return [c for c in self.by_full.values() if self.is_subclass(c, base) and (not strict or c is not base)]

    def find_method(self, ci: ClassInfo, name: str) -> tuple[ClassInfo, ast.AST] | None:
        for c in self.mro(ci):
            ms = c.methods()
            if name in ms:
                return c, ms[name]
            al = c.aliases()
            if name in al:
                r = self.find_method(ci, al[name])
                if r:
                    return r
        return None


def class_of(func: ast.AST) -> ast.ClassDef | None:
    d = enclosing_def(func)
    return d if isinstance(d, ast.ClassDef) else None


class CallGraph:
    """Resolved call edges: bare names through imports, self.m through the class hierarchy
    (all overrides in subclasses included), bound-method aliases (`f = self.m`)."""

    def __init__(self, repo: Repo, classes: ClassIndex | None = None) -> None:
        self.repo = repo
        self.classes = classes or ClassIndex(repo)
        self._edges: dict[ast.AST, list[tuple[ast.Call, ast.AST]]] = {}

    def callees(self, func: ast.AST) -> list[tuple[ast.Call, ast.AST]]:
        if func in self._edges:
            return self._edges[func]
        out: list[tuple[ast.Call, ast.AST]] = []
        mod = module_of(func)
        cls_node = class_of(func)
        ci = self.classes.by_node.get(cls_node) if cls_node is not None else None
        aliases: dict[str, str] = {}
        for n in walk_body(func):
            if isinstance(n, ast.Assign) and len(n.targets) == 1 and isinstance(n.targets[0], ast.Name) \
                    and isinstance(n.value, ast.Attribute) and isinstance(n.value.value, ast.Name) \
                    and n.value.value.id == "self":
                aliases[n.targets[0].id] = n.value.attr
        for n in ast.walk(func):
            if not isinstance(n, ast.Call):
                continue
            f = n.func
            targets: list[ast.AST] = []
            if isinstance(f, ast.Name):
                if f.id in aliases and ci is not None:
                    targets += self._methods(ci, aliases[f.id])
                else:
                    r = resolve_name(self.repo, mod, f.id)
                    if r is not None:
                        tm, local = r
                        node = tm.defs.get(local)
                        if isinstance(node, FuncDef):
                            targets.append(node)
                        elif isinstance(node, ast.ClassDef):
                            c2 = self.classes.by_node.get(node)
                            if c2:
                                m = self.classes.find_method(c2, "__init__")
                                if m:
                                    targets.append(m[1])
            elif isinstance(f, ast.Attribute) and isinstance(f.value, ast.Name) and f.value.id in ("self", "cls") and ci is not None:
                targets += self._methods(ci, f.attr)
            elif isinstance(f, ast.Attribute) and isinstance(f.value, ast.Name) and f.value.id not in ("self", "cls"):
                # x = ClassName(...); x.m(...)
                rc = self._local_class(func, f.value.id, mod)
                if rc is not None:
                    targets += self._methods(rc, f.attr)
            elif isinstance(f, ast.Attribute) and isinstance(f.value, ast.Attribute) and isinstance(f.value.value, ast.Name) \
                    and f.value.value.id == "self" and ci is not None:
                # self.attr.m(...) where some method assigns self.attr = ClassName(...)
                rc = self._attr_class(ci, f.value.attr)
                if rc is not None:
                    targets += self._methods(rc, f.attr)
            elif isinstance(f, ast.Call) and isinstance(f.func, ast.Name) and f.func.id == "getattr" and len(f.args) >= 2 \
                    and isinstance(f.args[0], ast.Name) and f.args[0].id == "self" and ci is not None:
                # getattr(self, f"parse_{name}")(): every method with that prefix
                a1 = f.args[1]
                prefix = None
                if isinstance(a1, ast.JoinedStr) and a1.values and isinstance(a1.values[0], ast.Constant):
                    prefix = str(a1.values[0].value)
                elif isinstance(a1, ast.BinOp) and isinstance(a1.left, ast.Constant):
                    prefix = str(a1.left.value)
                if prefix:
                    for c2 in self.classes.mro(ci):
                        for mn, m in c2.methods().items():
                            if mn.startswith(prefix) and m not in targets:
                                targets.append(m)
            elif isinstance(f, ast.IfExp) and ci is not None:
                # (self.a if cond else self.b)(...)
                for alt in (f.body, f.orelse):
                    if isinstance(alt, ast.Attribute) and isinstance(alt.value, ast.Name) and alt.value.id == "self":
                        targets += self._methods(ci, alt.attr)
            for t in targets:
                out.append((n, t))
        self._edges[func] = out
        return out

    def _local_class(self, func: ast.AST, name: str, mod: Module) -> ClassInfo | None:
        for n in ast.walk(func):
            if isinstance(n, ast.Assign) and len(n.targets) == 1 and isinstance(n.targets[0], ast.Name) and n.targets[0].id == name \
                    and isinstance(n.value, ast.Call) and isinstance(n.value.func, ast.Name):
                rc = self.classes.resolve_class_expr(mod, n.value.func)
                if rc is not None:
                    return rc
        return None

    def _attr_class(self, ci: ClassInfo, attr: str) -> ClassInfo | None:
        for c in self.classes.mro(ci):
            for m in c.methods().values():
                for n in ast.walk(m):
                    if isinstance(n, ast.Assign) and len(n.targets) == 1 and isinstance(n.targets[0], ast.Attribute) \
                            and isinstance(n.targets[0].value, ast.Name) and n.targets[0].value.id == "self" and n.targets[0].attr == attr:
                        v = n.value
                        # Lexer(source) / (A if x else B)(source)
                        cands = []
                        if isinstance(v, ast.Call):
                            fn = v.func
                            cands = [fn.body, fn.orelse] if isinstance(fn, ast.IfExp) else [fn]
                        for cand in cands:
                            if isinstance(cand, ast.Name):
                                rc = self.classes.resolve_class_expr(c.mod, cand)
                                if rc is not None:
                                    return rc
            for s in c.node.body:
                if isinstance(s, ast.AnnAssign) and isinstance(s.target, ast.Name) and s.target.id == attr:
                    for nm in ast.walk(s.annotation):
                        if isinstance(nm, ast.Name):
                            rc = self.classes.resolve_class_expr(c.mod, nm)
                            if rc is not None:
                                return rc
        return None

    def _methods(self, ci: ClassInfo, name: str) -> list[ast.AST]:
        out: list[ast.AST] = []
        m = self.classes.find_method(ci, name)
        if m:
            out.append(m[1])
        for sub in self.classes.subclasses(ci):
            ms = sub.methods()
            if name in ms and ms[name] not in out:
                out.append(ms[name])
        return out

    def reachable(self, roots: list[ast.AST], depth: int = 6) -> dict[ast.AST, list[ast.AST]]:
        """functions reachable from roots -> one call chain (list of functions) to each."""
        chain: dict[ast.AST, list[ast.AST]] = {r: [r] for r in roots}
        frontier = list(roots)
        for _ in range(depth):
            nxt = []
            for f in frontier:
                for _call, t in self.callees(f):
                    if t not in chain:
                        chain[t] = chain[f] + [t]
                        nxt.append(t)
            frontier = nxt
            if not frontier:
                break
        return chain
