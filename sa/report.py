"""Obligations, evidence files, VIOLATION / KNOWN-FINDING lines, replay files."""

from __future__ import annotations

import ast
import json
import os
import time
from pathlib import Path
from typing import Any

from .loader import AnalysisError, Repo, module_of, qualname_of, unparse

VERIF = Path(__file__).resolve().parent.parent
EVIDENCE_DIR = Path(os.environ.get("VERIF_EVIDENCE_DIR") or VERIF / "evidence")
KNOWN_FILE = VERIF / "known_findings.json"


class Obligation:
    __slots__ = ("rule", "file", "line", "func", "construct", "ok", "detail", "nontrivial")

    def __init__(self, rule, file, line, func, construct, ok, detail, nontrivial):
        self.rule = rule
        self.file = file
        self.line = line
        self.func = func
        self.construct = construct
        self.ok = ok
        self.detail = detail
        self.nontrivial = nontrivial

    @property
    def key(self) -> dict[str, str]:
        # keyed by rule and construct, never by line number
        return {
            "rule": self.rule,
            "file": self.file,
            "function": self.func,
            "construct": self.construct,
        }

    def as_dict(self) -> dict[str, Any]:
        return {
            "rule": self.rule,
            "at": f"{self.file}:{self.line}",
            "function": self.func,
            "construct": self.construct,
            "verdict": "discharged" if self.ok else "VIOLATED",
            "how": self.detail,
        }


def load_known() -> dict[str, list[dict[str, Any]]]:
    if not KNOWN_FILE.exists():
        return {"known": [], "fixed": []}
    data = json.loads(KNOWN_FILE.read_text())
    data.setdefault("known", [])
    data.setdefault("fixed", [])
    return data


class Check:
    """Collects the obligations of one property run and renders the verdict."""

    def __init__(self, pid: str, tier: str, repo: Repo, explanation: str) -> None:
        self.pid = pid
        self.tier = tier
        self.repo = repo
        self.explanation = explanation
        self.obligations: list[Obligation] = []
        self.floors: dict[str, tuple[int, str]] = {}
        self.controls: list[dict[str, Any]] = []
        self.analysed: dict[str, Any] = {}
        self.assumptions: list[str] = []
        self.rules: dict[str, str] = {}
        self.t0 = time.time()
        self.seed = int(os.environ.get("VERIF_SEED", "0") or 0)
        self.consulted: set[str] = set()

    # -- recording --------------------------------------------------------
    def rule(self, name: str, text: str) -> None:
        self.rules[name] = text

    def ob(
        self,
        rule: str,
        node: ast.AST | tuple[str, int, str] | None,
        construct: str,
        ok: bool,
        detail: str = "",
        nontrivial: bool = True,
    ) -> bool:
        if isinstance(node, tuple):
            file, line, func = node
        elif node is None:
            file, line, func = "-", 0, "-"
        else:
            m = module_of(node)
            file, line, func = m.rel, getattr(node, "lineno", 0), qualname_of(node)
            self.consulted.add(m.name)
        self.obligations.append(
            Obligation(rule, file, line, func, construct, bool(ok), detail, nontrivial)
        )
        return bool(ok)

    def floor(self, rule: str, minimum: int, what: str = "") -> None:
        """The rule must have matched at least `minimum` instances (confirmed by hand)."""
        self.floors[rule] = (minimum, what)

    def control(self, name: str, fired: bool, expected: bool) -> None:
        self.controls.append({"control": name, "fired": fired, "expected": expected})
        if fired != expected:
            raise AnalysisError(
                f"control {name}: rule {'fired' if fired else 'silent'}, "
                f"expected {'fire' if expected else 'silence'}"
            )

    def note(self, **kw: Any) -> None:
        for k, v in kw.items():
            if isinstance(v, int) and isinstance(self.analysed.get(k), int):
                self.analysed[k] += v
            else:
                self.analysed[k] = v

    def assume(self, text: str) -> None:
        if text not in self.assumptions:
            self.assumptions.append(text)

    # -- verdict ----------------------------------------------------------
    def finish(self) -> int:
        counts: dict[str, int] = {}
        for o in self.obligations:
            counts[o.rule] = counts.get(o.rule, 0) + 1
        for rule, (minimum, what) in self.floors.items():
            if counts.get(rule, 0) < minimum:
                raise AnalysisError(
                    f"floor not met: rule {rule} matched {counts.get(rule, 0)} "
                    f"instances, confirmed by hand: >= {minimum} {what}"
                )
        known = load_known()
        known_keys = [
            e for e in known["known"] if e.get("property") == self.pid
        ]
        failed = [o for o in self.obligations if not o.ok]
        violations: list[Obligation] = []
        known_hits: list[tuple[Obligation, dict[str, Any]]] = []
        for o in failed:
            entry = next(
                (
                    e
                    for e in known_keys
                    if all(e.get(k) == v for k, v in o.key.items())
                ),
                None,
            )
            if entry is not None:
                known_hits.append((o, entry))
            else:
                violations.append(o)

        vdir = EVIDENCE_DIR / "violations"
        replay_paths = []
        if violations:
            vdir.mkdir(parents=True, exist_ok=True)
        for k, o in enumerate(violations):
            path = vdir / f"{self.pid}-{k}.json"
            path.write_text(
                json.dumps(
                    {
                        "property_id": self.pid,
                        "key": o.key,
                        "at": f"{o.file}:{o.line}",
                        "reason": o.detail,
                        "rule_text": self.rules.get(o.rule, ""),
                        "replay": f"./check {self.pid} --replay {path}",
                    },
                    indent=1,
                )
            )
            replay_paths.append(path)

        nontrivial = {
            (o.rule, o.file, o.func, o.construct)
            for o in self.obligations
            if o.nontrivial
        }
        # samples: all failures + a spread over rules
        samples = [o.as_dict() for o in failed]
        seen_rules: dict[str, int] = {}
        for o in self.obligations:
            if o.ok and seen_rules.get(o.rule, 0) < 3:
                seen_rules[o.rule] = seen_rules.get(o.rule, 0) + 1
                samples.append(o.as_dict())
        per_rule = {
            r: {
                "instances": counts[r],
                "discharged": sum(1 for o in self.obligations if o.rule == r and o.ok),
                "floor": self.floors.get(r, (0, ""))[0],
                "rule": self.rules.get(r, ""),
            }
            for r in sorted(counts)
        }
        evidence = {
            "property_id": self.pid,
            "tier": self.tier,
            "seed": self.seed,
            "level": "other",
            "coverage": {
                "explanation": self.explanation
                + " Rules evaluated in this run (full texts under coverage.rules): "
                + ", ".join(sorted(counts))
                + ".",
                "obligations": len(self.obligations),
                "discharged": len(self.obligations) - len(failed),
                "evaluations": len(self.obligations),
                "distinct_nontrivial": len(nontrivial),
                "rule": "one obligation per (rule, file, function, construct) instance "
                "found in /repo's current source; non-trivial = needed a guard proof, "
                "path query, table comparison or type lookup (not merely 'rule does "
                "not apply here')",
                "samples": samples[:60],
                "rules": per_rule,
                "analysed": self.analysed,
                "controls": self.controls,
                "known_findings": [
                    {**o.key, "what": e.get("what", "")} for o, e in known_hits
                ],
                "digests": self.repo.digests(sorted(self.consulted)),
                "exhaustive": True,
                "checker_cmd": f"./check {self.pid} --tier {self.tier}",
                "trusted_base": [
                    "CPython ast / re._parser",
                    "the rule tables in /verif/sa and /verif/checks",
                ],
            },
            "assumptions": self.assumptions,
            "wall_s": round(time.time() - self.t0, 3),
            "violations": len(violations),
        }
        EVIDENCE_DIR.mkdir(exist_ok=True)
        (EVIDENCE_DIR / f"{self.pid}.json").write_text(json.dumps(evidence, indent=1))

        print(
            f"[{self.pid}/{self.tier}] obligations={len(self.obligations)} "
            f"discharged={len(self.obligations) - len(failed)} "
            f"rules={len(counts)} wall={evidence['wall_s']}s"
        )
        for r, info in per_rule.items():
            print(f"  {r}: {info['discharged']}/{info['instances']} (floor {info['floor']})")
        for o, e in known_hits:
            print(
                f"KNOWN-FINDING: property={self.pid} {o.rule} {o.file} {o.func}: "
                f"{o.construct} -- {e.get('what', '')}"
            )
        for o, path in zip(violations, replay_paths):
            print(f"{o.file}:{o.line}: {o.rule}: in {o.func}: {o.construct}: {o.detail}")
            print(f"VIOLATION property={self.pid} replay={path}")
        return 1 if violations else 0


def node_text(node: ast.AST, limit: int = 120) -> str:
    s = unparse(node)
    s = " ".join(s.split())
    return s if len(s) <= limit else s[: limit - 3] + "..."
