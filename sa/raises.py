"""May-raise analysis over explicit `raise` statements, resolved through the call graph.

summary(fn) = exception classes that can leave `fn` because of an *explicit*
raise in fn or (transitively, bounded) in a resolved callee, after subtracting
what enclosing try/except handlers of each raise / call site catch.  A raise of
a value is classified by: the constructor called, the return annotation of the
called factory (`raise self.abort_error()` -> Exception), the class of the
`except E as name` binding for `raise name`, or the handler class for a bare
`raise`.  Unknown -> "Exception".

Calling an `async def` raises nothing at the call; its summary applies where
the call is awaited.  A nested function passed as an argument is assumed to be
invoked by the callee (conservative for callbacks such as async_reduce's).
"""

from __future__ import annotations

import ast

from .cfg import handler_types
from .loader import FuncDef, Repo, ancestors, call_name, enclosing_function, module_of, parent, unparse, walk_body
from .resolve import CallGraph, ClassIndex, class_of
from .tables import resolve_name

BUILTIN_BASES = {
    "BaseException": None, "Exception": "BaseException", "TypeError": "Exception", "ValueError": "Exception",
    "KeyError": "LookupError", "IndexError": "LookupError", "LookupError": "Exception",
    "AttributeError": "Exception", "RuntimeError": "Exception", "StopIteration": "Exception",
    "StopAsyncIteration": "Exception", "NotImplementedError": "RuntimeError", "OverflowError": "ArithmeticError",
    "ArithmeticError": "Exception", "ZeroDivisionError": "ArithmeticError", "UnicodeDecodeError": "ValueError",
    "UnicodeError": "ValueError", "AssertionError": "Exception", "OSError": "Exception",
    "CancelledError": "BaseException", "GeneratorExit": "BaseException", "KeyboardInterrupt": "BaseException",
    "RecursionError": "RuntimeError", "TimeoutError": "OSError",
}  # fmt: skip


class ExcHierarchy:
    def __init__(self, repo: Repo, classes: ClassIndex) -> None:
        self.repo = repo
        self.classes = classes
        self.repo_bases: dict[str, list[str]] = {}
        for ci in classes.by_full.values():
            self.repo_bases.setdefault(ci.name, [])
            for b in ci.node.bases:
                nm = unparse(b).split(".")[-1].split("[")[0]
                self.repo_bases[ci.name].append(nm)

    def supers(self, cls: str) -> set[str]:
        cls = cls.split(".")[-1]
        out = {cls}
        stack = [cls]
        while stack:
            c = stack.pop()
            for b in self.repo_bases.get(c, []):
                if b not in out:
                    out.add(b)
                    stack.append(b)
            b2 = BUILTIN_BASES.get(c)
            if b2 and b2 not in out:
                out.add(b2)
                stack.append(b2)
        return out

    def catches(self, handler: tuple[str, ...], cls: str) -> str:
        """'yes' (cls is a subclass of a handler class), 'maybe' (a handler class is a subclass of cls), 'no'."""
        hs = {h.split(".")[-1] for h in handler}
        if self.supers(cls) & hs:
            return "yes"
        if any(cls.split(".")[-1] in self.supers(h) for h in hs):
            return "maybe"
        return "no"


class MayRaise:
    def __init__(self, repo: Repo, classes: ClassIndex | None = None, cg: CallGraph | None = None, depth: int = 6) -> None:
        self.repo = repo
        self.classes = classes or ClassIndex(repo)
        self.cg = cg or CallGraph(repo, self.classes)
        self.hier = ExcHierarchy(repo, self.classes)
        self.depth = depth
        self._memo: dict[ast.AST, dict[tuple[str, str], str]] = {}
        self._active: set[ast.AST] = set()

    # -- classification of raised values ------------------------------------------------
    def raise_class(self, r: ast.Raise, fn: ast.AST) -> str:
        e = r.exc
        if e is None:
            for a in ancestors(r):
                if isinstance(a, ast.ExceptHandler):
                    return handler_types(a)[0].split(".")[-1]
                if a is fn:
                    break
            return "Exception"
        return self.expr_class(e, fn)

    def expr_class(self, e: ast.AST, fn: ast.AST) -> str:
        if isinstance(e, ast.Call):
            f = e.func
            name = f.id if isinstance(f, ast.Name) else (f.attr if isinstance(f, ast.Attribute) else "")
            if name[:1].isupper():
                return name
            # factory: use its return annotation
            target = None
            if isinstance(f, ast.Name):
                r = resolve_name(self.repo, module_of(fn), f.id)
                if r is not None:
                    target = r[0].defs.get(r[1])
            elif isinstance(f, ast.Attribute):
                cn = class_of(fn) if isinstance(fn, FuncDef) else None
                outer = fn
                while cn is None and outer is not None:
                    outer = enclosing_function(outer)
                    cn = class_of(outer) if outer is not None and isinstance(outer, FuncDef) else None
                if cn is not None and isinstance(f.value, ast.Name) and f.value.id == "self":
                    ci = self.classes.by_node.get(cn)
                    m = self.classes.find_method(ci, f.attr) if ci else None
                    target = m[1] if m else None
                if target is None:
                    # any function/method of that name in the package with a return annotation
                    for m in self.repo.modules.values():
                        for g in m.functions():
                            if g.name == f.attr and g.returns is not None:  # type: ignore[attr-defined]
                                target = g
                                break
                        if target is not None:
                            break
            if isinstance(target, FuncDef):
                rets = [x for x in walk_body(target) if isinstance(x, ast.Return) and x.value is not None]
                ctor = {last for x in rets if isinstance(x.value, ast.Call)
                        for last in [x.value.func.id if isinstance(x.value.func, ast.Name) else getattr(x.value.func, "attr", "")]
                        if last[:1].isupper()}
                if rets and len(ctor) == 1 and all(isinstance(x.value, ast.Call) for x in rets):
                    return next(iter(ctor))
            if isinstance(target, FuncDef) and target.returns is not None:
                ann = unparse(target.returns)
                names = [n for n in ann.replace("|", " ").split() if n[:1].isupper()]
                if names:
                    return names[0].split(".")[-1]
            return "Exception"
        if isinstance(e, ast.Name):
            # `except E as name: ... raise name`
            for a in ancestors(e):
                if isinstance(a, ast.ExceptHandler) and a.name == e.id:
                    return handler_types(a)[0].split(".")[-1]
            # local assigned from a constructor / factory
            if fn is not None:
                for n in walk_body(fn):
                    if isinstance(n, ast.Assign) and len(n.targets) == 1 and isinstance(n.targets[0], ast.Name) \
                            and n.targets[0].id == e.id:
                        return self.expr_class(n.value, fn)
                # parameter annotation
                if isinstance(fn, FuncDef):
                    for a in fn.args.posonlyargs + fn.args.args + fn.args.kwonlyargs:
                        if a.arg == e.id and a.annotation is not None:
                            names = [n for n in unparse(a.annotation).replace("|", " ").split() if n[:1].isupper()]
                            if names:
                                return "Exception" if names[0] in ("Any", "BaseException") else names[0]
        return "Exception"

    # -- handler subtraction --------------------------------------------------------------
    def escapes(self, node: ast.AST, cls: str, fn: ast.AST) -> bool:
        """Does an exception of class cls raised at `node` leave fn (not definitely caught)?"""
        child = node
        for a in ancestors(node):
            if a is fn:
                return True
            if isinstance(a, (*FuncDef, ast.Lambda)):
                return True
            if isinstance(a, ast.Try) and child in a.body:
                for h in a.handlers:
                    if self.hier.catches(handler_types(h), cls) == "yes":
                        return False
            if isinstance(a, (ast.With, ast.AsyncWith)):
                for item in a.items:
                    ce = item.context_expr
                    if isinstance(ce, ast.Call) and call_name(ce).endswith("suppress"):
                        if self.hier.catches(tuple(unparse(x) for x in ce.args), cls) == "yes":
                            return False
                    if isinstance(ce, ast.Name) and ce.id == "suppress_exceptions":
                        if "Exception" in self.hier.supers(cls):
                            return False
            child = a
        return True

    # -- summaries ---------------------------------------------------------------------------
    def summary(self, fn: ast.AST, depth: int | None = None) -> dict[str, str]:
        """class -> one witness chain text (see sites() for every raise site)."""
        out: dict[str, str] = {}
        for (cls, _site), chain in self.sites(fn, depth).items():
            out.setdefault(cls, chain)
        return out

    def sites(self, fn: ast.AST, depth: int | None = None) -> dict[tuple[str, str], str]:
        """(class, raise site 'file:line') -> witness chain, for every explicit raise that can leave fn."""
        depth = self.depth if depth is None else depth
        if fn in self._memo:
            return self._memo[fn]
        if fn in self._active or depth < 0:
            return {}
        self._active.add(fn)
        out: dict[tuple[str, str], str] = {}
        name = getattr(fn, "name", "<lambda>")
        for n in walk_body(fn):
            if isinstance(n, ast.Raise):
                cls = self.raise_class(n, fn)
                if self.escapes(n, cls, fn):
                    site = f"{module_of(n).rel}:{n.lineno}"
                    out.setdefault((cls, site), f"{name}:{n.lineno} raise {unparse(n.exc)[:40] if n.exc else ''}")
        for call, target, awaited in self.call_sites(fn):
            if isinstance(target, ast.AsyncFunctionDef) and not awaited:
                continue
            sub = self.sites(target, depth - 1)
            for (cls, site), chain in sub.items():
                if self.escapes(call, cls, fn):
                    out.setdefault((cls, site), f"{name}:{call.lineno} -> {chain}")
        self._active.discard(fn)
        self._memo[fn] = out
        return out

    def call_sites(self, fn: ast.AST) -> list[tuple[ast.Call, ast.AST, bool]]:
        out = []
        nested = {s.name: s for s in walk_body(fn) if isinstance(s, FuncDef)}
        own_body_calls = {id(c) for c in walk_body(fn) if isinstance(c, ast.Call)}
        for call, target in self.cg.callees(fn):
            if id(call) not in own_body_calls:
                continue  # calls inside nested functions belong to them
            awaited = isinstance(parent(call), ast.Await)
            out.append((call, target, awaited))
        for c in walk_body(fn):
            if isinstance(c, ast.Call):
                awaited = isinstance(parent(c), ast.Await)
                # nested function called directly
                if isinstance(c.func, ast.Name) and c.func.id in nested:
                    out.append((c, nested[c.func.id], awaited))
                # bound method passed as a callback: self.m handed to a helper that calls it
                cn = class_of(fn) if isinstance(fn, FuncDef) else None
                ci = self.classes.by_node.get(cn) if cn is not None else None
                if ci is not None:
                    for a in list(c.args) + [k.value for k in c.keywords]:
                        if isinstance(a, ast.Attribute) and isinstance(a.value, ast.Name) and a.value.id == "self":
                            m = self.classes.find_method(ci, a.attr)
                            if m is not None:
                                out.append((c, m[1], awaited))
                # nested function passed as a callback
                for a in list(c.args) + [k.value for k in c.keywords]:
                    if isinstance(a, ast.Name) and a.id in nested and not (isinstance(c.func, ast.Name) and c.func.id in nested):
                        out.append((c, nested[a.id], awaited))
        return out
