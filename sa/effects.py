"""Write-effect and freshness analysis (DESIGN.md §3.3).

`write_sites(func)` enumerates every construct of a function that mutates an
object: attribute / subscript stores and deletes, augmented stores, setattr /
object.__setattr__, and calls of mutating container methods (directly or through
a bound-method alias).  `Origins(func)` answers, for a name at a program point,
which definitions may reach it (reaching definitions on the CFG) and classifies
each definition's value as fresh / parameter / attribute-of / call / global.
"""

from __future__ import annotations

import ast
from dataclasses import dataclass

from .cfg import CFG, Node
from .guards import MUTATORS, aliases_of, effects as node_effects
from .loader import FuncDef, Scope, call_name, last_attr, parent, unparse, walk_body

FRESH_CALLS = {
    "list", "dict", "set", "tuple", "frozenset", "sorted", "reversed", "copy", "deepcopy",
    "defaultdict", "OrderedDict", "deque", "Counter", "bytearray", "str", "int", "float",
    "zip", "map", "filter", "enumerate", "range", "chain",
}  # fmt: skip


@dataclass
class WriteSite:
    node: ast.AST  # the statement / call
    kind: str  # 'attr-store' | 'item-store' | 'del' | 'setattr' | 'mutator'
    target: ast.AST  # the object expression being mutated
    detail: str  # attribute / method name

    @property
    def root(self) -> str | None:
        t = self.target
        while isinstance(t, (ast.Attribute, ast.Subscript)):
            t = t.value
        if isinstance(t, ast.Call):
            return None
        return t.id if isinstance(t, ast.Name) else None

    @property
    def chain(self) -> str:
        return unparse(self.target)


def write_sites(func: ast.AST, include_nested: bool = True) -> list[WriteSite]:
    out: list[WriteSite] = []
    aliases = aliases_of(func)
    alias_nodes: dict[str, ast.AST] = {}
    for a in ast.walk(func):
        if isinstance(a, ast.Assign) and len(a.targets) == 1 and isinstance(a.targets[0], ast.Name) \
                and isinstance(a.value, ast.Attribute) and isinstance(a.value.value, (ast.Name, ast.Attribute)):
            alias_nodes[a.targets[0].id] = a.value.value
    nodes = ast.walk(func) if include_nested else walk_body(func)

    def store_target(t: ast.AST, stmt: ast.AST, deleting: bool = False) -> None:
        if isinstance(t, ast.Attribute):
            out.append(WriteSite(stmt, "del" if deleting else "attr-store", t.value, t.attr))
        elif isinstance(t, ast.Subscript):
            out.append(WriteSite(stmt, "del" if deleting else "item-store", t.value, "[]"))
        elif isinstance(t, (ast.Tuple, ast.List)):
            for e in t.elts:
                store_target(e, stmt, deleting)
        elif isinstance(t, ast.Starred):
            store_target(t.value, stmt, deleting)

    for n in nodes:
        if isinstance(n, ast.Assign):
            for t in n.targets:
                store_target(t, n)
        elif isinstance(n, ast.AugAssign):
            store_target(n.target, n)
            if isinstance(n.target, ast.Name) and isinstance(n.op, ast.Add):
                # `x += [..]` mutates a list in place
                out.append(WriteSite(n, "mutator", n.target, "+="))
        elif isinstance(n, ast.AnnAssign) and n.value is not None:
            store_target(n.target, n)
        elif isinstance(n, ast.Delete):
            for t in n.targets:
                store_target(t, n, deleting=True)
        elif isinstance(n, (ast.For, ast.AsyncFor)):
            store_target(n.target, n)
        elif isinstance(n, ast.Call):
            cn = call_name(n)
            if cn in ("setattr", "object.__setattr__", "delattr", "object.__delattr__") and n.args:
                attr = n.args[1].value if len(n.args) > 1 and isinstance(n.args[1], ast.Constant) else "?"
                out.append(WriteSite(n, "setattr", n.args[0], str(attr)))
            elif isinstance(n.func, ast.Attribute) and n.func.attr in MUTATORS:
                out.append(WriteSite(n, "mutator", n.func.value, n.func.attr))
            elif isinstance(n.func, ast.Name) and n.func.id in aliases and aliases[n.func.id][1] in MUTATORS:
                recv = alias_nodes.get(n.func.id)
                if recv is not None:
                    out.append(WriteSite(n, "mutator", recv, aliases[n.func.id][1]))
    return out


# -- reaching definitions -------------------------------------------------------


@dataclass(frozen=True)
class Def:
    name: str
    kind: str  # 'param' | 'assign' | 'for' | 'with' | 'except' | 'walrus' | 'import' | 'def' | 'aug'
    value: ast.AST | None  # value expression (assign), iterable (for), None otherwise
    node: ast.AST | None


class Origins:
    """Reaching definitions of local names on the CFG of one function."""

    def __init__(self, func: ast.AST, cfg: CFG | None = None) -> None:
        self.func = func
        self.cfg = cfg or CFG(func)
        self.params: dict[str, ast.arg] = {}
        if isinstance(func, (*FuncDef, ast.Lambda)):
            a = func.args
            for arg in [*a.posonlyargs, *a.args, *a.kwonlyargs, *( [a.vararg] if a.vararg else []), *([a.kwarg] if a.kwarg else [])]:
                self.params[arg.arg] = arg
        self._gen: dict[Node, list[Def]] = {}
        self.IN: dict[Node, frozenset[Def]] = {}
        self._solve()

    def _defs_of(self, n: Node) -> list[Def]:
        if n in self._gen:
            return self._gen[n]
        out: list[Def] = []
        a = n.ast
        if a is None or n.kind in ("join", "finally"):
            self._gen[n] = out
            return out

        def bind(t: ast.AST, kind: str, value: ast.AST | None) -> None:
            if isinstance(t, ast.Name):
                out.append(Def(t.id, kind, value, a))
            elif isinstance(t, (ast.Tuple, ast.List)):
                for i, e in enumerate(t.elts):
                    v = None
                    if isinstance(value, (ast.Tuple, ast.List)) and len(value.elts) == len(t.elts):
                        v = value.elts[i]
                    bind(e, kind if v is not None else "unpack", v if v is not None else value)
            elif isinstance(t, ast.Starred):
                bind(t.value, "unpack", value)

        if isinstance(a, (ast.For, ast.AsyncFor)):
            bind(a.target, "for", a.iter)
        elif isinstance(a, (ast.With, ast.AsyncWith)):
            for item in a.items:
                if item.optional_vars is not None:
                    bind(item.optional_vars, "with", item.context_expr)
        elif isinstance(a, ast.ExceptHandler):
            if a.name:
                out.append(Def(a.name, "except", a.type, a))
        elif isinstance(a, (ast.FunctionDef, ast.AsyncFunctionDef, ast.ClassDef)):
            out.append(Def(a.name, "def", a, a))
        elif isinstance(a, ast.match_case):
            for p in ast.walk(a.pattern):
                nm = getattr(p, "name", None)
                if isinstance(p, (ast.MatchAs, ast.MatchStar)) and nm:
                    out.append(Def(nm, "match", None, a))
        else:
            stack = [a]
            while stack:
                x = stack.pop()
                if isinstance(x, Scope):
                    continue
                if isinstance(x, ast.Assign):
                    for t in x.targets:
                        bind(t, "assign", x.value)
                elif isinstance(x, ast.AnnAssign) and x.value is not None:
                    bind(x.target, "assign", x.value)
                elif isinstance(x, ast.AugAssign):
                    bind(x.target, "aug", x.value)
                elif isinstance(x, ast.NamedExpr):
                    bind(x.target, "walrus", x.value)
                elif isinstance(x, (ast.Import, ast.ImportFrom)):
                    for al in x.names:
                        out.append(Def((al.asname or al.name).split(".")[0], "import", None, a))
                stack.extend(ast.iter_child_nodes(x))
        self._gen[n] = out
        return out

    def _solve(self) -> None:
        cfg = self.cfg
        entry_defs = frozenset(Def(p, "param", None, arg) for p, arg in self.params.items())
        IN: dict[Node, frozenset[Def]] = {n: frozenset() for n in cfg.nodes}
        IN[cfg.entry] = entry_defs
        work = [cfg.entry]
        seen_out: dict[Node, frozenset[Def]] = {}
        while work:
            n = work.pop()
            gen = self._defs_of(n)
            cur = IN[n]
            if gen:
                names = {d.name for d in gen if d.kind != "aug"}
                out = frozenset(d for d in cur if d.name not in names) | frozenset(gen)
            else:
                out = cur
            if seen_out.get(n) == out:
                continue
            seen_out[n] = out
            for m, _label in cfg.succ.get(n, []):
                new = IN[m] | out
                if new != IN[m]:
                    IN[m] = new
                    work.append(m)
                elif m not in seen_out:
                    work.append(m)
        self.IN = IN

    def reaching(self, name: str, at: ast.AST) -> list[Def]:
        """Definitions of `name` that may reach the evaluation of `at`."""
        nodes = self.cfg.node_for_expr(at)
        if not nodes:
            return []
        out: set[Def] = set()
        for n in nodes:
            out |= {d for d in self.IN[n] if d.name == name}
        return sorted(out, key=lambda d: getattr(d.node, "lineno", 0))


def is_fresh_expr(e: ast.AST | None) -> bool:
    """Expression that creates a new object owned by the current function."""
    if e is None:
        return False
    if isinstance(e, (ast.List, ast.Dict, ast.Set, ast.Tuple, ast.ListComp, ast.DictComp,
                      ast.SetComp, ast.GeneratorExp, ast.Constant, ast.JoinedStr, ast.BinOp)):
        return True
    if isinstance(e, ast.Call):
        name = last_attr(e)
        if name in FRESH_CALLS:
            return True
        if name[:1].isupper():  # constructor call
            return True
        if isinstance(e.func, ast.Attribute) and e.func.attr in ("copy", "split", "items", "keys", "values"):
            return e.func.attr in ("copy", "split")
    if isinstance(e, ast.IfExp):
        return is_fresh_expr(e.body) and is_fresh_expr(e.orelse)
    if isinstance(e, ast.Subscript) and isinstance(e.slice, ast.Slice):
        return True  # slicing copies
    return False
