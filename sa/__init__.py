"""Static-analysis engines for graphql-core (see /verif/DESIGN.md §2)."""
