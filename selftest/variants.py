"""Single-edit variants of the real sources; each must be caught by the named check/rule."""

L = "src/graphql/language/"
VARIANTS = []


def v(id, prop, rule, file, old, new, extra_edits=(), **kw):
    VARIANTS.append({"id": id, "property": prop, "rule": rule,
                     "edits": [{"file": file, "old": old, "new": new}, *extra_edits], **kw})


# -- C01 LEX-BOUNDS ---------------------------------------------------------------------------
v("c01-unfix-escaped-char", "C01", "LEX-BOUNDS", L + "lexer.py",
  "_ESCAPED_CHARS.get(body[position + 1 : position + 2])", "_ESCAPED_CHARS.get(body[position + 1])")
v("c01-unfix-hex", "C01", "LEX-BOUNDS", L + "lexer.py",
  "read_hex_digit(body[position + 3 : position + 4])", "read_hex_digit(body[position + 3])")
v("c01-loop-guard-off-by-one", "C01", "LEX-BOUNDS", L + "lexer.py",
  "        while position < body_length:\n            char = body[position]\n            if char in \"\\r\\n\":\n                break\n            if is_unicode_scalar_value(char):",
  "        while position <= body_length:\n            char = body[position]\n            if char in \"\\r\\n\":\n                break\n            if is_unicode_scalar_value(char):")
v("c01-print-code-point-guard-dropped", "C01", "LEX-BOUNDS", L + "lexer.py",
  "        if location >= len(body):\n            return TokenKind.EOF.value\n", "")
v("c01-variable-width-min-dropped", "C01", "LEX-BOUNDS", L + "lexer.py",
  "max_size = min(12, len(body) - position)", "max_size = 12")
v("c01-supplementary-try-narrowed", "C01", "LEX-BOUNDS", L + "lexer.py",
  "    except IndexError:", "    except KeyError:")
v("c01-block-string-line0", "C01", "LEX-BOUNDS", L + "block_string.py",
  "not line or line[0] in \" \\t\" for line in lines[1:]", "line[0] in \" \\t\" for line in lines[1:]")

# -- C08 ----------------------------------------------------------------------------------------
v("c08-unfix-splitlines", "C08", "LT-AGREE", L + "block_string.py",
  "lines = _re_newline.split(escaped_value)", "lines = escaped_value.splitlines() or [\"\"]")
v("c08-regex-superset", "C08", "LT-AGREE", L + "block_string.py",
  '_re_newline = re.compile(r"\\r\\n|[\\n\\r]")', '_re_newline = re.compile(r"\\r\\n|[\\n\\r\\x0c]")')
v("c08-regex-order", "C08", "LT-AGREE", L + "block_string.py",
  '_re_newline = re.compile(r"\\r\\n|[\\n\\r]")', '_re_newline = re.compile(r"[\\n\\r]|\\r\\n")')
v("c08-escape-table-wrong", "C08", "ESCAPE-TABLES", L + "print_string.py", '0x0C: "\\\\f",', '0x0C: "\\\\b",')
v("c08-escape-table-missing-del", "C08", "ESCAPE-TABLES", L + "print_string.py", '    0x0D: "\\\\r",\n', '')
v("c08-lexer-escape-reader", "C08", "ESCAPE-TABLES", L + "lexer.py", '    "f": "\\f",\n', '    "f": "\\v",\n')
v("c08-block-escape-writer", "C08", "BLOCK-ESCAPE", L + "block_string.py",
  "value.replace('\"\"\"', '\\\\\"\"\"')", "value.replace('\"\"\"', '\\\\\\\\\"\"\"')")
v("c08-block-join-crlf", "C08", "BLOCK-ESCAPE", L + "lexer.py",
  '"\\n".join(dedent_block_string_lines(block_lines))', '"\\r\\n".join(dedent_block_string_lines(block_lines))')
v("c08-printer-drops-directives", "C08", "PRINTER-COVERAGE", L + "printer.py",
  '        return join(("extend scalar", node.name, join(node.directives, " ")), " ")',
  '        return join(("extend scalar", node.name), " ")')
v("c08-printer-method-removed", "C08", "PRINTER-COVERAGE", L + "printer.py",
  "    def leave_directive_coordinate(node", "    def leave_directive_coord(node")
v("c08-printer-drops-description", "C08", "PRINTER-COVERAGE", L + "printer.py",
  '        return wrap("", node.description, "\\n") + join(\n            (node.name, join(node.directives, " ")), " "\n        )',
  '        return join(\n            (node.name, join(node.directives, " ")), " "\n        )')

# -- C09 ----------------------------------------------------------------------------------------
v("c09-ignored-chars", "C09", "LEX-TABLES", L + "lexer.py", 'if char in " \\t,\\ufeff":', 'if char in " \\t,\\ufeff\\x0c":')
v("c09-punct-table", "C09", "LEX-TABLES", L + "lexer.py", '    "&": TokenKind.AMP,\n', '    "&": TokenKind.PIPE,\n')
v("c09-is-digit-non-ascii", "C09", "LEX-TABLES", L + "character_classes.py",
  "return char.isascii() and char.isdigit()", "return char.isdigit()")
v("c09-name-continue", "C09", "LEX-TABLES", L + "character_classes.py",
  'return char.isascii() and (char.isalnum() or char == "_")', 'return char.isascii() and (char.isalpha() or char == "_")')
v("c09-token-limit-geq", "C09", "TOKEN-COUNT", L + "parser.py",
  "self._token_counter > max_tokens", "self._token_counter >= max_tokens")
v("c09-token-count-eof", "C09", "TOKEN-COUNT", L + "parser.py",
  "if token.kind is not TokenKind.EOF:\n            self._token_counter += 1", "if token.kind is not TokenKind.COMMENT:\n            self._token_counter += 1")
v("c09-comment-skip", "C09", "COMMENT-SKIP", L + "lexer.py",
  "if token.kind != TokenKind.COMMENT:\n                    break", "if token.kind != TokenKind.BLOCK_STRING:\n                    break")
v("c09-number-follow", "C09", "NUMBER-LOOKAHEAD", L + "lexer.py",
  'if char and (char == "." or is_name_start(char)):', 'if char and is_name_start(char):')
v("c09-string-break-on-cr", "C09", "LEXER-LT", L + "lexer.py",
  '            if char in "\\r\\n":\n                break\n\n            if is_unicode_scalar_value(char):\n                position += 1\n            elif is_supplementary_code_point(body, position):\n                position += 2\n            else:\n                raise GraphQLSyntaxError(\n                    self.source,\n                    position,\n                    "Invalid character within String:"',
  '            if char == "\\n":\n                break\n\n            if is_unicode_scalar_value(char):\n                position += 1\n            elif is_supplementary_code_point(body, position):\n                position += 2\n            else:\n                raise GraphQLSyntaxError(\n                    self.source,\n                    position,\n                    "Invalid character within String:"')

# -- C10 ----------------------------------------------------------------------------------------
v("c10-unfix-splitlines", "C10", "LT-AGREE", L + "source.py",
  "        lines = _re_newline.split(self.body[:position])\n        return SourceLocation(len(lines), len(lines[-1]) + 1)",
  "        lines = self.body[:position].splitlines()\n        if lines:\n            return SourceLocation(len(lines), len(lines[-1]) + 1)\n        return SourceLocation(1, 1)")
v("c10-count-lf-only", "C10", "LT-AGREE", L + "source.py",
  "        lines = _re_newline.split(self.body[:position])", "        lines = self.body[:position].split(\"\\n\")")
v("c10-print-location-regex", "C10", "LT-AGREE", L + "print_location.py",
  '_re_newline = re.compile(r"\\r\\n|[\\n\\r]")', '_re_newline = re.compile(r"\\r\\n|[\\n\\r\\u2028]")')
v("c10-lexer-line-not-counted", "C10", "LEXER-ACCOUNTING", L + "lexer.py",
  '                else:\n                    position += 1\n                self.line += 1\n                self.line_start = position\n                continue',
  '                else:\n                    position += 1\n                self.line_start = position\n                continue')
v("c10-lexer-line-start-before-advance", "C10", "LEXER-ACCOUNTING", L + "lexer.py",
  '            if char == "\\n":\n                position += 1\n                self.line += 1\n                self.line_start = position\n                continue',
  '            if char == "\\n":\n                self.line_start = position\n                position += 1\n                self.line += 1\n                continue')
v("c10-lexer-crlf-two-lines", "C10", "LEXER-ACCOUNTING", L + "lexer.py",
  '                if body[position + 1 : position + 2] == "\\n":\n                    position += 2\n                else:\n                    position += 1\n                self.line += 1',
  '                position += 1\n                self.line += 1')
v("c10-block-fold-dropped", "C10", "LEXER-ACCOUNTING", L + "lexer.py",
  "                self.line += len(block_lines) - 1\n", "")
v("c10-second-location-site", "C10", "LOC-SINGLE-SOURCE", L + "location.py",
  "    return source.get_location(position)",
  "    head = source.body[:position]\n    return SourceLocation(head.count(chr(10)) + 1, position - head.rfind(chr(10)))")
v("c10-render-guard-dropped", "C10", "RENDER-TOTAL", L + "print_location.py",
  "lines[line_index + 1] if line_index < len(lines) - 1 else None", "lines[line_index + 1] if line_index < len(lines) else None")
v("c10-render-sub-lines", "C10", "RENDER-TOTAL", L + "print_location.py",
  "                if sub_line_index < len(sub_lines) - 1\n", "                if sub_line_index < len(sub_lines)\n")

# -- C11 ----------------------------------------------------------------------------------------
v("c11-unfix-pop", "C11", "POP-GUARD", L + "visitor.py",
  "                        else:\n                            if path:\n                                path_pop()", "                        else:\n                            path_pop()")
v("c11-keys-missing-field", "C11", "KEYS-COMPLETE", L + "ast.py",
  '    "directive_extension": ("name", "directives"),', '    "directive_extension": ("name",),')
v("c11-keys-entry-removed", "C11", "KEYS-COMPLETE", L + "ast.py", '    "variable": ("name",),\n', '')
v("c11-new-field-not-traversed", "C11", "KEYS-COMPLETE", L + "ast.py",
  "class FragmentSpreadNode(SelectionNode):\n    name: NameNode\n", "class FragmentSpreadNode(SelectionNode):\n    name: NameNode\n    extra: NameNode | None = None\n")
v("c11-sentinel-twin-dropped", "C11", "SENTINEL-TWINS", L + "visitor.py",
  "if result is BREAK or result is True:\n                    break", "if result is BREAK:\n                    break")
v("c11-leaving-pop-guard", "C11", "POP-GUARD", L + "visitor.py",
  "        if is_leaving:\n            if path:\n                path_pop()", "        if is_leaving:\n            path_pop()")

# -- C12 / C13 ----------------------------------------------------------------------------------
V = "src/graphql/validation/"
v("c12-unfix-cache-alias", "C12", "CACHE-ALIAS", V + "validation_context.py",
  "usages = list(get_variable_usages(operation))", "usages = get_variable_usages(operation)")
v("c12-spreads-cache-mutated", "C12", "CACHE-ALIAS", V + "validation_context.py",
  "                for spread in get_fragment_spreads(visited_node):",
  "                spreads_ = get_fragment_spreads(visited_node)\n                spreads_.sort(key=id)\n                for spread in spreads_:")
v("c12-typeinfo-leave-missing-pop", "C12", "TYPEINFO-BALANCE", "src/graphql/utilities/type_info.py",
  "    def leave_argument(self) -> None:\n        self._argument = None\n        del self._default_value_stack[-1:]\n",
  "    def leave_argument(self) -> None:\n        self._argument = None\n")
v("c12-typeinfo-conditional-push", "C12", "TYPEINFO-BALANCE", "src/graphql/utilities/type_info.py",
  "        self._field_def_stack.append(field_def)\n        self._type_stack.append(",
  "        if field_def:\n            self._field_def_stack.append(field_def)\n        self._type_stack.append(")
v("c12-typeinfo-slot-not-reset", "C12", "TYPEINFO-BALANCE", "src/graphql/utilities/type_info.py",
  "    def leave_enum_value(self) -> None:\n        self._enum_value = None", "    def leave_enum_value(self) -> None:\n        pass")
v("c12-typeinfovisitor-leave-order", "C12", "TYPEINFO-BALANCE", "src/graphql/utilities/type_info.py",
  "        result = fn(node, *args) if fn else None\n        self.type_info.leave(node)\n        return result",
  "        self.type_info.leave(node)\n        result = fn(node, *args) if fn else None\n        return result")
v("c12-limit-off-by-one", "C12", "LIMIT", V + "validate.py",
  "        if len(errors) >= max_errors:\n            raise validation_aborted_error\n        errors.append(error)",
  "        errors.append(error)\n        if len(errors) >= max_errors:\n            raise validation_aborted_error")
v("c12-descriptions-traversed", "C12", "LIMIT", V + "validate.py",
  'kind: tuple(key for key in keys if key != "description")', 'kind: tuple(key for key in keys if key != "descriptions")')
v("c12-rule-mutates-node", "C12", "NO-WRITE", V + "rules/unique_operation_names.py",
  "        operation_name = node.name\n", "        operation_name = node.name\n        object.__setattr__(node, 'directives', ())\n")
v("c12-rule-writes-context", "C12", "NO-WRITE", V + "rules/known_fragment_names.py",
  "        fragment_name = node.name.value\n", "        fragment_name = node.name.value\n        self.context._fragments = None\n")
v("c12-rule-module-state", "C12", "NO-WRITE", V + "rules/unique_fragment_names.py",
  "        self.known_fragment_names: dict[str, NameNode] = {}", "        self.known_fragment_names = _KNOWN", )
VARIANTS[-1]["edits"].append({"file": V + "rules/unique_fragment_names.py", "old": "class UniqueFragmentNamesRule", "new": "_KNOWN: dict = {}\n\n\nclass UniqueFragmentNamesRule"})
v("c12-rule-reads-loc", "C12", "NO-READ", V + "rules/unique_operation_names.py",
  "                        f\" named '{operation_name.value}'.\",",
  "                        f\" named '{operation_name.value}' (at {node.loc.start}).\",")
v("c12-rule-class-level-state", "C12", "NO-WRITE", V + "rules/unique_operation_names.py",
  "    def __init__(self, context: ASTValidationContext) -> None:\n        super().__init__(context)\n        self.known_operation_names: dict[str, NameNode] = {}",
  "    known_operation_names: dict[str, NameNode] = {}\n\n    def __init__(self, context: ASTValidationContext) -> None:\n        super().__init__(context)")
v("c13-rule-unregistered", "C13", "REGISTRY", V + "specified_rules.py",
  "    ScalarLeafsRule,\n    FieldsOnCorrectTypeRule,", "    FieldsOnCorrectTypeRule,")
v("c13-error-dropped", "C13", "ERROR-DISCIPLINE", V + "rules/known_fragment_names.py",
  "            self.report_error(\n                GraphQLError(f\"Unknown fragment '{fragment_name}'.\", node.name)\n            )",
  "            error = GraphQLError(f\"Unknown fragment '{fragment_name}'.\", node.name)")

# -- C15 / C16 ----------------------------------------------------------------------------------
T = "src/graphql/type/"
U = "src/graphql/utilities/"
v("c15-unfix-float-literal", "C15", "DOMAIN-GUARDS", T + "scalars.py",
  "    num = float(value_node.value)\n    if not isfinite(num):\n        raise GraphQLError(\n            \"Float cannot represent non numeric value: \" + print_ast(value_node),\n            value_node,\n        )\n    return num",
  "    return float(value_node.value)")
v("c15-int-literal-range-dropped", "C15", "DOMAIN-GUARDS", T + "scalars.py",
  "    num = int(value_node.value)\n    if not GRAPHQL_MIN_INT <= num <= GRAPHQL_MAX_INT:",
  "    num = int(value_node.value)\n    if not GRAPHQL_MIN_INT <= num:")
v("c15-max-int-wrong", "C15", "DOMAIN-GUARDS", T + "scalars.py", "GRAPHQL_MAX_INT = 2_147_483_647", "GRAPHQL_MAX_INT = 2_147_483_648")
v("c15-coerce-int-accepts-bool", "C15", "BOOL-EXCLUSION", T + "scalars.py",
  "    if isinstance(input_value, (int, float)) and not isinstance(input_value, bool):\n        return coerce_int_from_number(input_value)\n    msg = \"Int cannot represent non-integer value: \" + inspect(input_value)",
  "    if isinstance(input_value, (int, float)):\n        return coerce_int_from_number(input_value)\n    msg = \"Int cannot represent non-integer value: \" + inspect(input_value)")
v("c15-unfix-regex-anchor", "C15", "REGEX-ANCHOR", U + "value_to_literal.py",
  '_re_integer_string = re.compile(r"^-?(?:0|[1-9][0-9]*)\\Z")', '_re_integer_string = re.compile("^-?(?:0|[1-9][0-9]*)$")')
v("c15-coercer-drops-oneof-null", "C15", "SIBLING-ATOMS", U + "coerce_input_value.py",
  "            if coerced_dict[keys[0]] is None:\n                # Invalid: value not non-null, intentionally return no value.\n                return Undefined\n", "")
v("c15-validator-drops-unknown-field", "C15", "SIBLING-ATOMS", U + "validate_input_value.py",
  "            if field_name not in field_defs:\n                suggestion = (\n                    \"\"\n                    if hide_suggestions or not isinstance(field_name, str)\n",
  "            if False:\n                suggestion = (\n                    \"\"\n                    if hide_suggestions or not isinstance(field_name, str)\n")
v("c15-literal-coercer-leaf-unwrapped", "C15", "SIBLING-ATOMS", U + "coerce_input_value.py",
  "    except Exception:  # noqa: BLE001\n        # Invalid: ignore error and intentionally return no value.\n        return Undefined\n\n\ndef coerce_default_value(",
  "    except GraphQLError:  # noqa: BLE001\n        # Invalid: ignore error and intentionally return no value.\n        return Undefined\n\n\ndef coerce_default_value(")
v("c15-literal-coercer-required-dropped", "C15", "SIBLING-ATOMS", U + "coerce_input_value.py",
  "            ):\n                if is_required_input_field(field):\n                    return Undefined  # Invalid: intentionally return no value.\n",
  "            ):\n")
v("c16-serialize-int-range-dropped", "C16", "DOMAIN-GUARDS", T + "scalars.py",
  "    if not GRAPHQL_MIN_INT <= value <= GRAPHQL_MAX_INT:\n        msg = \"Int cannot represent non 32-bit signed integer value: \" + inspect(value)\n        raise GraphQLError(msg)\n    return int(value)",
  "    return int(value)")
v("c16-float-from-string-nonfinite", "C16", "DOMAIN-GUARDS", T + "scalars.py",
  "    if not isfinite(num):\n        msg = \"Float cannot represent non numeric value: \" + inspect(value)\n        raise GraphQLError(msg)\n    return num", "    return num")
v("c16-float-from-number-nonfinite", "C16", "DOMAIN-GUARDS", T + "scalars.py",
  "    if not isfinite(value):\n        msg = \"Float cannot represent non numeric value: \" + inspect(value)\n        raise GraphQLError(msg)\n    return float(value)", "    return float(value)")
v("c16-serialize-id-any", "C16", "TYPED-RETURNS", T + "scalars.py",
  "    if isinstance(output_value, (int, float)) and not isinstance(output_value, bool):\n        return coerce_id_from_number(output_value)\n    # do not serialize builtin types as IDs",
  "    if isinstance(output_value, (int, float)) and not isinstance(output_value, bool):\n        return coerce_id_from_number(output_value)\n    if isinstance(output_value, bytes):\n        return output_value  # type: ignore\n    # do not serialize builtin types as IDs")
v("c16-serialize-boolean-returns-int", "C16", "TYPED-RETURNS", T + "scalars.py",
  "    if isinstance(output_value, int):\n        return output_value != 0\n    raise GraphQLError(\n        \"Boolean cannot represent",
  "    if isinstance(output_value, int):\n        return output_value  # type: ignore\n    raise GraphQLError(\n        \"Boolean cannot represent")
v("c16-enum-scan-returns-value", "C16", "ENUM-DOMAIN", T + "definition.py",
  "                if enum_value.value == output_value:\n                    return enum_name", "                if enum_value.value == output_value:\n                    return enum_value.value")
v("c16-leaf-none-accepted", "C16", "NULL-REJECT", "src/graphql/execution/executor.py",
  "        if coerced is Undefined or coerced is None:", "        if coerced is Undefined:")
v("c16-serialize-int-bool-order", "C16", "BOOL-EXCLUSION", T + "scalars.py",
  "def serialize_int(output_value: Any) -> int:\n    if isinstance(output_value, bool):\n        return 1 if output_value else 0\n    if isinstance(output_value, (int, float)):",
  "def serialize_int(output_value: Any) -> int:\n    if isinstance(output_value, (int, float)):")

# -- C20 ----------------------------------------------------------------------------------------
v("c20-unfix-default-on-non-input", "C20", "KIND-CONTRADICTION", T + "validate.py",
  "        if not default_input or not is_input_type(input_value.type):\n            return", "        if not default_input:\n            return")
v("c20-uncoerce-outside-try", "C20", "VALIDATE-RAISES", T + "validate.py",
  "            try:\n                uncoerced_value = uncoerce_default_value(\n                    default_input.value, input_value.type\n                )\n",
  "            uncoerced_value = uncoerce_default_value(\n                default_input.value, input_value.type\n            )\n            try:\n")
v("c20-schema-errors-after-parse", "C20", "SCHEMA-ERRORS-FIRST", "src/graphql/graphql.py",
  "    if schema_validation_errors := validate_schema(schema):\n        return ExecutionResult(data=None, errors=schema_validation_errors)\n",
  "    if assume_valid_schema := False:\n        return ExecutionResult(data=None, errors=[])\n")
v("c20-validate-types-no-enum", "C20", "DISPATCH-EXH", T + "validate.py",
  "            elif is_enum_type(type_):\n                # Ensure Enums have valid values.\n                self.validate_enum_values(type_)\n", "")

# -- late additions -------------------------------------------------------------------------------
v("c20-unfix-root-ast-node", "C20", "KIND-ATTR", T + "validate.py",
  'or getattr(root_type, "ast_node", None),', "or root_type.ast_node,")
v("c11-unfix-edit-sentinel", "C11", "EDIT-SENTINEL", L + "visitor.py",
  "                    values = {k: getattr(node, k) for k in node.keys}\n                    for edit_key, edit_value in edits:\n                        values[edit_key] = (\n                            None\n                            if edit_value is REMOVE or edit_value is Ellipsis\n                            else edit_value\n                        )\n",
  "                    values = {k: getattr(node, k) for k in node.keys} | dict(edits)\n")

# -- C03 / C06 ------------------------------------------------------------------------------------
E = "src/graphql/execution/"
v("c03-unfix-id-pin", "C03", "ID-PIN", E + "executor.py",
  "            relevant_sub_fields[key] = (tuple(field_details_list), collected_fields)", "            relevant_sub_fields[key] = (None, collected_fields)")
v("c03-serial-for-queries", "C03", "SERIAL", E + "executor.py",
  "                operation_type == OperationType.MUTATION\n                if serially is None", "                operation_type != OperationType.QUERY\n                if serially is None")
v("c03-equivalent-refactor-await-first", "C03", "SERIAL", "src/graphql/pyutils/async_reduce.py",
  "                result: AwaitableOrValue[U] = callback(\n                    await current_accumulator, current_value\n                )",
  "                acc = await current_accumulator\n                result: AwaitableOrValue[U] = callback(acc, current_value)", expect="silent")
v("c03-serial-not-awaited", "C03", "SERIAL", "src/graphql/pyutils/async_reduce.py",
  "                return await result if is_awaitable(result) else result  # type: ignore\n\n            accumulator = async_callback(cast(\"Awaitable[U]\", accumulator), value)",
  "                return await result if is_awaitable(result) else result  # type: ignore\n\n            accumulator = ensure_future(async_callback(cast(\"Awaitable[U]\", accumulator), value))")
v("c03-serial-set-result-no-await", "C03", "SERIAL", E + "executor.py",
  "                    results[response_name] = await result\n                    return results",
  "                    results[response_name] = result\n                    return results")
v("c03-key-created-late", "C03", "KEY-ORDER", E + "executor.py",
  "                results.update(zip(awaitable_fields, awaited_results, strict=True))",
  "                for field, value in zip(awaitable_fields, awaited_results, strict=True):\n                    results.pop(field)\n                    results[field] = value")
v("c06-unfix-hook-sync-abort", "C06", "HOOK-ONCE", E + "executor.py",
  "        except Exception:\n            # e.g. the abort reason raised while executing root fields serially\n            self.run_async_work_finished_hook()\n            raise\n", "")
v("c06-hook-twice", "C06", "HOOK-ONCE", E + "executor.py",
  "                    except GraphQLError as error:\n                        self.collected_errors.add(error, None)\n                        return self.build_response(None)",
  "                    except GraphQLError as error:\n                        self.collected_errors.add(error, None)\n                        self.run_async_work_finished_hook()\n                        return self.build_response(None)")
v("c06-unfix-abort-signal-task", "C06", "CANCEL-SETTLE", E + "executor.py",
  "                task.cancel()\n                with suppress(BaseException):\n                    await task\n                raise", "                task.cancel()\n                raise")
v("c06-subscribe-finally-order", "C06", "FIN-CLEANUP", E + "incremental/incremental_publisher.py",
  "            await work_queue.cancel()\n            await context.cancel_incremental_work()\n            context.run_async_work_finished_hook()",
  "            context.run_async_work_finished_hook()\n            await work_queue.cancel()\n            await context.cancel_incremental_work()")
v("c06-gather-fail-fast", "C06", "CLEANUP-GATHER", E + "incremental/stream_item_queue.py",
  "            await gather(*pending, return_exceptions=True)", "            await gather(*pending)")
v("c06-abort-result-dropped", "C06", "ABORT-RESULT-USED", E + "incremental/work_queue.py",
  "        abort_result = stream.queue.abort(reason)\n        if is_awaitable(abort_result):\n            cancel_awaitables.append(abort_result)", "        stream.queue.abort(reason)")

# -- C01 (second batch) -----------------------------------------------------------------------------
v("c01-unfix-visited-after-recursion", "C01", "VISITED-BEFORE-RECURSE", V + "rules/defer_stream_directive_on_root_field.py",
  "                    continue\n                visited_fragments.add(fragment_name)\n                fragment = fragments.get(fragment_name)",
  "                    continue\n                fragment = fragments.get(fragment_name)")
v("c01-unfix-validate-total", "C01", "VALIDATE-TOTAL", V + "rules/single_field_subscriptions.py",
  "            except GraphQLError:\n", "            except KeyError:\n")
v("c01-unfix-untrusted-positions", "C01", "UNTRUSTED-ATTR", "src/graphql/error/located_error.py",
  "    else:\n        if not is_collection_of(positions, int):\n            positions = None  # not a collection of offsets, ignore it\n", "")
v("c01-extensions-guard-dropped", "C01", "UNTRUSTED-ATTR", "src/graphql/error/graphql_error.py",
  "            if isinstance(original_extensions, dict):\n                extensions = original_extensions",
  "            if original_extensions:\n                extensions = original_extensions")
v("c01-resolver-outside-try", "C01", "EXEC-WRAP", E + "executor.py",
  "            # Note that contrary to the JavaScript implementation, we pass the context\n            # value as part of the resolve info.\n            result = resolve_fn(source, info, **args)\n",
  "            pass\n")
VARIANTS[-1]["edits"].append({"file": E + "executor.py", "old": "        # Get the resolve function, regardless of if its result is normal or abrupt\n        # (error).\n        try:\n",
                              "new": "        result = resolve_fn(source, info)\n        try:\n"})
v("c01-handler-narrowed", "C01", "EXEC-WRAP", E + "executor.py",
  "        except Exception as raw_error:\n            self.handle_field_error(\n                raw_error,\n                return_type,\n                field_details_list,\n                path,\n            )\n            return None\n\n        return completed",
  "        except GraphQLError as raw_error:\n            self.handle_field_error(\n                raw_error,\n                return_type,\n                field_details_list,\n                path,\n            )\n            return None\n\n        return completed")
v("c01-parse-error-not-converted", "C01", "CONVERT", "src/graphql/graphql.py",
  "    except GraphQLError as error:\n        return ExecutionResult(data=None, errors=[error])\n\n    if default_is_awaitable(document):",
  "    except GraphQLSyntaxError as error:\n        return ExecutionResult(data=None, errors=[error])\n\n    if default_is_awaitable(document):")
v("c01-parser-raises-value-error", "C01", "PARSE-RAISES", L + "parser.py",
  "        raise GraphQLSyntaxError(\n            self._lexer.source,\n            token.start,\n            f\"Expected {get_token_kind_desc(kind)}, found {get_token_desc(token)}.\",\n        )",
  "        raise ValueError(\n            f\"Expected {get_token_kind_desc(kind)}, found {get_token_desc(token)}.\",\n        )")
v("c01-parser-table-typo", "C01", "PARSE-RAISES", L + "parser.py", '        "fragment": "fragment_definition",', '        "fragment": "fragment_definitions",')

# -- behaviour-preserving refactorings: every check must stay silent (false-alarm probes) ---------------
def silent(id, prop, file, old, new, **kw):
    v(id, prop, None, file, old, new, expect="silent", **kw)


silent("ok-c01-loop-len-inline", "C01", L + "lexer.py",
       "        body = self.source.body\n        body_length = len(body)\n        position = start + 1\n\n        while position < body_length:\n            char = body[position]\n            if not is_name_continue(char):",
       "        body = self.source.body\n        position = start + 1\n\n        while position < len(body):\n            char = body[position]\n            if not is_name_continue(char):")
silent("ok-c11-pop-guard-len", "C11", L + "visitor.py",
       "        if is_leaving:\n            if path:\n                path_pop()", "        if is_leaving:\n            if len(path) > 0:\n                path_pop()")
silent("ok-c16-range-two-tests", "C16", T + "scalars.py",
       "    if not GRAPHQL_MIN_INT <= value <= GRAPHQL_MAX_INT:\n        msg = \"Int cannot represent non 32-bit signed integer value: \" + inspect(value)\n        raise GraphQLError(msg)\n    return int(value)",
       "    if value < GRAPHQL_MIN_INT or value > GRAPHQL_MAX_INT:\n        msg = \"Int cannot represent non 32-bit signed integer value: \" + inspect(value)\n        raise GraphQLError(msg)\n    return int(value)")
silent("ok-c15-bool-test-first", "C15", T + "scalars.py",
       "    if isinstance(input_value, (int, float)) and not isinstance(input_value, bool):\n        return coerce_int_from_number(input_value)\n    msg = \"Int cannot represent non-integer value: \" + inspect(input_value)",
       "    if not isinstance(input_value, bool) and isinstance(input_value, (int, float)):\n        return coerce_int_from_number(input_value)\n    msg = \"Int cannot represent non-integer value: \" + inspect(input_value)")
silent("ok-c07-yield-via-local", "C07", E + "async_iterables.py",
       "        async for item in items:\n            yield await callback(item)", "        async for item in items:\n            result = await callback(item)\n            yield result")
silent("ok-c03-update-as-loop", "C03", E + "executor.py",
       "                results.update(zip(awaitable_fields, awaited_results, strict=True))",
       "                for field, value in zip(awaitable_fields, awaited_results, strict=True):\n                    results[field] = value")
silent("ok-c03-pin-list-itself", "C03", E + "executor.py",
       "relevant_sub_fields[key] = (tuple(field_details_list), collected_fields)", "relevant_sub_fields[key] = (list(field_details_list), collected_fields)")
silent("ok-c20-guard-at-callers", "C20", T + "validate.py",
       "        if not default_input or not is_input_type(input_value.type):\n            return", "        if not default_input:\n            return",
       )
VARIANTS[-1]["edits"] += [
    {"file": T + "validate.py", "old": "                self.validate_default_value(arg, arg_str)\n\n    def validate_default_value(",
     "new": "                if is_input_type(arg.type):\n                    self.validate_default_value(arg, arg_str)\n\n    def validate_default_value("},
    {"file": T + "validate.py", "old": "                self.validate_default_value(arg, arg_str)\n\n    def validate_interfaces(",
     "new": "                if is_input_type(arg.type):\n                    self.validate_default_value(arg, arg_str)\n\n    def validate_interfaces("},
    {"file": T + "validate.py", "old": "            self.validate_default_value(field, field_str)\n",
     "new": "            if is_input_type(field.type):\n                self.validate_default_value(field, field_str)\n"},
]
silent("ok-c12-typeinfo-pop-call", "C12", "src/graphql/utilities/type_info.py",
       "    def leave_selection_set(self) -> None:\n        del self._parent_type_stack[-1:]", "    def leave_selection_set(self) -> None:\n        self._parent_type_stack.pop()")
silent("ok-c01-located-error-getattr", "C01", "src/graphql/error/located_error.py",
       "    try:\n        positions = original_error.positions  # type: ignore\n    except AttributeError:\n        positions = None\n    else:\n        if not is_collection_of(positions, int):\n            positions = None  # not a collection of offsets, ignore it\n",
       "    positions = getattr(original_error, \"positions\", None)\n    if not is_collection_of(positions, int):\n        positions = None\n")
silent("ok-c08-printer-local-parts", "C08", L + "printer.py",
       "        return join((\"extend scalar\", node.name, join(node.directives, \" \")), \" \")",
       "        name = node.name\n        directives = join(node.directives, \" \")\n        return join((\"extend scalar\", name, directives), \" \")")
silent("ok-c10-get-location-two-steps", "C10", L + "source.py",
       "        lines = _re_newline.split(self.body[:position])\n", "        prefix = self.body[:position]\n        lines = _re_newline.split(prefix)\n")
silent("ok-c06-hook-via-local", "C06", E + "executor.py",
       "        except Exception:\n            # e.g. the abort reason raised while executing root fields serially\n            self.run_async_work_finished_hook()\n            raise\n",
       "        except Exception:\n            run_hook = self.run_async_work_finished_hook\n            run_hook()\n            raise\n")
silent("ok-c14-has-explicit-if", "C14", V + "rules/overlapping_fields_can_be_merged.py",
       "        return True if are_mutually_exclusive else are_mutually_exclusive == result",
       "        if are_mutually_exclusive:\n            return True\n        return are_mutually_exclusive == result")
silent("ok-c05-else-explicit-termination", "C05", E + "incremental/incremental_publisher.py",
       "        else:  # WorkQueueTerminationEvent\n            context.has_next = False", "        elif isinstance(event, WorkQueueTerminationEvent):\n            context.has_next = False")

# -- round-2 rules ------------------------------------------------------------------------------
U = "src/graphql/utilities/"
v("c01-unfix-row-size", "C01", "ROW-ALLOC", "src/graphql/pyutils/suggestion_list.py",
  "row_size = len(self._input_list) + 1", "row_size = len(input_) + 1")
v("c01-unfix-union-fields", "C01", "SUPPRESSED-ATTR", V + "rules/stream_directive_on_list_field.py",
  'for name, field in getattr(parent_type, "fields", {}).items()', "for name, field in parent_type.fields.items()  # type: ignore")
v("c01-next-without-handler", "C01", "NEXT-TOTAL", V + "rules/defer_stream_directive_label.py",
  "        except StopIteration:\n            return\n", "        except KeyError:\n            return\n")
v("c01-index-after-weaker-test", "C01", "INDEX-GUARD", U + "coerce_input_value.py",
  "if defined_field_count != 1 or len(keys) != 1:", "if defined_field_count != 1 or len(keys) > 1:")
v("c02-undefined-by-equality", "C02", "SENTINEL-IDENTITY", E + "values.py",
  "if coerced_value is Undefined:", "if coerced_value == Undefined:")
v("c12-mutable-default", "C12", "MUTABLE-DEFAULT", V + "rules/max_introspection_depth_rule.py",
  "def _check_depth(self, node: Node, depth: int = 0) -> bool:", "def _check_depth(self, node: Node, depth: int = 0, seen: dict = {}) -> bool:")
v("c18-swapped-options", "C18", "ARG-NAME-MATCH", U + "introspection_from_schema.py",
  "            experimental_directive_deprecation,\n            one_of,\n", "            one_of,\n            experimental_directive_deprecation,\n")
v("c08-parser-order", "C08", "ORDER-AGREE", L + "parser.py",
  "        interfaces = self.parse_implements_interfaces()\n        directives = self.parse_const_directives()\n        fields = self.parse_fields_definition()\n        return ObjectTypeDefinitionNode(",
  "        directives = self.parse_const_directives()\n        interfaces = self.parse_implements_interfaces()\n        fields = self.parse_fields_definition()\n        return ObjectTypeDefinitionNode(")
v("c11-keys-order", "C11", "ORDER-AGREE", L + "ast.py",
  '    "field": ("alias", "name", "arguments", "directives", "selection_set"),', '    "field": ("alias", "name", "directives", "arguments", "selection_set"),')
v("c14-leaf-and", "C14", "KIND-TABLE", V + "rules/overlapping_fields_can_be_merged.py",
  "    if is_leaf_type(type1) or is_leaf_type(type2):\n        return type1 is not type2\n    return False",
  "    if is_leaf_type(type1) and is_leaf_type(type2):\n        return type1 is not type2\n    return False")
v("c20-subtype-nonnull-swapped", "C20", "KIND-TABLE", U + "type_comparators.py",
  "        return is_type_sub_type_of(schema, maybe_subtype.of_type, super_type)\n", "        return is_type_sub_type_of(schema, maybe_subtype, super_type)\n")
v("c07-anext-on-iterable", "C07", "TYPE-WITNESS", E + "executor.py",
  "return with_abort_signal(iterator.__anext__())", "return with_abort_signal(anext(iterable))")
silent("ok-c14-leaf-nested-ifs", "C14", V + "rules/overlapping_fields_can_be_merged.py",
       "    if is_leaf_type(type1) or is_leaf_type(type2):\n        return type1 is not type2\n    return False",
       "    if is_leaf_type(type1):\n        return type1 is not type2\n    if is_leaf_type(type2):\n        return type1 is not type2\n    return False")
silent("ok-c20-subtype-merged-return", "C20", U + "type_comparators.py",
       "    if is_list_type(maybe_subtype):\n        # If super_type is not a list, maybe_subtype must also be not a list.\n        return False\n",
       "    if is_list_type(maybe_subtype):\n        result = False\n        return result\n")
silent("ok-c01-index-len-ge", "C01", U + "coerce_input_value.py",
       "if defined_field_count != 1 or len(keys) != 1:", "if defined_field_count != 1 or not len(keys) == 1:")
silent("ok-c03-counter-else", "C03", E + "executor.py",
       "                ):\n                    append_awaitable(index)\n\n                index += 1\n        except Exception:\n            if early_return is not None:",
       "                ):\n                    append_awaitable(index)\n                else:\n                    pass\n\n                index += 1\n        except Exception:\n            if early_return is not None:")
v("c15-unfix-default-memo-type", "C15", "ATTR-MEMO", U + "coerce_input_value.py",
  "        if (\n            coerced_value is Undefined\n            or default_input._memoized_type is not type_  # noqa: SLF001\n        ):",
  "        if coerced_value is Undefined:")

# -- behaviour-preserving rewrites that the round-2 rules must accept ------------------------------
silent("ok-c01-next-with-default", "C01", V + "rules/defer_stream_directive_label.py",
       "        try:\n            label_argument = next(\n                arg for arg in node.arguments or () if arg.name.value == \"label\"\n            )\n        except StopIteration:\n            return\n",
       "        label_argument = next(\n            (arg for arg in node.arguments or () if arg.name.value == \"label\"), None\n        )\n        if label_argument is None:\n            return\n")
silent("ok-c01-row-size-from-lowercase", "C01", "src/graphql/pyutils/suggestion_list.py",
       "row_size = len(self._input_list) + 1", "row_size = len(self._input_lower_case) + 1")
silent("ok-c10-line-plus-one", "C10", L + "lexer.py",
       "                position += 1\n                self.line += 1\n                self.line_start = position\n                continue\n            if char == \"\\r\":",
       "                position += 1\n                self.line = self.line + 1\n                self.line_start = position\n                continue\n            if char == \"\\r\":")
silent("ok-c11-kind-local-before-use", "C11", L + "visitor.py",
       "            keys = node if in_array else visitor_keys.get(node.kind, ())  # type: ignore",
       "            kind = None if in_array else node.kind\n            keys = node if in_array else visitor_keys.get(kind, ())  # type: ignore")
silent("ok-c13-reset-by-reassign", "C13", V + "rules/variables_in_allowed_position.py",
       "        self.var_def_map.clear()", "        self.var_def_map = {}")
silent("ok-c20-cache-chained-assign", "C20", T + "validate.py",
       "        errors = context.errors\n        schema._validation_errors = errors  # noqa: SLF001\n",
       "        errors = schema._validation_errors = context.errors  # noqa: SLF001\n")
silent("ok-c16-float-only-in-test", "C16", T + "scalars.py",
       "def coerce_id_from_number(value: float) -> str:\n    if isinstance(value, float) and (not isfinite(value) or int(value) != value):",
       "def coerce_id_from_number(value: float) -> str:\n    if isinstance(value, float) and not float(value).is_integer():")
silent("ok-c06-return-after-abort", "C06", E + "executor.py",
       "        futures = self.pending_incremental_futures\n        if futures:\n            pending = list(futures)\n            for future in pending:\n                future.cancel()\n            await gather(*pending, return_exceptions=True)\n",
       "        futures = self.pending_incremental_futures\n        if not futures:\n            return\n        pending = list(futures)\n        for future in pending:\n            future.cancel()\n        await gather(*pending, return_exceptions=True)\n")
silent("ok-c03-typecheck-local", "C03", E + "executor.py",
       "                    if not await self.with_abort_signal(is_type_of):\n                        raise invalid_return_type_error(",
       "                    type_ok = await self.with_abort_signal(is_type_of)\n                    if not type_ok:\n                        raise invalid_return_type_error(")
silent("ok-c05-while-truthy", "C05", E + "incremental/build_execution_plan.py",
       "        while parent_defer_usage is not None:", "        while parent_defer_usage:")
silent("ok-c08-escape-range-rewritten", "C08", L + "lexer.py",
       "        if 0 <= code <= 0xD7FF or 0xE000 <= code <= 0x10FFFF:", "        if 0 <= code < 0xD800 or 0xDFFF < code <= 0x10FFFF:")
silent("ok-c08-block-flag-ifexp", "C08", L + "printer.py",
       "        if node.block:\n            return print_block_string(node.value)\n        return print_string(node.value)",
       "        return print_block_string(node.value) if node.block else print_string(node.value)")
silent("ok-c15-int-is-integer", "C15", T + "scalars.py",
       "def coerce_int_from_number(value: float) -> int:\n    if isinstance(value, float) and (not isfinite(value) or int(value) != value):",
       "def coerce_int_from_number(value: float) -> int:\n    if isinstance(value, float) and not value.is_integer():")
silent("ok-c19-root-without-cast", "C19", U + "build_ast_schema.py",
       "                schema_kwargs[\"query\"] = cast(\"GraphQLObjectType\", type_)", "                schema_kwargs[\"query\"] = type_  # type: ignore[typeddict-item]")
silent("ok-c14-all-pairs-combinations", "C14", V + "rules/overlapping_fields_can_be_merged.py",
       "            for i, field in enumerate(fields):\n                for other_field in fields[i + 1 :]:\n                    conflict = find_conflict(",
       "            from itertools import combinations\n\n            for field, other_field in combinations(fields, 2):\n                if True:\n                    conflict = find_conflict(")
silent("ok-c18-options-by-keyword", "C18", U + "introspection_from_schema.py",
       "            experimental_directive_deprecation,\n            one_of,\n", "            one_of=one_of,\n            experimental_directive_deprecation=experimental_directive_deprecation,\n")

# -- round-3 rules: breaking edits ----------------------------------------------------------------------
P = "src/graphql/pyutils/"
v("c11-enter-leave-coupled", "C11", "ENTER-LEAVE-TABLE", L + "visitor.py",
  "            if not leave_fn:\n                leave_fn = getattr(self, \"leave\", None)", "            if not leave_fn and not enter_fn:\n                leave_fn = getattr(self, \"leave\", None)")
v("c11-stale-result", "C11", "ITERATION-LOCAL", L + "visitor.py",
  "            else:\n                result = None\n\n        if result is None and is_edited:", "\n        if result is None and is_edited:")
VARIANTS[-1]["edits"].append({"file": L + "visitor.py", "old": "    parent: Any = None\n    path: list[Any] = []", "new": "    parent: Any = None\n    result: Any = None\n    path: list[Any] = []"})
v("c09-strip-fast-path", "C09", "STRIP-LEXES", U + "strip_ignored_characters.py",
  "    body = source.body\n    lexer = Lexer(source)", "    body = source.body\n    if \" \" not in body and \"\\n\" not in body and \",\" not in body:\n        return body\n    lexer = Lexer(source)")
v("c09-hex-lowercase", "C09", "HEX-TABLE", L + "lexer.py",
  "    if \"a\" <= char <= \"f\":\n        return ord(char) - 87", "    if \"a\" <= char <= \"f\":\n        return ord(char) - 86")
v("c08-print-postprocess", "C08", "PRINT-DIRECT", L + "printer.py",
  "    return visit(ast, PrintAstVisitor())", "    return visit(ast, PrintAstVisitor()).rstrip()")
v("c08-alias-equals-name", "C08", "PRINTER-FIELDS-INDEPENDENT", L + "printer.py",
  "        prefix = join((wrap(\"\", node.alias, \": \"), node.name))", "        prefix = join((wrap(\"\", None if node.alias == node.name else node.alias, \": \"), node.name))")
v("c12-report-swallowed", "C12", "REPORT-DISCIPLINE", V + "rules/lone_anonymous_operation.py",
  "            self.report_error(\n                GraphQLError(\n                    \"This anonymous operation must be the only defined operation.\", node\n                )\n            )",
  "            try:\n                self.report_error(\n                    GraphQLError(\n                        \"This anonymous operation must be the only defined operation.\", node\n                    )\n                )\n            except GraphQLError:\n                return")
v("c02-getattr-for-mappings", "C02", "SOURCE-SIBLINGS", E + "executor.py",
  "    value = (\n        source.get(field_name)\n        if isinstance(source, Mapping)\n        else getattr(source, field_name, None)\n    )",
  "    value = source.get(field_name) if isinstance(source, Mapping) else None\n    if value is None:\n        value = getattr(source, field_name, None)")
v("c06-cancel-catch-narrowed", "C06", "CANCEL-CATCH", E + "executor.py",
  "            except BaseException:\n                # cancelled while waiting (e.g. because a sibling field failed):", "            except Exception:\n                # cancelled while waiting (e.g. because a sibling field failed):")
v("c06-own-background-set", "C06", "SHARED-TRACKERS", E + "incremental/incremental_executor.py",
  "        sub_executor.collected_errors = CollectedErrors()", "        sub_executor.collected_errors = CollectedErrors()\n        sub_executor.background_futures = set()")
v("c06-bare-await-is-type-of", "C06", "ABORT-WRAP", E + "executor.py",
  "                    if not await self.with_abort_signal(is_type_of):", "                    if not await is_type_of:")
v("c07-unused-type-resolver", "C07", "PARAM-USED", E + "execute.py",
  "        field_resolver,\n        type_resolver,\n        subscribe_field_resolver,\n        max_coercion_errors,\n        enable_early_execution,\n        middleware=middleware,",
  "        field_resolver,\n        None,\n        subscribe_field_resolver,\n        max_coercion_errors,\n        enable_early_execution,\n        middleware=middleware,")
v("c17-args-oneline-flipped", "C17", "ARGS-ONELINE", U + "print_schema.py",
  "    if all(arg.description is None for arg in args.values()):", "    if not all(arg.description is not None for arg in args.values()):")
v("c17-root-object-only", "C17", "ROOT-NAMES-AGREE", U + "print_schema.py",
  "        and schema.subscription_type is schema.get_type(\"Subscription\")", "        and schema.subscription_type is (schema.get_type(\"Subscription\") if is_object_type(schema.get_type(\"Subscription\")) else None)")
v("c03-handler-info-type", "C03", "HANDLER-TYPE", E + "executor.py",
  "                        self.handle_field_error(\n                            raw_error,\n                            item_type,", "                        self.handle_field_error(\n                            raw_error,\n                            info.return_type,")
v("c15-undefined-falls-through", "C15", "UNDEFINED-RAISES", E + "values.py",
  "        msg = \"Invalid argument\"  # pragma: no cover\n        raise GraphQLError(msg, value_node)  # pragma: no cover\n", "        return\n")
v("c19-config-nodes-in-mapper", "C19", "EXTEND-BUILD-AGREE", U + "extend_schema.py",
  "                extensions = tuple(type_extensions.union[config[\"name\"]])", "                extensions = config[\"extension_ast_nodes\"] + tuple(type_extensions.union[config[\"name\"]])")

# -- round-3 rules: behaviour-preserving edits -----------------------------------------------------------
silent("ok-c11-enter-leave-or", "C11", L + "visitor.py",
       "            enter_fn = getattr(self, f\"enter_{kind}\", None)\n            if not enter_fn:\n                enter_fn = getattr(self, \"enter\", None)",
       "            enter_fn = getattr(self, f\"enter_{kind}\", None) or getattr(self, \"enter\", None)")
silent("ok-c08-print-via-local", "C08", L + "printer.py",
       "    return visit(ast, PrintAstVisitor())", "    printed = visit(ast, PrintAstVisitor())\n    return printed")
silent("ok-c17-args-not-any", "C17", U + "print_schema.py",
       "    if all(arg.description is None for arg in args.values()):", "    if not any(arg.description is not None for arg in args.values()):")
silent("ok-c12-report-try-reraise", "C12", V + "rules/lone_anonymous_operation.py",
       "            self.report_error(\n                GraphQLError(\n                    \"This anonymous operation must be the only defined operation.\", node\n                )\n            )",
       "            try:\n                self.report_error(\n                    GraphQLError(\n                        \"This anonymous operation must be the only defined operation.\", node\n                    )\n                )\n            except GraphQLError:\n                raise")
silent("ok-c06-cancel-catch-tuple", "C06", E + "executor.py",
       "            except BaseException:\n                # cancelled while waiting (e.g. because a sibling field failed):", "            except (Exception, CancelledError):\n                # cancelled while waiting (e.g. because a sibling field failed):")
silent("ok-c19-mapper-rename", "C19", U + "extend_schema.py",
       "                extensions = tuple(type_extensions.union[config[\"name\"]])\n                return merge_kwargs(\n                    config,\n                    types=lambda: [\n                        *config[\"types\"](),\n                        *build_union_types(extensions),\n                    ],\n                    extension_ast_nodes=config[\"extension_ast_nodes\"] + extensions,",
       "                new_nodes = tuple(type_extensions.union[config[\"name\"]])\n                return merge_kwargs(\n                    config,\n                    types=lambda: [\n                        *config[\"types\"](),\n                        *build_union_types(new_nodes),\n                    ],\n                    extension_ast_nodes=config[\"extension_ast_nodes\"] + new_nodes,")
v("c14-unfix-cache-plain-dict", "C14", "NODE-KEY-IDENTITY", V + "rules/overlapping_fields_can_be_merged.py",
  "        self.cached_fields_and_fragment_spreads: FieldsAndFragmentSpreadsCache = (\n            RefMap()\n        )", "        self.cached_fields_and_fragment_spreads: dict = {}")
v("c13-unfix-oneof-wrapped-parent", "C13", "WRAPPED-KIND-TEST", V + "rules/variables_in_allowed_position.py",
  "            parent_type = get_named_type(usage.parent_type)", "            parent_type = usage.parent_type")
v("c13-unfix-oneof-list-wrapped-parent", "C13", "WRAPPED-KIND-TEST", V + "rules/variables_in_allowed_position.py",
  "            parent_type = get_named_type(usage.parent_type)", "            parent_type = get_nullable_type(usage.parent_type)",
  extra_edits=[{"file": V + "rules/variables_in_allowed_position.py", "old": "    get_named_type,\n    is_input_object_type,", "new": "    get_nullable_type,\n    is_input_object_type,"}])
v("c05-unfix-failure-allocates", "C05", "ID-LIFECYCLE", E + "incremental/incremental_publisher.py",
  "            group_id = self._ids.get(group)\n            if group_id is not None:\n                context.completed.append(\n                    CompletedResult(group_id, [ensure_graphql_error(event.error)])\n                )\n                del self._ids[group]",
  "            context.completed.append(\n                CompletedResult(\n                    self._ensure_id(group), [ensure_graphql_error(event.error)]\n                )\n            )\n            del self._ids[group]")

# -- unfix variants of the three C01 repairs 5430bb3 / 270825c / 143f257 ------------------------------------
v("c01-unfix-tuple-nodes", "C01", "UNTRUSTED-ATTR", "src/graphql/error/graphql_error.py",
  "nodes = list(nodes) if isinstance(nodes, tuple) else [nodes]  # type: ignore", "nodes = [nodes]  # type: ignore")
v("c01-unfix-inspect-huge-int", "C01", "STR-TOTAL", "src/graphql/pyutils/inspect.py",
  "    if isinstance(value, int):\n        try:\n            return trunc_str(repr(value))\n        except ValueError:  # beyond the limit for integer string conversion\n            return trunc_str(hex(value))\n    if isinstance(value, (str, bytes, bytearray)):",
  "    if isinstance(value, (int, str, bytes, bytearray)):")
v("c01-unfix-nonstr-key", "C01", "STR-TOTAL", "src/graphql/utilities/validate_input_value.py",
  "if hide_suggestions or not isinstance(field_name, str)", "if hide_suggestions")
v("c01-nonstr-key-guard-as-statement", "C01", "STR-TOTAL", "src/graphql/utilities/validate_input_value.py",
  "                suggestion = (\n                    \"\"\n                    if hide_suggestions or not isinstance(field_name, str)\n                    else did_you_mean(suggestion_list(field_name, list(field_defs)))\n                )\n",
  "                suggestion = \"\"\n                if not hide_suggestions and isinstance(field_name, str):\n                    suggestion = did_you_mean(suggestion_list(field_name, list(field_defs)))\n",
  expect="silent")

# -- round 4: C11 ------------------------------------------------------------------------------------------
v("c11-edit-twice", "C11", "EDIT-ONCE", L + "visitor.py",
  "        if result is None and is_edited:\n", "        if is_edited and (result is None or isinstance(result, VisitorActionEnum)):\n")
v("c11-edit-once-reordered-test", "C11", "EDIT-ONCE", L + "visitor.py",
  "        if result is None and is_edited:\n", "        if is_edited and result is None:\n", expect="silent")
v("c11-keys-memo-inherited", "C11", "CLASS-MEMO-OWN", L + "ast.py",
  "        if not hasattr(cls, \"__dataclass_fields__\"):\n            return ()  # During class construction\n        return tuple(f.name for f in fields(cls))\n",
  "        try:\n            return cls._field_names  # type: ignore[attr-defined]\n        except AttributeError:\n            if not hasattr(cls, \"__dataclass_fields__\"):\n                return ()  # During class construction\n            names = tuple(f.name for f in fields(cls))\n            cls._field_names = names  # type: ignore[attr-defined]\n            return names\n")
v("c11-keys-memo-own-dict", "C11", "CLASS-MEMO-OWN", L + "ast.py",
  "        if not hasattr(cls, \"__dataclass_fields__\"):\n            return ()  # During class construction\n        return tuple(f.name for f in fields(cls))\n",
  "        names = cls.__dict__.get(\"_field_names\")\n        if names is None:\n            if not hasattr(cls, \"__dataclass_fields__\"):\n                return ()  # During class construction\n            names = tuple(f.name for f in fields(cls))\n            cls._field_names = names  # type: ignore[attr-defined]\n        return names\n",
  expect="silent")
v("c11-parallel-looks-up-by-name", "C11", "HANDLER-LOOKUP", L + "visitor.py",
  "                enter, leave = visitor.get_enter_leave_for_kind(kind)\n",
  "                enter = getattr(visitor, f\"enter_{kind}\", None) or getattr(visitor, \"enter\", None)\n                leave = getattr(visitor, f\"leave_{kind}\", None) or getattr(visitor, \"leave\", None)\n")
v("c11-lookup-helper-for-self", "C11", "HANDLER-LOOKUP", L + "visitor.py",
  "            enter_fn = getattr(self, f\"enter_{kind}\", None)\n            if not enter_fn:\n                enter_fn = getattr(self, \"enter\", None)\n            leave_fn = getattr(self, f\"leave_{kind}\", None)\n            if not leave_fn:\n                leave_fn = getattr(self, \"leave\", None)\n            enter_leave = EnterLeaveVisitor(enter_fn, leave_fn)\n",
  "            enter_leave = _find_enter_leave(self, kind)\n",
  expect="silent", extra_edits=[{"file": L + "visitor.py", "old": "class Stack(NamedTuple):",
  "new": "def _find_enter_leave(visitor: Visitor, kind: str) -> EnterLeaveVisitor:\n    enter_fn = getattr(visitor, f\"enter_{kind}\", None)\n    if not enter_fn:\n        enter_fn = getattr(visitor, \"enter\", None)\n    leave_fn = getattr(visitor, f\"leave_{kind}\", None)\n    if not leave_fn:\n        leave_fn = getattr(visitor, \"leave\", None)\n    return EnterLeaveVisitor(enter_fn, leave_fn)\n\n\nclass Stack(NamedTuple):"}])

# -- round 4: C06 ------------------------------------------------------------------------------------------
v("c06-started-task-counts-as-integrated", "C06", "UNINTEGRATED-WORK", E + "incremental/work_queue.py",
  "            if task_node.value is not _UNSET:\n                return  # the work produced by the task has been integrated\n",
  "            return\n")
v("c06-integrated-test-inverted-form", "C06", "UNINTEGRATED-WORK", E + "incremental/work_queue.py",
  "            if task_node.value is not _UNSET:\n                return  # the work produced by the task has been integrated\n",
  "            integrated = task_node.value is not _UNSET\n            if integrated:\n                return\n", expect="silent")
v("c06-abort-callback-depends-on-cancel", "C06", "ABORT-CALLBACK", E + "incremental/computation.py",
  "            future.cancel()\n            on_abort = self._on_abort\n            if on_abort is not None:\n",
  "            on_abort = self._on_abort\n            if future.cancel() and on_abort is not None:\n")
v("c06-abort-callback-truthiness", "C06", "ABORT-CALLBACK", E + "incremental/computation.py",
  "            on_abort = self._on_abort\n            if on_abort is not None:\n                return on_abort(reason)\n",
  "            if self._on_abort is None:\n                return None\n            return self._on_abort(reason)\n", expect="silent")
v("c06-close-after-handover", "C06", "HANDOVER-OWNER", E + "executor.py",
  "            completed_results[index] = await completed_results[index]\n",
  "            try:\n                completed_results[index] = await completed_results[index]\n            except Exception:\n                if early_return is not None:\n                    with suppress_exceptions:\n                        await early_return()\n                raise\n")

# -- round 4: C07 / C02 -------------------------------------------------------------------------------------
v("c07-source-args-without-fragment-scope", "C07", "SCOPE-THREAD", E + "execute.py",
  "            field_details_list[0].fragment_variable_values,\n            executor.hide_suggestions,\n",
  "            hide_suggestions=executor.hide_suggestions,\n")
v("c07-source-resolver-falls-back-to-field-resolver", "C07", "OPTION-INDEPENDENT", E + "executor.py",
  "            subscribe_field_resolver or default_field_resolver,\n", "            subscribe_field_resolver or field_resolver or default_field_resolver,\n")
v("c07-source-resolver-default-in-local", "C07", "OPTION-INDEPENDENT", E + "executor.py",
  "            subscribe_field_resolver or default_field_resolver,\n", "            source_resolver,\n", expect="silent",
  extra_edits=[{"file": E + "executor.py", "old": "        return cls(\n            schema,\n            fragment_definitions,\n",
                "new": "        source_resolver = subscribe_field_resolver\n        if source_resolver is None:\n            source_resolver = default_field_resolver\n        return cls(\n            schema,\n            fragment_definitions,\n"}])
v("c02-singleton-list-drops-scopes", "C02", "SCOPE-THREAD", U + "coerce_input_value.py",
  "            item_value = coerce_input_literal(\n                value_node,\n                item_type,\n                variable_values,\n                fragment_variable_values,\n            )\n",
  "            item_value = coerce_input_literal(value_node, item_type)\n")
v("c02-unfix-stream-fragment-variables", "C02", "SCOPE-THREAD", E + "executor.py",
  "            self.variable_values,\n            first_field_details.fragment_variable_values,\n        )\n\n        if not stream or",
  "            self.variable_values,\n        )\n\n        if not stream or")
v("c02-default-memo-keyed-by-type-text", "C02", "ATTR-MEMO", U + "coerce_input_value.py",
  "or default_input._memoized_type is not type_  # noqa: SLF001", "or default_input._memoized_type != str(type_)  # noqa: SLF001",
  extra_edits=[{"file": U + "coerce_input_value.py", "old": "            default_input._memoized_type = type_  # noqa: SLF001", "new": "            default_input._memoized_type = str(type_)  # noqa: SLF001"}])
v("c02-leaf-fast-path-misses-nonnull-list", "C02", "NONNULL-INVARIANT", E + "executor.py",
  "        complete_list_item_value = self.complete_list_item_value\n        complete_awaitable_list_item_value = self.complete_awaitable_list_item_value\n        completed_results: list[Any] = []\n        append_completed = completed_results.append\n        awaitable_indices: list[int] = []\n        append_awaitable = awaitable_indices.append\n        stream_usage = self.get_stream_usage(field_details_list, path)\n        iterator = iter(items)",
  "        complete_list_item_value = (\n            (lambda item, results, *_a: results.append(self.complete_leaf_value(get_named_type(item_type), item)) or False)\n            if is_leaf_type(get_named_type(item_type)) and not is_list_type(item_type)\n            else self.complete_list_item_value\n        )\n        complete_awaitable_list_item_value = self.complete_awaitable_list_item_value\n        completed_results: list[Any] = []\n        append_completed = completed_results.append\n        awaitable_indices: list[int] = []\n        append_awaitable = awaitable_indices.append\n        stream_usage = self.get_stream_usage(field_details_list, path)\n        iterator = iter(items)")

# -- round 4: C14 ------------------------------------------------------------------------------------------
OF = V + "rules/overlapping_fields_can_be_merged.py"
v("c14-exclusive-any-different-parents", "C14", "EXCLUSIVE-OBJECTS", OF,
  "        parent_type1 != parent_type2\n        and is_object_type(parent_type1)\n        and is_object_type(parent_type2)\n",
  "        parent_type1 != parent_type2\n        and (is_object_type(parent_type1) or is_object_type(parent_type2))\n")
v("c14-exclusive-named-flags", "C14", "EXCLUSIVE-OBJECTS", OF,
  "    are_mutually_exclusive = parent_fields_are_mutually_exclusive or (\n        parent_type1 != parent_type2\n        and is_object_type(parent_type1)\n        and is_object_type(parent_type2)\n    )\n",
  "    both_objects = is_object_type(parent_type1) and is_object_type(parent_type2)\n    are_mutually_exclusive = parent_fields_are_mutually_exclusive or (\n        both_objects and parent_type1 != parent_type2\n    )\n",
  expect="silent")
v("c14-union-fields-skipped", "C14", "FIELDS-RECORDED", OF,
  "            field_name = selection.name.value\n            field_def = (\n", "            field_name = selection.name.value\n            if not (is_object_type(parent_type) or is_interface_type(parent_type)):\n                continue\n            field_def = (\n")
v("c14-equal-selection-sets-shortcut", "C14", "NODE-BY-IDENTITY", OF,
  "    conflicts: list[Conflict] = []\n\n    field_map1, fragment_spreads1 = get_fields_and_fragment_spreads(\n        context,\n        cached_fields_and_fragment_spreads,\n        parent_type1,",
  "    conflicts: list[Conflict] = []\n    if selection_set1 == selection_set2 and var_map1 == var_map2:\n        return conflicts\n\n    field_map1, fragment_spreads1 = get_fields_and_fragment_spreads(\n        context,\n        cached_fields_and_fragment_spreads,\n        parent_type1,")

# -- round 4: C09 ------------------------------------------------------------------------------------------
v("c09-no-space-before-block-string", "C09", "SEPARATOR-TABLE", U + "strip_ignored_characters.py",
  "            is_non_punctuator or current_token.kind == TokenKind.SPREAD\n",
  "            (is_non_punctuator and token_kind != TokenKind.BLOCK_STRING) or current_token.kind == TokenKind.SPREAD\n")
v("c09-separator-named-local", "C09", "SEPARATOR-TABLE", U + "strip_ignored_characters.py",
  "        if was_last_added_token_non_punctuator and (\n            is_non_punctuator or current_token.kind == TokenKind.SPREAD\n        ):\n",
  "        needs_delimiter = is_non_punctuator or token_kind == TokenKind.SPREAD\n        if needs_delimiter and was_last_added_token_non_punctuator:\n",
  expect="silent")
v("c09-block-string-backslash-pair", "C09", "BLOCK-STEPS", L + "lexer.py",
  "            if char in \"\\r\\n\":\n                current_line += body[chunk_start:position]\n                block_lines.append(current_line)\n",
  "            if char == \"\\\\\" and body[position + 1 : position + 2] == \"\\\\\":\n                position += 2\n                continue\n\n            if char in \"\\r\\n\":\n                current_line += body[chunk_start:position]\n                block_lines.append(current_line)\n")
v("c09-block-escape-test-in-local", "C09", "BLOCK-STEPS", L + "lexer.py",
  "            if char == \"\\\\\" and body[position + 1 : position + 4] == '\"\"\"':\n",
  "            following = body[position + 1 : position + 4]\n            if char == \"\\\\\" and following == '\"\"\"':\n",
  expect="silent")

# -- round 4: C08 ------------------------------------------------------------------------------------------
v("c08-single-line-depends-on-length", "C08", "BLOCK-PRINT-TABLE", L + "block_string.py",
  "    is_single_line = num_lines == 1\n", "    is_single_line = num_lines == 1 and len(value) <= 70\n")
v("c08-block-flags-reordered", "C08", "BLOCK-PRINT-TABLE", L + "block_string.py",
  "    skip_leading_new_line = is_single_line and value and value[0] in \" \\t\"\n    before = (\n        \"\\n\"\n        if (print_as_multiple_lines and not skip_leading_new_line)\n        or force_leading_new_line\n        else \"\"\n    )\n",
  "    starts_blank = value and value[0] in \" \\t\"\n    keep_first_line = is_single_line and starts_blank\n    before = \"\"\n    if force_leading_new_line or (print_as_multiple_lines and not keep_first_line):\n        before = \"\\n\"\n",
  expect="silent")
v("c08-interface-extension-comma", "C08", "LIST-SEPARATORS", L + "printer.py",
  "                \"extend interface\",\n                node.name,\n                wrap(\"implements \", join(node.interfaces, \" & \")),",
  "                \"extend interface\",\n                node.name,\n                wrap(\"implements \", join(node.interfaces, \", \")),")
v("c08-union-members-newline-pipe", "C08", "LIST-SEPARATORS", L + "printer.py",
  "                wrap(\"= \", join(node.types, \" | \")),\n            ),\n            \" \",\n        )\n\n    @staticmethod\n    def leave_enum_type_definition",
  "                wrap(\"= \", join(node.types, \"\\n  | \")),\n            ),\n            \" \",\n        )\n\n    @staticmethod\n    def leave_enum_type_definition",
  expect="silent")

# -- round 4: C15 ------------------------------------------------------------------------------------------
v("c15-enum-accepts-python-enum-members", "C15", "ENUM-INPUT-CLASSES", T + "definition.py",
  "        \"\"\"Coerce an enum input value.\"\"\"\n        if isinstance(input_value, str):\n",
  "        \"\"\"Coerce an enum input value.\"\"\"\n        if isinstance(input_value, Enum):\n            input_value = input_value.name\n        if isinstance(input_value, str):\n")
v("c15-literal-rule-shortcut", "C15", "LITERAL-RULE-DELEGATES", V + "rules/values_of_correct_type.py",
  "        if input_type:\n\n            def on_error", "        if input_type:\n            if isinstance(node, BooleanValueNode) and str(input_type) == \"Boolean\":\n                return SKIP\n\n            def on_error")
v("c15-literal-rule-early-return-untyped", "C15", "LITERAL-RULE-DELEGATES", V + "rules/values_of_correct_type.py",
  "        if input_type:\n\n            def on_error", "        if not input_type:\n            return SKIP\n        if input_type:\n\n            def on_error", expect="silent")

# -- round 4: C16 ------------------------------------------------------------------------------------------
v("c16-float-from-int-unchecked", "C16", "FLOAT-EXACT", T + "scalars.py",
  "    if int(num) != value:\n", "    if False:\n")
v("c16-float-from-int-compare-other-way", "C16", "FLOAT-EXACT", T + "scalars.py",
  "    if int(num) != value:\n", "    if value != int(num):\n", expect="silent")

# -- round 4: C20 ------------------------------------------------------------------------------------------
v("c20-reserved-name-exempts-by-name", "C20", "RESERVED-NAME", T + "validate.py",
  "            if name.startswith(\"__\"):\n", "            if name.startswith(\"__\") and name not in (\"__Type\", \"__Field\"):\n")
v("c20-reserved-name-test-in-local", "C20", "RESERVED-NAME", T + "validate.py",
  "            if name.startswith(\"__\"):\n", "            if name.startswith(\"__\") and True:\n", expect="silent")
v("c20-cycle-detector-lists-only", "C20", "LIST-VALUE-PREDICATE", T + "validate.py",
  "        if is_iterable(default_value):\n", "        if isinstance(default_value, list):\n")
v("c20-oneof-default-test-coerces", "C20", "SCHEMA-VALIDATION-TOTAL", T + "validate.py",
  "        if field.default is not None or field.default_value is not Undefined:\n", "        if coerce_default_value(field) is not Undefined:\n",
  extra_edits=[{"file": T + "validate.py", "old": "from ..utilities.type_comparators import is_equal_type, is_type_sub_type_of\n",
                "new": "from ..utilities.coerce_input_value import coerce_default_value\nfrom ..utilities.type_comparators import is_equal_type, is_type_sub_type_of\n"}])

# -- round 4: C18 ------------------------------------------------------------------------------------------
v("c18-directive-arg-types-by-identity", "C18", "CROSS-SCHEMA-BY-NAME", U + "find_schema_changes.py",
  "            elif str(old_arg.type) != str(new_arg.type):\n                schema_changes.append(\n                    SafeChange(\n                        SafeChangeType.ARG_CHANGED_KIND_SAFE,",
  "            elif old_arg.type != new_arg.type:\n                schema_changes.append(\n                    SafeChange(\n                        SafeChangeType.ARG_CHANGED_KIND_SAFE,")
v("c18-directive-arg-types-by-text-local", "C18", "CROSS-SCHEMA-BY-NAME", U + "find_schema_changes.py",
  "            elif str(old_arg.type) != str(new_arg.type):\n                schema_changes.append(\n                    SafeChange(\n                        SafeChangeType.ARG_CHANGED_KIND_SAFE,",
  "            elif f\"{old_arg.type}\" != f\"{new_arg.type}\":\n                schema_changes.append(\n                    SafeChange(\n                        SafeChangeType.ARG_CHANGED_KIND_SAFE,",
  expect="silent")
v("c18-introspection-default-sorted", "C18", "DEFAULT-VERBATIM", T + "introspection.py",
  "        if ast:\n            return print_ast(ast)\n", "        if ast:\n            from ..utilities.sort_value_node import sort_value_node\n\n            return print_ast(sort_value_node(ast))\n")

# -- round 4: C13 ------------------------------------------------------------------------------------------
v("c13-usages-cached-by-name", "C13", "MEMO-KEY-COVER", V + "validation_context.py",
  "        usages = self._variable_usages.get(node)\n", "        usages = self._variable_usages.get(node.name)  # type: ignore\n",
  extra_edits=[{"file": V + "validation_context.py", "old": "            self._variable_usages[node] = usages\n", "new": "            self._variable_usages[node.name] = usages  # type: ignore\n"}])
v("c13-iface-without-args-skips-required-check", "C13", "EMPTINESS-GUARD", T + "validate.py",
  "            # Assert each interface field arg is implemented.\n            for arg_name, iface_arg in iface_field.args.items():\n",
  "            if not iface_field.args:\n                continue\n            # Assert each interface field arg is implemented.\n            for arg_name, iface_arg in iface_field.args.items():\n")
v("c13-extended-schema-inherits-assume-valid", "C13", "ASSUME-VALID-FRESH", U + "extend_schema.py",
  "                    assume_valid=assume_valid,\n", "                    assume_valid=assume_valid or config[\"assume_valid\"],\n")

# -- round 4: C19 ------------------------------------------------------------------------------------------
MS = U + "map_schema_config.py"
v("c19-map-args-in-place", "C19", "PARAM-READONLY", MS,
  "            new_argument_map[arg_name] = GraphQLArgument(**mapped_arg)\n        return new_argument_map\n",
  "            argument_map[arg_name] = GraphQLArgument(**mapped_arg)\n        return argument_map\n")
v("c19-map-args-copy-then-write", "C19", "PARAM-READONLY", MS,
  "            new_argument_map[arg_name] = GraphQLArgument(**mapped_arg)\n        return new_argument_map\n",
  "            new_argument_map[arg_name] = GraphQLArgument(**mapped_arg)\n        argument_map = dict(new_argument_map)\n        argument_map.update(new_argument_map)\n        return argument_map\n",
  expect="silent")
v("c19-arg-kwargs-literal-incomplete", "C19", "KWARGS-COMPLETE", MS,
  "            mapped_arg = merge_kwargs(\n                arg.to_kwargs(), type_=get_type(cast(\"GraphQLNamedType\", arg.type))\n            )\n",
  "            mapped_arg: GraphQLArgumentKwargs = {\n                \"type_\": get_type(cast(\"GraphQLNamedType\", arg.type)),  # type: ignore\n                \"default_value\": arg.default_value,\n                \"default\": arg.default,\n                \"description\": arg.description,\n                \"out_name\": arg.out_name,\n                \"extensions\": arg.extensions,\n                \"ast_node\": arg.ast_node,\n            }\n")
v("c19-arg-kwargs-literal-complete", "C19", "KWARGS-COMPLETE", MS,
  "            mapped_arg = merge_kwargs(\n                arg.to_kwargs(), type_=get_type(cast(\"GraphQLNamedType\", arg.type))\n            )\n",
  "            mapped_arg: GraphQLArgumentKwargs = {\n                \"type_\": get_type(cast(\"GraphQLNamedType\", arg.type)),  # type: ignore\n                \"default_value\": arg.default_value,\n                \"default\": arg.default,\n                \"description\": arg.description,\n                \"deprecation_reason\": arg.deprecation_reason,\n                \"out_name\": arg.out_name,\n                \"extensions\": arg.extensions,\n                \"ast_node\": arg.ast_node,\n            }\n",
  expect="silent")
v("c19-root-types-loop-break", "C19", "INDEPENDENT-KEYS", MS,
  "    query, mutation = schema_config[\"query\"], schema_config[\"mutation\"]\n",
  "    roots: dict = dict.fromkeys((\"query\", \"mutation\", \"subscription\"))\n    for operation in roots:\n        root = schema_config[operation]  # type: ignore\n        if root is None:\n            break\n        roots[operation] = root\n    query, mutation = schema_config[\"query\"], schema_config[\"mutation\"]\n")

# -- round 4: C17 ------------------------------------------------------------------------------------------
v("c17-int-literal-range-symmetric", "C17", "INT-RANGE-TABLE", T + "scalars.py",
  "    num = int(value_node.value)\n    if not GRAPHQL_MIN_INT <= num <= GRAPHQL_MAX_INT:\n", "    num = int(value_node.value)\n    if abs(num) > GRAPHQL_MAX_INT:\n")
v("c17-int-literal-range-two-tests", "C17", "INT-RANGE-TABLE", T + "scalars.py",
  "    num = int(value_node.value)\n    if not GRAPHQL_MIN_INT <= num <= GRAPHQL_MAX_INT:\n", "    num = int(value_node.value)\n    if not (num >= GRAPHQL_MIN_INT and num <= GRAPHQL_MAX_INT):\n", expect="silent")
v("c17-float-text-strips-exponent-zeros", "C17", "FLOAT-TEXT", U + "ast_from_value.py",
  "            value = value.removesuffix(\".0\")\n", "            if \".\" in value:\n                value = value.rstrip(\"0\").rstrip(\".\")\n")
v("c17-float-text-endswith-form", "C17", "FLOAT-TEXT", U + "ast_from_value.py",
  "            value = value.removesuffix(\".0\")\n", "            if value.endswith(\".0\"):\n                value = value[:-2]\n", expect="silent")

# -- round 4: C12 ------------------------------------------------------------------------------------------
v("c12-usages-from-inner-handler", "C12", "NESTED-VISIT-NEUTRAL", V + "rules/no_undefined_variables.py",
  "    def leave_operation_definition(", "    def enter_variable_definition(self, node: Any, *_args: Any) -> None:\n        self.context.get_variable_usages(_args[3][-1])\n\n    def leave_operation_definition(")
v("c12-handler-returns-reported-error", "C12", "TYPE-WITNESS", V + "rules/known_operation_types.py",
  "            self.report_error(\n", "            return self.report_error(  # noqa\n",
  extra_edits=[{"file": V + "rules/__init__.py", "old": "    def report_error(self, error: GraphQLError) -> None:\n        \"\"\"Report a GraphQL error.\"\"\"\n        self.context.report_error(error)\n",
                "new": "    def report_error(self, error: GraphQLError) -> GraphQLError:\n        \"\"\"Report a GraphQL error.\"\"\"\n        self.context.report_error(error)\n        return error\n"}])

# -- round 4: C03 ------------------------------------------------------------------------------------------
v("c03-nonnull-tested-before-completion", "C03", "NONNULL-AFTER-COMPLETION", E + "executor.py",
  "            if completed is None:\n                msg = (\n                    \"Cannot return null for non-nullable field\"\n                    f\" {info.parent_type}.{info.field_name}.\"\n                )\n                raise TypeError(msg)\n            return completed\n",
  "            if result is None:\n                msg = (\n                    \"Cannot return null for non-nullable field\"\n                    f\" {info.parent_type}.{info.field_name}.\"\n                )\n                raise TypeError(msg)\n            return completed\n")
v("c03-located-error-reinitialises-original", "C03", "PARAM-READONLY", "src/graphql/error/located_error.py",
  "    if isinstance(original_error, GraphQLError) and original_error.path is not None:\n        return original_error\n",
  "    if isinstance(original_error, GraphQLError):\n        if original_error.path is None:\n            GraphQLError.__init__(original_error, original_error.message, original_error.nodes or nodes, path=path)\n        return original_error\n")
v("c03-runtime-type-memo-by-name", "C03", "MEMO-KEY-COVER", E + "executor.py",
  "        runtime_type = self.schema.get_type(runtime_type_name)\n\n        if runtime_type is None:\n",
  "        runtime_type = self._runtime_types.get(runtime_type_name)\n        if runtime_type is not None:\n            return runtime_type\n        runtime_type = self.schema.get_type(runtime_type_name)\n\n        if runtime_type is None:\n",
  extra_edits=[{"file": E + "executor.py", "old": "        self._stream_usages: RefMap[FieldDetailsList, StreamUsage] = RefMap()\n", "new": "        self._stream_usages: RefMap[FieldDetailsList, StreamUsage] = RefMap()\n        self._runtime_types: dict[str, Any] = {}\n"},
               {"file": E + "executor.py", "old": "            raise GraphQLError(msg, to_nodes(field_details_list))\n\n        return runtime_type\n", "new": "            raise GraphQLError(msg, to_nodes(field_details_list))\n\n        self._runtime_types[runtime_type_name] = runtime_type\n        return runtime_type\n"}])

# -- round 4: C05 ------------------------------------------------------------------------------------------
v("c05-unfix-source-failure-cancels-items", "C05", "ERROR-KEEPS-ITEMS", E + "incremental/stream_item_queue.py",
  "            pending = [future for future in self._pending_futures if not future.done()]\n            if pending:\n                await gather(*pending, return_exceptions=True)\n",
  "            await self._settle_pending()\n")
v("c05-delivery-group-map-shared", "C05", "PARAM-READONLY", E + "incremental/incremental_executor.py",
  "        new_delivery_group_map: DeliveryGroupMap = RefMap(\n            None if delivery_group_map is None else delivery_group_map.items()\n        )\n",
  "        new_delivery_group_map: DeliveryGroupMap = (\n            RefMap() if delivery_group_map is None else delivery_group_map\n        )\n")
v("c05-settle-task-ignores-cancelled", "C05", "FUTURE-EXCEPTION-GUARD", E + "incremental/work_queue.py",
  "                if future.cancelled():\n                    self._push(_TaskFailure(task, CancelledError()))\n                    return\n                error = future.exception()\n",
  "                error = future.exception()\n")
v("c05-settle-task-cancelled-in-try", "C05", "FUTURE-EXCEPTION-GUARD", E + "incremental/work_queue.py",
  "                if future.cancelled():\n                    self._push(_TaskFailure(task, CancelledError()))\n                    return\n                error = future.exception()\n",
  "                try:\n                    error = future.exception()\n                except CancelledError as cancelled:\n                    self._push(_TaskFailure(task, cancelled))\n                    return\n",
  expect="silent")

# -- unfix variant of 304bda6 --------------------------------------------------------------------------------
v("c20-unfix-default-on-output-typed-field", "C20", "SCHEMA-VALIDATION-TOTAL", U + "validate_input_value.py",
  "            elif is_input_type(field.type):\n", "            else:\n")

# -- round 5: C14 ------------------------------------------------------------------------------------------
v("c14-fragments-compared-pairwise", "C14", "ALL-PAIRS", OF,
  "            for other_fragment_spread in fragment_spreads[i + 1 :]:\n", "            for other_fragment_spread in fragment_spreads[i + 1 : i + 2]:\n")
v("c14-fragments-compared-by-combinations", "C14", "ALL-PAIRS", OF,
  "            for other_fragment_spread in fragment_spreads[i + 1 :]:\n", "            for other_fragment_spread in fragment_spreads[1 + i :]:\n", expect="silent")
v("c14-field-map-bare-read", "C14", "SHARED-MAP-READS", OF,
  "        fields2 = field_map2.get(response_name)\n        if fields2:\n", "        fields2 = field_map2[response_name] if field_map2 else None\n        if fields2:\n")
v("c14-field-map-read-after-membership", "C14", "SHARED-MAP-READS", OF,
  "        fields2 = field_map2.get(response_name)\n        if fields2:\n", "        if response_name in field_map2:\n            fields2 = field_map2[response_name]\n        else:\n            fields2 = None\n        if fields2:\n", expect="silent")

# -- round 5: C15 ------------------------------------------------------------------------------------------
v("c15-unprovided-variable-decided-by-default-only", "C15", "FIELD-REQUIREDNESS", U + "validate_input_value.py",
  "                    elif value is Undefined and not is_required_input_field(field):\n", "                    elif value is Undefined and field.default is not None:\n")
v("c15-enum-literal-from-internal-value", "C15", "ENUM-DIRECTION", T + "definition.py",
  "        if isinstance(value, str) and self.values.get(value):\n            return EnumValueNode(value=value)\n        return None\n",
  "        name = self._value_lookup.get(value) if isinstance(value, str) else None\n        if name is None and isinstance(value, str) and self.values.get(value):\n            name = value\n        return None if name is None else EnumValueNode(value=name)\n")

# -- round 5: C16 ------------------------------------------------------------------------------------------
v("c16-id-string-canonicalised", "C16", "STR-VERBATIM", T + "scalars.py",
  "def coerce_id(input_value: Any) -> str:\n    if isinstance(input_value, str):\n        return input_value\n",
  "def coerce_id(input_value: Any) -> str:\n    if isinstance(input_value, str):\n        return input_value.strip()\n")
v("c16-string-input-refuses-surrogates", "C16", "STR-VERBATIM", T + "scalars.py",
  "            \"String cannot represent a non string value: \" + inspect(input_value)\n        )\n    return input_value\n",
  "            \"String cannot represent a non string value: \" + inspect(input_value)\n        )\n    if not input_value.isprintable():\n        raise GraphQLError(\"String cannot represent value: \" + inspect(input_value))\n    return input_value\n")
v("c16-id-str-arm-guard-clause", "C16", "STR-VERBATIM", T + "scalars.py",
  "def coerce_id(input_value: Any) -> str:\n    if isinstance(input_value, str):\n        return input_value\n    if isinstance(input_value, (int, float)) and not isinstance(input_value, bool):\n        return coerce_id_from_number(input_value)\n    raise GraphQLError(\"ID cannot represent value: \" + inspect(input_value))\n",
  "def coerce_id(input_value: Any) -> str:\n    is_text = isinstance(input_value, str)\n    if not is_text:\n        if isinstance(input_value, (int, float)) and not isinstance(input_value, bool):\n            return coerce_id_from_number(input_value)\n        raise GraphQLError(\"ID cannot represent value: \" + inspect(input_value))\n    return input_value\n",
  expect="silent")

# -- unfix variant of 7e103a9 ---------------------------------------------------------------------------------
v("c01-unfix-natural-compare-int", "C01", "STR-TOTAL", "src/graphql/pyutils/natural_compare.py",
  "        (*numeric_order(part), part) if is_digit else part\n", "        (int(part), part) if is_digit else part\n")

# -- round 5: C01 ------------------------------------------------------------------------------------------
v("c01-returned-base-exception-reraised", "C01", "RAISED-VALUE-CLASS", E + "executor.py",
  "        if isinstance(result, Exception):\n            raise result\n", "        if isinstance(result, BaseException):\n            raise result\n")
v("c01-returned-exception-test-in-local", "C01", "RAISED-VALUE-CLASS", E + "executor.py",
  "        if isinstance(result, Exception):\n            raise result\n", "        is_error = isinstance(result, Exception)\n        if is_error:\n            raise result\n", expect="silent")

# -- round 5: C09 / C08 --------------------------------------------------------------------------------------
v("c09-name-continue-by-unicode-regex", "C09", "LEXER-ASCII", L + "lexer.py",
  "        while position < body_length:\n            char = body[position]\n            if not is_name_continue(char):\n                break\n            position += 1\n\n        return self.create_token(TokenKind.NAME,",
  "        import re\n\n        position = re.compile(r\"\\w*\").match(body, position).end()  # type: ignore\n        return self.create_token(TokenKind.NAME,")
v("c09-name-continue-by-ascii-regex", "C09", "LEXER-ASCII", L + "lexer.py",
  "        while position < body_length:\n            char = body[position]\n            if not is_name_continue(char):\n                break\n            position += 1\n\n        return self.create_token(TokenKind.NAME,",
  "        import re\n\n        position = re.compile(r\"[_0-9A-Za-z]*\").match(body, position).end()  # type: ignore\n        return self.create_token(TokenKind.NAME,",
  expect="silent")
v("c09-cr-at-end-indexes-past-the-source", "C09", "LEX-BOUNDS", L + "lexer.py",
  "                if body[position + 1 : position + 2] == \"\\n\":\n                    position += 2\n                else:\n                    position += 1\n                self.line += 1\n",
  "                position += 1\n                if body[position] == \"\\n\":\n                    position += 1\n                self.line += 1\n")
v("c08-trailing-triple-quotes-from-raw-value", "C08", "BLOCK-PRINT-TABLE", L + "block_string.py",
  "    has_trailing_triple_quotes = escaped_value.endswith('\\\\\"\"\"')\n", "    has_trailing_triple_quotes = value.endswith('\"\"\"')\n")
v("c08-trailing-backslash-parity", "C08", "BLOCK-PRINT-TABLE", L + "block_string.py",
  "    has_trailing_slash = value.endswith(\"\\\\\")\n", "    has_trailing_slash = (len(value) - len(value.rstrip(\"\\\\\"))) % 2 == 1\n")
v("c08-int-literal-respelled", "C08", "LEAF-VERBATIM", L + "printer.py",
  "    def leave_int_value(node: PrintedNode, *_args: Any) -> str:\n        return node.value\n", "    def leave_int_value(node: PrintedNode, *_args: Any) -> str:\n        return str(int(node.value))\n")
v("c08-type-definition-helper-wrong-order", "C08", "ORDER-AGREE", L + "printer.py",
  "                \"type\",\n                node.name,\n                wrap(\"implements \", join(node.interfaces, \" & \")),\n                join(node.directives, \" \"),\n                block(node.fields),\n",
  "                \"type\",\n                node.name,\n                join(node.directives, \" \"),\n                wrap(\"implements \", join(node.interfaces, \" & \")),\n                block(node.fields),\n")
v("c08-scalar-definition-through-helper", "C08", "PRINTER-COVERAGE", L + "printer.py",
  "    def leave_scalar_type_definition(node: PrintedNode, *_args: Any) -> str:\n        return wrap(\"\", node.description, \"\\n\") + join(\n            (\n                \"scalar\",\n                node.name,\n                join(node.directives, \" \"),\n            ),\n            \" \",\n        )\n",
  "    def leave_scalar_type_definition(node: PrintedNode, *_args: Any) -> str:\n        return _definition(\"scalar\", node)\n",
  expect="silent", extra_edits=[{"file": L + "printer.py", "old": "def block(strings: Strings | None) -> str:",
  "new": "def _definition(keyword: str, node: PrintedNode, *parts: str) -> str:\n    return wrap(\"\", node.description, \"\\n\") + join(\n        (keyword, node.name, join(node.directives, \" \"), *parts), \" \"\n    )\n\n\ndef block(strings: Strings | None) -> str:"}])

# -- round 5: C20 (and unfix of 3e32c89) -------------------------------------------------------------------------
v("c20-unfix-malformed-transitive-interface", "C20", "UNVALIDATED-ELEMENT", T + "validate.py",
  "            if is_interface_type(transitive) and transitive not in type_interfaces:\n", "            if transitive not in type_interfaces:\n")
v("c20-transitive-check-guard-clause", "C20", "UNVALIDATED-ELEMENT", T + "validate.py",
  "            if is_interface_type(transitive) and transitive not in type_interfaces:\n", "            if not is_interface_type(transitive):\n                continue\n            if transitive not in type_interfaces:\n",
  expect="silent")
v("c20-required-deprecated-by-truthiness", "C20", "OPTIONAL-TRUTHINESS", T + "validate.py",
  "                if is_required_argument(arg) and arg.deprecation_reason is not None:\n", "                if is_required_argument(arg) and arg.deprecation_reason:\n")
v("c20-sdl-flag-becomes-schema-flag", "C20", "ASSUME-VALID-FRESH", U + "build_ast_schema.py",
  "        empty_schema_kwargs, document_ast, assume_valid\n", "        empty_schema_kwargs, document_ast, assume_valid or assume_valid_sdl\n")

# -- round 5: C19 ------------------------------------------------------------------------------------------
v("c19-empty-description-dropped-in-kwargs", "C19", "OPTIONAL-TRUTHINESS", T + "definition.py",
  "            name=self.name,\n            description=self.description,\n            extensions=self.extensions,\n            ast_node=self.ast_node,\n            extension_ast_nodes=self.extension_ast_nodes,\n",
  "            name=self.name,\n            description=self.description or None,\n            extensions=self.extensions,\n            ast_node=self.ast_node,\n            extension_ast_nodes=self.extension_ast_nodes,\n")
v("c19-extension-input-fields-built-eagerly", "C19", "LAZY-THUNKS", U + "extend_schema.py",
  "                return merge_kwargs(\n                    config,\n                    fields=lambda: {\n                        **config[\"fields\"](),\n                        **build_input_field_map(extensions),\n                    },\n",
  "                extension_fields = build_input_field_map(extensions)\n                return merge_kwargs(\n                    config,\n                    fields=lambda: {**config[\"fields\"](), **extension_fields},\n")
v("c19-sorted-input-fields-eager", "C19", "LAZY-THUNKS", U + "lexicographic_sort_schema.py",
  "                    \"fields\": lambda: sort_obj_map(config[\"fields\"]()),\n                },\n                SchemaElementKind.DIRECTIVE:",
  "                    \"fields\": sort_obj_map(config[\"fields\"]()),\n                },\n                SchemaElementKind.DIRECTIVE:")
v("c19-extension-thunk-as-local-def", "C19", "LAZY-THUNKS", U + "extend_schema.py",
  "                return merge_kwargs(\n                    config,\n                    fields=lambda: {\n                        **config[\"fields\"](),\n                        **build_input_field_map(extensions),\n                    },\n",
  "                def fields() -> dict:\n                    return {**config[\"fields\"](), **build_input_field_map(extensions)}\n\n                return merge_kwargs(\n                    config,\n                    fields=fields,\n",
  expect="silent")

# -- round 5: C02 ------------------------------------------------------------------------------------------
v("c02-leaf-shortcut-for-native-types", "C02", "LEAF-COERCED", E + "executor.py",
  "        coerced = return_type.coerce_output_value(result)\n        if coerced is Undefined or coerced is None:\n",
  "        if type(result) is str and return_type.name == \"String\":\n            return result\n        coerced = return_type.coerce_output_value(result)\n        if coerced is Undefined or coerced is None:\n")
v("c02-unknown-input-field-by-count", "C02", "SIBLING-ATOMS", U + "coerce_input_value.py",
  "            if field_name not in fields:\n                return Undefined  # Invalid: intentionally return no value.\n", "")

# -- round 5: C07 ------------------------------------------------------------------------------------------
v("c07-root-field-looked-up-by-response-key", "C07", "FIELD-LOOKUP-NAME", E + "execute.py",
  "    field_def = schema.get_field(root_type, field_name)\n", "    field_def = schema.get_field(root_type, response_name)\n")
v("c07-stream-decided-by-iterator-class", "C07", "STREAM-PREDICATE", E + "execute.py",
  "        if executor.is_async_iterable(result_or_stream)\n        else result_or_stream\n", "        if hasattr(result_or_stream, \"__anext__\")\n        else result_or_stream\n")
v("c07-exception-payload-raised", "C07", "PER-EVENT-PURE", E + "execute.py",
  "    return cast(\"AwaitableOrValue[ExecutionResult]\", executor.execute_operation(False))\n",
  "    if isinstance(executor.root_value, Exception):\n        raise executor.root_value\n    return cast(\"AwaitableOrValue[ExecutionResult]\", executor.execute_operation(False))\n")

# -- round 5: C10 ------------------------------------------------------------------------------------------
LOC = "src/graphql/language/"
v("c10-excerpt-rstripped", "C10", "EXCERPT-VERBATIM", LOC + "print_location.py",
  "        prefix.rjust(pad_len) + (\" \" + line if line else \"\")\n", "        (prefix.rjust(pad_len) + \" \" + (line or \"\")).rstrip()\n")
v("c10-lexer-starts-at-location-offset", "C10", "OFFSET-OWNERS", LOC + "lexer.py",
  "        self.line, self.line_start = 1, 0\n", "        self.line, self.line_start = source.location_offset.line, 1 - source.location_offset.column\n")
v("c10-formatted-location-memoised", "C10", "CACHED-MUTABLE-RESULT", LOC + "location.py",
  "class SourceLocation(NamedTuple):", "from functools import lru_cache\n\n\n@lru_cache(maxsize=4096)\ndef _formatted(line: int, column: int) -> FormattedSourceLocation:\n    return {\"line\": line, \"column\": column}\n\n\nclass SourceLocation(NamedTuple):")

# -- round 5: C11 ------------------------------------------------------------------------------------------
v("c11-result-equal-to-node-not-recorded", "C11", "APPEND-CONDITIONS", L + "visitor.py",
  "                elif result is not None:\n                    edits.append((key, result))\n", "                elif result is not None and result is not node:\n                    edits.append((key, result))\n")
v("c11-rebuilt-node-not-recorded-after-replacement", "C11", "APPEND-CONDITIONS", L + "visitor.py",
  "        if result is None and is_edited:\n            edits.append((key, node))\n", "        if result is None and is_edited:\n            if not edits or edits[-1][0] != key:\n                edits.append((key, node))\n")
v("c11-root-test-by-ancestors", "C11", "ROOT-EXIT", L + "visitor.py",
  "                        if not stack:\n                            break  # the root node itself was skipped\n", "                        if not ancestors:\n                            break  # the root node itself was skipped\n")
v("c11-nested-parallel-flattened-and-kept", "C11", "PARALLEL-MEMBERS", L + "visitor.py",
  "        self.visitors = visitors\n        self.skipping: list[Any] = [None] * len(visitors)\n",
  "        flat: list[Visitor] = []\n        for visitor in visitors:\n            if isinstance(visitor, ParallelVisitor):\n                flat.extend(visitor.visitors)\n            flat.append(visitor)\n        self.visitors = flat\n        self.skipping: list[Any] = [None] * len(flat)\n")
v("c11-parallel-members-copied", "C11", "PARALLEL-MEMBERS", L + "visitor.py",
  "        self.visitors = visitors\n        self.skipping: list[Any] = [None] * len(visitors)\n",
  "        self.visitors = tuple(visitors)\n        self.skipping: list[Any] = [None] * len(self.visitors)\n", expect="silent")

# -- round 5: C13 ------------------------------------------------------------------------------------------
v("c13-omitted-optional-variable-stops-coercion", "C13", "INDEPENDENT-KEYS", E + "values.py",
  "                # Non-provided values for nullable variables are omitted.\n                continue\n", "                # Non-provided values for nullable variables are omitted.\n                break\n")
v("c13-literal-validation-returns-in-field-loop", "C13", "VALIDATOR-EXHAUSTIVE", U + "validate_input_value.py",
  "                if isinstance(field_value_node, VariableNode) and not context.static:\n", "                if isinstance(field_value_node, VariableNode) and context.static:\n                    return\n                if isinstance(field_value_node, VariableNode) and not context.static:\n")

# -- round 5: C06 ------------------------------------------------------------------------------------------
v("c06-nulled-groups-filtered-not-aborted", "C06", "NULLED-ABORTED", E + "incremental/incremental_executor.py",
  "            if has_nulled_position(task.path):\n                self.settle_abort_result(task.computation.abort(cancellation_reason))\n            else:\n                filtered_tasks.append(task)\n",
  "            if not has_nulled_position(task.path):\n                filtered_tasks.append(task)\n")
v("c06-hook-waits-once", "C06", "HOOK-AFTER-DRAIN", E + "executor.py",
  "            while background_futures:\n                await wait(list(background_futures))\n", "            await wait(list(background_futures))\n")
v("c06-hook-waits-until-empty-other-spelling", "C06", "HOOK-AFTER-DRAIN", E + "executor.py",
  "            while background_futures:\n                await wait(list(background_futures))\n", "            while len(background_futures) > 0:\n                await wait(list(background_futures))\n", expect="silent")
v("c06-wrapper-closes-the-iterable", "C06", "CLOSE-WHAT-YOU-ADVANCE", E + "executor.py",
  "                aclose = getattr(iterator, \"aclose\", None)\n", "                aclose = getattr(iterable, \"aclose\", None)\n")
v("c06-cleanup-settles-only-with-live-producer", "C06", "CLEANUP-SETTLES", E + "incremental/stream_item_queue.py",
  "            await gather(producer_task, return_exceptions=True)\n        await self._settle_pending()\n        on_abort = self._on_abort\n", "            await gather(producer_task, return_exceptions=True)\n            await self._settle_pending()\n        on_abort = self._on_abort\n")

# -- round 5: C03 ------------------------------------------------------------------------------------------
v("c03-awaited-falsy-leaf-becomes-null", "C03", "NULL-BY-IDENTITY", E + "executor.py",
  "            resolved = await self.with_abort_signal(result)\n", "            resolved = await self.with_abort_signal(result)\n            if not resolved and is_leaf_type(return_type):\n                return None\n")

# -- round 5: C18 ------------------------------------------------------------------------------------------
v("c18-depth-rule-counts-enum-values", "C18", "DEPTH-LISTS", V + "rules/max_introspection_depth_rule.py",
  "            \"possibleTypes\",\n            \"inputFields\",\n", "            \"possibleTypes\",\n            \"enumValues\",\n            \"inputFields\",\n")
v("c18-deprecation-check-symmetric", "C18", "DEPRECATION-DIRECTION", T + "validate.py",
  "            if (\n                type_field.deprecation_reason is not None\n                and iface_field.deprecation_reason is None\n            ):\n",
  "            if (type_field.deprecation_reason is None) != (iface_field.deprecation_reason is None):\n")
v("c18-deprecation-check-named-flags", "C18", "DEPRECATION-DIRECTION", T + "validate.py",
  "            if (\n                type_field.deprecation_reason is not None\n                and iface_field.deprecation_reason is None\n            ):\n",
  "            field_deprecated = type_field.deprecation_reason is not None\n            iface_deprecated = iface_field.deprecation_reason is not None\n            if field_deprecated and not iface_deprecated:\n",
  expect="silent")
v("c18-type-lookup-falls-back-to-builtins", "C18", "TYPE-LOOKUP", T + "introspection.py",
  "        return info.schema.get_type(args[\"name\"])\n", "        return info.schema.get_type(args[\"name\"]) or specified_scalar_types.get(args[\"name\"])\n",
  extra_edits=[{"file": T + "introspection.py", "old": "from .scalars import GraphQLBoolean, GraphQLString\n", "new": "from .scalars import GraphQLBoolean, GraphQLString, specified_scalar_types\n"}])

# -- round 5: C05 ------------------------------------------------------------------------------------------
v("c05-pump-waits-only-for-items-with-work", "C05", "PUMP-PACING", E + "incremental/work_queue.py",
  "                    await handled.wait()\n", "                    if any(item.work for item in items):\n                        await handled.wait()\n")
v("c05-drain-of-failed-source-unshielded", "C05", "DRAIN-GUARDED", E + "executor.py",
  "    awaitables: list[Awaitable[Any]] = []\n    with suppress_exceptions:\n        awaitables.extend(item for item in iterator if is_awaitable(item))\n    return awaitables\n",
  "    return [item for item in iterator if is_awaitable(item)]\n")
v("c05-drain-in-try", "C05", "DRAIN-GUARDED", E + "executor.py",
  "    awaitables: list[Awaitable[Any]] = []\n    with suppress_exceptions:\n        awaitables.extend(item for item in iterator if is_awaitable(item))\n    return awaitables\n",
  "    awaitables: list[Awaitable[Any]] = []\n    try:\n        for item in iterator:\n            if is_awaitable(item):\n                awaitables.append(item)\n    except Exception:  # noqa: BLE001\n        pass\n    return awaitables\n",
  expect="silent")
v("c05-prune-considers-undelivered-tasks", "C05", "PRUNE-UNDELIVERED", E + "incremental/work_queue.py",
  "                if new_group_node.pending:\n                    non_empty_new_groups.append(new_group)\n",
  "                if new_group_node.pending or (\n                    new_group_node.tasks and new_group_node.child_groups\n                ):\n                    non_empty_new_groups.append(new_group)\n",
  expect="silent")

# -- round 5: C17 ------------------------------------------------------------------------------------------
v("c17-reserved-enum-names-lost-commas", "C17", "IMPLICIT-CONCAT", L + "parser.py",
  "        if self._lexer.token.value in (\"true\", \"false\", \"null\"):\n", "        if self._lexer.token.value in (\n            \"true\"\n            \"false\"\n            \"null\"\n        ):\n")
v("c17-nul-escape-rejected", "C17", "ESCAPE-RANGE", L + "lexer.py",
  "        if 0 <= code <= 0xD7FF or 0xE000 <= code <= 0x10FFFF:\n", "        if 0 < code <= 0xD7FF or 0xE000 <= code <= 0x10FFFF:\n")
v("c17-block-string-rejects-c0-controls", "C17", "BLOCK-CHARSET", L + "lexer.py",
  "            if is_unicode_scalar_value(char):\n                position += 1\n            elif is_supplementary_code_point(body, position):\n                position += 2\n            else:\n                raise GraphQLSyntaxError(\n                    self.source,\n                    position,\n                    \"Invalid character within String:\"\n                    f\" {self.print_code_point_at(position)}.\",\n                )\n\n        raise GraphQLSyntaxError(self.source, position, \"Unterminated string.\")\n\n    def read_name",
  "            if is_unicode_scalar_value(char) and (char >= \" \" or char == \"\\t\"):\n                position += 1\n            elif is_supplementary_code_point(body, position):\n                position += 2\n            else:\n                raise GraphQLSyntaxError(\n                    self.source,\n                    position,\n                    \"Invalid character within String:\"\n                    f\" {self.print_code_point_at(position)}.\",\n                )\n\n        raise GraphQLSyntaxError(self.source, position, \"Unterminated string.\")\n\n    def read_name")

# -- round 6 -------------------------------------------------------------------------------------------------
v("c08-list-layout-by-source-extent", "C08", "PRINTER-COVERAGE", L + "printer.py",
  "        values = node.values\n        values_line = f\"[{join(values, ', ')}]\"\n",
  "        values = node.values\n        if node.loc and node.loc.end - node.loc.start <= 80:\n            return f\"[{join(values, ', ')}]\"\n        values_line = f\"[{join(values, ', ')}]\"\n")
v("c18-directives-tested-after-visited-mark", "C18", "VISITED-COLLECTED", E + "collect_fields.py",
  "            frag_name = selection.name.value\n\n            if not should_include_node(\n                context, selection, variable_values, fragment_variable_values\n            ):\n                continue\n\n            fragment = fragments.get(frag_name)\n",
  "            frag_name = selection.name.value\n\n            fragment = fragments.get(frag_name)\n",
  extra_edits=[{"file": E + "collect_fields.py",
                "old": "                maybe_new_defer_usage = new_defer_usage\n\n            fragment_variable_signatures = fragment.variable_signatures\n",
                "new": "                maybe_new_defer_usage = new_defer_usage\n\n            if not should_include_node(\n                context, selection, variable_values, fragment_variable_values\n            ):\n                continue\n\n            fragment_variable_signatures = fragment.variable_signatures\n"}])
v("c06-cleanup-raises-flag-after-callback", "C06", "ONCE-FLAG-FIRST", E + "incremental/stream_item_queue.py",
  "        \"\"\"Cancel all pending work, awaiting it, and run the abort callback.\"\"\"\n        self._aborted = True\n        producer_task = self._producer_task\n",
  "        \"\"\"Cancel all pending work, awaiting it, and run the abort callback.\"\"\"\n        producer_task = self._producer_task\n",
  extra_edits=[{"file": E + "incremental/stream_item_queue.py",
                "old": "            cleanup = on_abort(reason)\n            if is_awaitable(cleanup):\n                await cleanup\n",
                "new": "            cleanup = on_abort(reason)\n            if is_awaitable(cleanup):\n                await cleanup\n        self._aborted = True\n"}])
v("c06-nulled-response-skips-work-collection", "C06", "NULLED-ABORTED", E + "incremental/incremental_executor.py",
  "        work = self.get_incremental_work()\n        if not work.tasks and not work.streams:\n            return super().build_response(data)\n",
  "        if data is None:\n            return super().build_response(data)\n        work = self.get_incremental_work()\n        if not work.tasks and not work.streams:\n            return super().build_response(data)\n")
v("c03-async-rows-completed-at-field-path", "C03", "PATH-THREAD", E + "executor.py",
  "                info,\n                path,\n                async_iterator,\n", "                info,\n                info.path,\n                async_iterator,\n")
v("c02-null-item-shortcut-skips-index", "C02", "LOOP-COUNTER", E + "executor.py",
  "                # No need to modify the info object containing the path,\n                # since from here on it is not ever accessed by resolver functions.\n                item_path = path.add_key(index, None)\n",
  "                if item is None and not is_non_null_type(item_type):\n                    append_completed(None)\n                    continue\n                item_path = path.add_key(index, None)\n")
v("c11-skip-marker-is-depth", "C11", "SKIP-SLOT", L + "visitor.py",
  "                                skipping[i] = node\n", "                                skipping[i] = len(args[2])\n",
  extra_edits=[{"file": L + "visitor.py", "old": "                        elif skipping[i] is node:\n", "new": "                        elif skipping[i] == len(args[2]):\n"}])
v("c11-skip-marker-through-local", "C11", "SKIP-SLOT", L + "visitor.py",
  "                                skipping[i] = node\n", "                                skipped_at = node\n                                skipping[i] = skipped_at\n",
  expect="silent")
v("c19-sorted-field-drops-deprecated-args", "C19", "SORT-PERMUTES", U + "lexicographic_sort_schema.py",
  "                SchemaElementKind.FIELD: lambda config, *_args: {\n                    **config,\n                    \"args\": sort_obj_map(config[\"args\"]),\n",
  "                SchemaElementKind.FIELD: lambda config, *_args: {\n                    **config,\n                    \"args\": sort_obj_map(\n                        {k: a for k, a in config[\"args\"].items() if a.deprecation_reason is None}\n                    ),\n")
v("c19-sort-by-name-reversed-slice", "C19", "SORT-PERMUTES", U + "lexicographic_sort_schema.py",
  "    return sort_by(array, lambda obj: obj.name)\n", "    return sort_by(array, lambda obj: obj.name)[:50]\n")
v("c17-field-argument-types-not-followed", "C17", "REFERENCED-COMPLETE", T + "schema.py",
  "                collect_referenced_types(field.type)\n                for arg in field.args.values():\n                    collect_referenced_types(arg.type)\n",
  "                collect_referenced_types(field.type)\n")
v("c17-object-and-interface-branches-split", "C17", "REFERENCED-COMPLETE", T + "schema.py",
  "        elif is_object_type(named_type) or is_interface_type(named_type):\n            for interface_type in named_type.interfaces:\n                collect_referenced_types(interface_type)\n\n            for field in named_type.fields.values():\n                collect_referenced_types(field.type)\n                for arg in field.args.values():\n                    collect_referenced_types(arg.type)\n",
  "        elif is_object_type(named_type):\n            for interface_type in named_type.interfaces:\n                collect_referenced_types(interface_type)\n            for field in named_type.fields.values():\n                collect_referenced_types(field.type)\n                for arg in field.args.values():\n                    collect_referenced_types(arg.type)\n        elif is_interface_type(named_type):\n            for super_type in named_type.interfaces:\n                collect_referenced_types(super_type)\n            for iface_field in named_type.fields.values():\n                collect_referenced_types(iface_field.type)\n                for iface_arg in iface_field.args.values():\n                    collect_referenced_types(iface_arg.type)\n",
  expect="silent")
v("c20-cycle-edge-needs-required-field", "C20", "CYCLE-EDGE", T + "validate.py",
  "            if is_non_null_type(field.type) and is_input_object_type(\n                field.type.of_type\n            ):\n",
  "            if is_required_input_field(field) and is_input_object_type(\n                field.type.of_type\n            ):\n")
v("c20-cycle-edge-named-boolean", "C20", "CYCLE-EDGE", T + "validate.py",
  "            if is_non_null_type(field.type) and is_input_object_type(\n                field.type.of_type\n            ):\n",
  "            non_null = is_non_null_type(field.type)\n            if non_null and is_input_object_type(field.type.of_type):\n",
  expect="silent")
v("c01-value-table-indexed", "C01", "PARSE-RAISES", L + "parser.py",
  "        method_name = self._parse_value_literal_method_names.get(self._lexer.token.kind)\n        if method_name:  # pragma: no cover\n            return getattr(self, f\"parse_{method_name}\")(is_const)\n        raise self.unexpected()  # pragma: no cover\n",
  "        method_name = self._parse_value_literal_method_names[self._lexer.token.kind]\n        return getattr(self, f\"parse_{method_name}\")(is_const)\n")
v("c01-value-table-indexed-after-membership-test", "C01", "PARSE-RAISES", L + "parser.py",
  "        method_name = self._parse_value_literal_method_names.get(self._lexer.token.kind)\n        if method_name:  # pragma: no cover\n            return getattr(self, f\"parse_{method_name}\")(is_const)\n        raise self.unexpected()  # pragma: no cover\n",
  "        kind = self._lexer.token.kind\n        if kind in self._parse_value_literal_method_names:\n            method_name = self._parse_value_literal_method_names[kind]\n            return getattr(self, f\"parse_{method_name}\")(is_const)\n        raise self.unexpected()\n",
  expect="silent")
v("c07-argument-values-memoised-on-executor", "C07", "ARGS-FRESH", E + "executor.py",
  "            args = get_argument_values(\n                field_def,\n                first_field_node,\n                self.variable_values,\n                first_field_details.fragment_variable_values,\n                self.hide_suggestions,\n            )\n",
  "            args = self._argument_values.get(id(first_field_node))\n            if args is None:\n                args = self._argument_values[id(first_field_node)] = get_argument_values(\n                    field_def,\n                    first_field_node,\n                    self.variable_values,\n                    first_field_details.fragment_variable_values,\n                    self.hide_suggestions,\n                )\n")
v("c07-argument-values-through-helper-method", "C07", "ARGS-FRESH", E + "executor.py",
  "            args = get_argument_values(\n                field_def,\n                first_field_node,\n                self.variable_values,\n                first_field_details.fragment_variable_values,\n                self.hide_suggestions,\n            )\n",
  "            args = self.coerce_field_arguments(field_def, first_field_details)\n",
  extra_edits=[{"file": E + "executor.py", "old": "    def build_resolve_info(\n",
                "new": "    def coerce_field_arguments(self, field_def: GraphQLField, details: FieldDetails) -> dict[str, Any]:\n        return get_argument_values(\n            field_def, details.node, self.variable_values, details.fragment_variable_values, self.hide_suggestions\n        )\n\n    def build_resolve_info(\n"}],
  expect="silent")
v("c20-conventional-roots-dropped-with-schema-extension", "C20", "ROOT-NAMES-AGREE", U + "build_ast_schema.py",
  "    if not schema_kwargs[\"ast_node\"]:\n", "    if not (schema_kwargs[\"ast_node\"] or schema_kwargs[\"extension_ast_nodes\"]):\n")
v("c20-conventional-roots-test-through-local", "C20", "ROOT-NAMES-AGREE", U + "build_ast_schema.py",
  "    if not schema_kwargs[\"ast_node\"]:\n", "    schema_def = schema_kwargs[\"ast_node\"]\n    if schema_def is None:\n",
  expect="silent")
v("c09-leading-zero-test-in-helper", "C09", "NUMBER-PARTS", L + "lexer.py",
  "        if char == \"0\":\n            position += 1\n            char = body[position : position + 1]\n            if is_digit(char):\n                raise GraphQLSyntaxError(\n                    self.source,\n                    position,\n                    \"Invalid number, unexpected digit after 0:\"\n                    f\" {self.print_code_point_at(position)}.\",\n                )\n        else:\n            position = self.read_digits(position, char)\n            char = body[position : position + 1]\n        if char == \".\":\n",
  "        position = self.read_integer(position, char)\n        char = body[position : position + 1]\n        if char == \".\":\n",
  extra_edits=[{"file": L + "lexer.py", "old": "    def read_digits(self, start: int, first_char: str) -> int:\n",
                "new": "    def read_integer(self, start: int, first_char: str) -> int:\n        if first_char != \"0\":\n            return self.read_digits(start, first_char)\n        position = start + 1\n        if is_digit(self.source.body[position : position + 1]):\n            raise GraphQLSyntaxError(\n                self.source,\n                position,\n                \"Invalid number, unexpected digit after 0:\"\n                f\" {self.print_code_point_at(position)}.\",\n            )\n        return position\n\n    def read_digits(self, start: int, first_char: str) -> int:\n"}],
  expect="silent")
v("c15-directive-slot-never-reset", "C15", "TYPEINFO-BALANCE", U + "type_info.py",
  "    def leave_directive(self) -> None:\n        self._directive = None\n", "    def leave_directive(self) -> None:\n        pass\n")
v("c07-foreign-nodes-attribute-trusted", "C07", "UNTRUSTED-ATTR", "src/graphql/error/located_error.py",
  "        if is_node_collection(original_nodes):\n            nodes = original_nodes or nodes\n", "        nodes = original_nodes or nodes\n")
v("c16-int-input-range-by-bit-length", "C16", "DOMAIN-GUARDS", T + "scalars.py",
  "def coerce_int(input_value: Any) -> int:\n    if isinstance(input_value, (int, float)) and not isinstance(input_value, bool):\n        return coerce_int_from_number(input_value)\n",
  "def coerce_int(input_value: Any) -> int:\n    if isinstance(input_value, int) and not isinstance(input_value, bool) and input_value.bit_length() <= 31:\n        return int(input_value)\n    if isinstance(input_value, float):\n        return coerce_int_from_number(input_value)\n")
v("c14-wrappers-stripped-wholesale", "C14", "WRAPPER-PAIRING", V + "rules/overlapping_fields_can_be_merged.py",
  "    if is_list_type(type1):\n        return (\n            do_types_conflict(type1.of_type, type2.of_type)\n            if is_list_type(type2)\n            else True\n        )\n    if is_list_type(type2):\n        return True\n    if is_non_null_type(type1):\n        return (\n            do_types_conflict(type1.of_type, type2.of_type)\n            if is_non_null_type(type2)\n            else True\n        )\n    if is_non_null_type(type2):\n        return True\n",
  "    if is_non_null_type(type1) != is_non_null_type(type2) or is_list_type(type1) != is_list_type(type2):\n        return True\n    type1 = get_named_type(type1)\n    type2 = get_named_type(type2)\n")

# -- round 7 ---------------------------------------------------------------------------------------------------
v("c06-flag-before-wait", "C06", "FLAG-THEN-CANCEL", E + "incremental/stream_item_queue.py",
  "            pending = [future for future in self._pending_futures if not future.done()]\n            if pending:\n                await gather(*pending, return_exceptions=True)\n            self._aborted = True\n",
  "            self._aborted = True\n            pending = [future for future in self._pending_futures if not future.done()]\n            if pending:\n                await gather(*pending, return_exceptions=True)\n")
v("c09-advance-through-alias", "C09", "TOKEN-COUNT", L + "parser.py",
  "        token = self._lexer.token\n        if token.kind == TokenKind.NAME and token.value == value:\n            self.advance_lexer()\n            return True",
  "        lexer = self._lexer\n        token = lexer.token\n        if token.kind == TokenKind.NAME and token.value == value:\n            lexer.advance()\n            return True")
v("c20-assume-valid-rebound", "C20", "ASSUME-VALID-FRESH", U + "build_ast_schema.py",
  "    if not (assume_valid or assume_valid_sdl):", "    assume_valid = assume_valid or assume_valid_sdl\n    if not assume_valid:")
v("ok-c12-limit-in-local", "C12", "LIMIT", V + "validate.py",
  "        if len(errors) >= max_errors:", "        if len(errors) >= error_limit:",
  extra_edits=[{"file": V + "validate.py", "old": "    if max_errors is None:\n        max_errors = 100\n", "new": "    error_limit = 100 if max_errors is None else max_errors\n"}], expect="silent")
