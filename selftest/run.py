#!/venv/bin/python
"""Sensitivity self-test: each variant is a single edit of the real sources (still valid Python)
that breaks one rule instance; the named check must exit 1 and report the expected rule.
Variants are applied to a scratch copy outside /repo and /verif, removed afterwards.

usage: selftest/run.py [--only SUBSTR] [--jobs N] [--seeded]   (exit 0 iff every variant is caught)
"""
from __future__ import annotations

import argparse
import concurrent.futures as cf
import json
import os
import shutil
import subprocess
import sys
import tempfile
from pathlib import Path

HERE = Path(__file__).resolve().parent
VERIF = HERE.parent
sys.path.insert(0, str(HERE))
sys.dont_write_bytecode = True


def run_variant(v: dict, base: str) -> dict:
    tmp = tempfile.mkdtemp(prefix="verif-selftest-", dir=base)
    try:
        root = Path(tmp) / "repo"
        shutil.copytree("/repo/src/graphql", root / "src" / "graphql",
                        ignore=shutil.ignore_patterns("__pycache__"))
        for edit in v["edits"]:
            p = root / edit["file"]
            s = p.read_text()
            if s.count(edit["old"]) < 1:
                return {"id": v["id"], "status": "STALE", "detail": f"fragment not found in {edit['file']}"}
            s = s.replace(edit["old"], edit["new"], edit.get("count", 1))
            compile(s, str(p), "exec")
            p.write_text(s)
        env = dict(os.environ, VERIF_REPO=str(root), VERIF_EVIDENCE_DIR=str(Path(tmp) / "evidence"))
        r = subprocess.run([str(VERIF / "check"), v["property"]], capture_output=True, text=True, env=env, cwd=VERIF)
        out = r.stdout + r.stderr
        want_rule = v.get("rule")
        caught = r.returncode == 1 and "VIOLATION property=" in out and (not want_rule or f": {want_rule}:" in out)
        if v.get("expect") == "silent":
            ok = r.returncode == 0
            return {"id": v["id"], "status": "OK" if ok else "FALSE-ALARM", "detail": out[-400:] if not ok else ""}
        return {"id": v["id"], "status": "CAUGHT" if caught else f"MISSED(exit {r.returncode})",
                "detail": "" if caught else out[-600:]}
    finally:
        shutil.rmtree(tmp, ignore_errors=True)


def main() -> int:
    ap = argparse.ArgumentParser()
    ap.add_argument("--only", default="")
    ap.add_argument("--jobs", type=int, default=16)
    ap.add_argument("--json", default="")
    args = ap.parse_args()
    from variants import VARIANTS

    vs = [v for v in VARIANTS if args.only in v["id"] or args.only == v["property"]]
    base = tempfile.mkdtemp(prefix="verif-selftest-base-")
    try:
        with cf.ThreadPoolExecutor(args.jobs) as ex:
            results = list(ex.map(lambda v: run_variant(v, base), vs))
    finally:
        shutil.rmtree(base, ignore_errors=True)
    bad = 0
    for r in results:
        good = r["status"] in ("CAUGHT", "OK")
        bad += not good
        print(f"{r['status']:12} {r['id']}")
        if not good:
            print("    " + r["detail"].replace("\n", "\n    "))
    print(f"{len(results) - bad}/{len(results)} variants behaved as expected")
    if args.json:
        json.dump(results, open(args.json, "w"), indent=1)
    return 1 if bad else 0


if __name__ == "__main__":
    sys.exit(main())
