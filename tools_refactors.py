#!/venv/bin/python
"""False-alarm probe: behaviour-preserving refactorings written by independent sub-agents.

usage: tools_refactors.py <dir-with-r*/patch.diff> <tag>        (e.g. /tmp/wt-rf1/refactors rf1)
       tools_refactors.py stored                                 (re-run every stored refactoring)
For each refactoring: scratch worktree of /repo HEAD (outside /repo and /verif), `git apply`, then ALL
checks with VERIF_REPO pointing at the patched tree. A refactoring keeps the suite green and leaves the
behaviour unchanged (asserted by the agent that wrote it and spot-checked by reading), so every
VIOLATION line is a false alarm of a rule and every ANALYSIS-ERROR (exit 2) is an anchor that is too
brittle.  The refactoring is stored under /verif/refactors/<tag>-<k>/ with the outcome (result.json).
"""
import concurrent.futures as cf
import json
import os
import shutil
import subprocess
import sys
import tempfile
from pathlib import Path

VERIF = Path(__file__).resolve().parent
PROPS = [f"C{i:02d}" for i in range(1, 21) if i != 4]


def sh(cmd, cwd=None, env=None, timeout=900):
    r = subprocess.run(cmd, shell=True, cwd=cwd, env=env, capture_output=True, text=True, timeout=timeout)
    return r.returncode, r.stdout + r.stderr


def run_checks(wt: str) -> dict:
    def one(p):
        ev = tempfile.mkdtemp(prefix="verif-ev-")
        try:
            rc, out = sh(f"{VERIF}/check {p}", cwd=VERIF, env=dict(os.environ, VERIF_REPO=wt, VERIF_EVIDENCE_DIR=ev))
        finally:
            shutil.rmtree(ev, ignore_errors=True)
        lines = [l[:400] for l in out.splitlines() if l.startswith("src/") or "ANALYSIS-ERROR" in l]
        return p, {"exit": rc, "lines": lines[:8]}

    with cf.ThreadPoolExecutor(8) as ex:
        return dict(ex.map(one, PROPS))


def main():
    if len(sys.argv) < 2:
        print(__doc__)
        return 2
    if sys.argv[1] == "stored":
        only = sys.argv[2] if len(sys.argv) > 2 else ""
        items = [(d.name, d) for d in sorted((VERIF / "refactors").iterdir()) if (d / "patch.diff").exists() and only in d.name]
    else:
        src, tag = Path(sys.argv[1]), sys.argv[2]
        items = [(f"{tag}-{d.name[1:]}", d) for d in sorted(src.glob("r*")) if (d / "patch.diff").exists()]
    wt = tempfile.mkdtemp(prefix="verif-refcheck-")
    os.rmdir(wt)
    rc, out = sh(f"git -C /repo worktree add -q --detach {wt} HEAD")
    assert rc == 0, out
    bad = 0
    skipped = 0
    try:
        for name, d in items:
            rc, out = sh(f"git -C {wt} apply {d / 'patch.diff'}")
            if rc != 0:
                print(f"{name}: patch does not apply ({out.strip()[:120]})")
                skipped += 1
                continue
            rc, out = sh("/venv/bin/python -c 'import graphql'", env=dict(os.environ, PYTHONPATH=f"{wt}/src"))
            res = run_checks(wt)
            sh(f"git -C {wt} checkout -- . && git -C {wt} clean -fdq")
            alarms = {p: r for p, r in res.items() if r["exit"] != 0}
            dest = VERIF / "refactors" / name
            dest.mkdir(parents=True, exist_ok=True)
            if d.resolve() != dest.resolve():
                shutil.copy(d / "patch.diff", dest / "patch.diff")
                if (d / "notes.md").exists():
                    shutil.copy(d / "notes.md", dest / "notes.md")
            (dest / "result.json").write_text(json.dumps({"imports": rc == 0, "alarms": alarms}, indent=1))
            if alarms:
                bad += 1
                print(f"{name}: ALARM " + "; ".join(f"{p}(exit {r['exit']}): {r['lines'][0][:200] if r['lines'] else ''}" for p, r in alarms.items()))
            else:
                print(f"{name}: silent (19 checks)")
    finally:
        sh(f"git -C /repo worktree remove --force {wt}")
    print(f"{len(items) - bad - skipped}/{len(items)} refactorings raise no alarm" + (f" ({skipped} not evaluated: patch needs a rebase)" if skipped else ""))
    return 1 if bad or skipped else 0


if __name__ == "__main__":
    sys.exit(main())
