from graphql import build_schema, graphql_sync
schema = build_schema("input I { a: Int } type Query { f(x: I): Int }")
big = "9" * 5000
q = "{ f(x: {a" + big + ": 1, b" + big + ": 2}) f(x: {b" + big + ": 2, a" + big + ": 1}) }"
try:
    r = graphql_sync(schema, q)
    print("errors:", [e.message[:60] for e in r.errors or []][:3])
except Exception as e:
    print("RAISED", type(e).__name__, str(e)[:80])
