from graphql import build_schema, validate_schema, graphql_sync
s = build_schema("""
input I { f: Query }
type Query { g(x: I = {f: 1}): Int }
""", assume_valid_sdl=True)
try:
    errs = validate_schema(s)
    print("errors:", [e.message for e in errs])
except Exception as e:
    print("RAISED", type(e).__name__, e)
from graphql import GraphQLSchema, GraphQLObjectType, GraphQLField, GraphQLInt, GraphQLArgument, GraphQLInputObjectType, GraphQLInputField, GraphQLList, GraphQLDefaultInput
for sdl in ["input I { f: [Query] } type Query { g(x: I = {f: [1]}): Int }",
            "input I { f: Query! = 3 } type Query { g(x: I): Int }",
            "input I { f: Query } input J { i: I = {f: {}} } type Query { g(x: J): Int }"]:
    s = build_schema(sdl, assume_valid_sdl=True)
    try:
        print("errors:", [e.message for e in validate_schema(s)][:3])
    except Exception as e:
        print("RAISED", type(e).__name__, e)
Q = GraphQLObjectType("Query", lambda: {"g": GraphQLField(GraphQLInt, args={"x": GraphQLArgument(I, default_value={"f": 1})})})
I = GraphQLInputObjectType("I", lambda: {"f": GraphQLInputField(Q)})
try:
    print("programmatic:", [e.message for e in validate_schema(GraphQLSchema(Q))][:3])
except Exception as e:
    print("RAISED", type(e).__name__, e)
Q2 = GraphQLObjectType("Query", lambda: {"g": GraphQLField(GraphQLInt, args={"x": GraphQLArgument(I2, default=GraphQLDefaultInput(value={"f": 1}))})})
I2 = GraphQLInputObjectType("I", lambda: {"f": GraphQLInputField(Q2)})
try:
    print("programmatic value:", [e.message for e in validate_schema(GraphQLSchema(Q2))][:3])
except Exception as e:
    print("RAISED", type(e).__name__, e)
