#!/venv/bin/python
"""Print the sub-agent prompt for one area of the false-alarm probe (behaviour-preserving refactorings).

usage: refactor_prompt.py <tag>      tag = rf31 .. rf38  (the area is chosen by the tag)
The agent gets a scratch worktree /tmp/wt-<tag> and nothing from /verif.
"""
import sys

AREAS = {
    1: ("lexing, sources and locations", "src/graphql/language/lexer.py, block_string.py, source.py, location.py, print_location.py, character_classes.py, src/graphql/error/graphql_error.py, located_error.py"),
    2: ("parser and printer", "src/graphql/language/parser.py, printer.py, print_string.py, src/graphql/utilities/strip_ignored_characters.py, sort_value_node.py"),
    3: ("AST traversal and validation infrastructure", "src/graphql/language/visitor.py, src/graphql/validation/validate.py, validation_context.py, src/graphql/utilities/type_info.py"),
    4: ("validation rules", "src/graphql/validation/rules/*.py (especially overlapping_fields_can_be_merged.py, values_of_correct_type.py, variables_in_allowed_position.py, no_undefined_variables.py, provided_required_arguments.py, single_field_subscriptions.py, defer_stream_*.py, max_introspection_depth_rule.py)"),
    5: ("execution core", "src/graphql/execution/executor.py, execute.py, collect_fields.py, values.py, src/graphql/graphql.py"),
    6: ("incremental delivery", "src/graphql/execution/incremental/*.py (work_queue.py, incremental_publisher.py, incremental_executor.py, stream_item_queue.py, build_execution_plan.py) and src/graphql/execution/map_async_iterable.py, src/graphql/pyutils/*.py used by them"),
    7: ("type system", "src/graphql/type/definition.py, scalars.py, schema.py, validate.py, introspection.py, directives.py"),
    8: ("schema utilities and coercion", "src/graphql/utilities/build_ast_schema.py, extend_schema.py, print_schema.py, build_client_schema.py, get_introspection_query.py, introspection_from_schema.py, lexicographic_sort_schema.py, coerce_input_value.py, validate_input_value.py, value_from_ast.py, ast_from_value.py, value_to_literal.py, replace_variables.py, find_schema_changes.py"),
}

tag = sys.argv[1]
n = (int(tag[2:]) - 1) % 8 + 1
area, files = AREAS[n]
wt = f"/tmp/wt-{tag}"
print(f"""You are helping to evaluate a static verification tool for the Python library graphql-core (a port of GraphQL.js) by writing realistic BEHAVIOUR-PRESERVING refactorings. The tool must stay silent on code whose behaviour did not change; your refactorings are the probe. You work ONLY inside your own scratch git worktree: {wt} (sources under {wt}/src/graphql, tests under {wt}/tests). Do NOT read, list or modify anything under /verif or /repo, and do not look for other tooling on this machine.

YOUR AREA: {area} - {files}

YOUR TASK: write SIX different refactorings of central, non-trivial functions in that area (different functions; spread them over the files). Each one must leave the observable behaviour of the library EXACTLY unchanged for every input (same results, same errors and messages, same order of side effects, same laziness, same exceptions), while changing the *shape* of the code the way a maintainer would in a clean-up commit. Use a variety of these: extracting a helper function or method / inlining one; turning an if/elif chain into match/case or into guard clauses with early returns (or back); a loop into a comprehension or a comprehension into a loop; naming a sub-condition in a boolean local; hoisting a repeated attribute read into a local; inverting a condition and swapping branches; replacing try/except KeyError by .get() + None test where equivalent (or back); splitting or merging adjacent conditions; replacing a lambda by a local def; moving a constant tuple/set into a module-level constant; reordering independent statements; renaming locals; changing `x = f() or x` into an if statement. Each refactoring should touch 5-40 lines. Be careful that it really is behaviour-preserving (think about None vs falsy, evaluation order, exceptions, generators/laziness, identity vs equality) - an accidental behaviour change would invalidate the probe.

For each refactoring k = 1..6 write into {wt}/refactors/r<k>/ :
  - patch.diff : output of `git -C {wt} diff` with ONLY that refactoring applied (applies cleanly with `git apply` to a pristine checkout),
  - notes.md   : 2-5 lines: function(s) touched, what was restructured, why it is behaviour-preserving.

HOW TO RUN THINGS (use exactly this interpreter; PYTHONPATH makes your worktree's sources take precedence over the installed copy):
  full test suite (about 30-60 s):  cd {wt} && PYTHONPATH={wt}/src /venv/bin/python -m pytest tests -q -p no:cacheprovider -n 4 --timeout=900 2>&1 | tail -5
  baseline on the pristine tree is 3340 passed. A refactoring is only acceptable if the same number of tests pass with it.
WORKFLOW per refactoring: edit -> run the full suite (must stay green; to save time you may run the suite once for two refactorings applied together and only bisect if it fails) -> save patch.diff (only that refactoring) -> `git -C {wt} checkout -- src` -> next. Leave the worktree pristine (apart from refactors/) when you finish.

Finish with a short report listing the six functions and what you did to each.""")
