#!/venv/bin/python
"""Print the sub-agent prompt for one property (property text only, nothing from /verif's machinery)."""
import json, sys
pid = sys.argv[1].upper()
rnd = sys.argv[2] if len(sys.argv) > 2 else ""
wt = f"/tmp/wt-{pid.lower()}{rnd}"
prior = ""
if rnd and "noprior" not in sys.argv[3:]:
    import os
    f = "/verif/notes/prior_descriptions.json" if os.path.exists("/verif/notes/prior_descriptions.json") else "/verif/notes/round1_descriptions.json"
    if os.path.exists(f):
        items = json.load(open(f)).get(pid, [])
        if items:
            prior = ("\n\nANOTHER TEAM HAS ALREADY HANDED IN the following seeded changes for this property. Yours must be clearly "
                     "DIFFERENT: other functions and preferably other files, other mechanisms, other clauses of the statement. "
                     "Do not re-do any of these:\n" + "\n".join(items) + "\n")
for l in open('/verif/properties.jsonl'):
    p = json.loads(l)
    if p['id'] == pid:
        break
print(f"""You are helping to evaluate a verification tool by writing realistic *faulty changes* (seeded bugs) for the Python library graphql-core (a port of GraphQL.js). You work ONLY inside your own scratch git worktree: {wt} (a checkout of the library; sources under {wt}/src/graphql, tests under {wt}/tests). Do NOT read, list or modify anything under /verif or /repo, and do not look for other tooling on this machine: your work must be independent.

The property the library is supposed to satisfy:

TITLE: {p['title']}
STATEMENT: {p['statement']}
QUANTIFIED OVER: {p['quantifier']['text']}
WHY THE TEST SUITE CANNOT SETTLE IT: {p['why_tests_cant']}

{prior}
YOUR TASK: produce THREE different changes (try hard for three; two is acceptable) to the library source (files under {wt}/src/graphql only, tests untouched) such that each change
  (a) BREAKS the property above (a real behavioural violation of the statement),
  (b) still compiles/imports, and the ENTIRE existing test suite still passes with the change applied,
  (c) needs something specific to manifest - a particular unusual input, a multi-step sequence of operations, a particular interleaving/schedule, a fault at a particular point, or two cooperating edit sites that each look fine alone - NOT something ordinary use or the existing tests would expose at once,
  (d) looks like a plausible mistake or 'optimisation'/'refactoring' a maintainer could make (no comments announcing the bug, no dead 'if False', no special-casing of magic values).
The three changes should use DIFFERENT mechanisms / touch different functions, so they exercise different aspects of the property.

For each change k = 1, 2, 3 write into the directory {wt}/seeded_out/m<k>/ :
  - patch.diff : output of `git -C {wt} diff` with ONLY that change applied (so it applies cleanly with `git apply` to a pristine checkout),
  - demo.py    : a small standalone program that exits with status 0 when the property holds and non-zero (e.g. via assert / sys.exit(1)) when it is violated; it must FAIL with the change applied and PASS on the pristine checkout. Run it as: cd {wt} && PYTHONPATH={wt}/src /venv/bin/python seeded_out/m<k>/demo.py
  - notes.md   : 5-10 lines: what was changed, why it breaks the property, what is needed for it to manifest, and the exact commands you ran with their observed results (demo with/without the change; test suite result).

HOW TO RUN THINGS (use exactly this interpreter; PYTHONPATH makes your worktree's sources take precedence over the installed copy):
  full test suite (about 30 s):  cd {wt} && PYTHONPATH={wt}/src /venv/bin/python -m pytest tests -q -p no:cacheprovider -n 4 --timeout=900 2>&1 | tail -5
  baseline on the pristine tree is 3340 passed (some skipped). A change is only acceptable if the same number of tests pass with it.
WORKFLOW per change: edit -> run the full suite (must stay green) -> write and run demo.py (must fail) -> save patch.diff -> `git -C {wt} checkout -- src` to restore the pristine tree -> run demo.py again (must pass) -> next change. Leave the worktree pristine (apart from seeded_out/) when you finish.

Finish with a short report listing, for each change, the file/function touched and a one-line description. If you could not make a change satisfy all of (a)-(d), say so honestly rather than handing in something that does not meet them.""")
