import asyncio, gc
from graphql import build_schema, graphql
schema = build_schema("""
type Query { a: P b: P c: P me: P slow: P }
type P { id: ID name: String bestFriend: P }
""")
class P:
    id = "1"; name = "n"
    def bestFriend(self, info): return P()
async def slow(info):
    await asyncio.sleep(0.01)
    return P()
root = {"a": P(), "b": P(), "c": P(), "me": P(), "slow": slow}
q = "{ a{id} b{id} c{id} me{id} slow{bestFriend{name}} }"
bad = 0
for i in range(30):
    r = asyncio.run(graphql(schema, q, root))
    if r.data["slow"]["bestFriend"] != {"name": "n"}:
        bad += 1; last = r.data["slow"]
print("wrong:", bad, "of 30", last if bad else "")
