from graphql import build_schema, parse, execute_sync, validate, GraphQLSchema, specified_directives, GraphQLStreamDirective, GraphQLDeferDirective
from graphql.execution import experimental_execute_incrementally
s0 = build_schema("""
type Query { list: [Int] }
""")
schema = GraphQLSchema(**{**s0.to_kwargs(), "directives": [*specified_directives, GraphQLStreamDirective, GraphQLDeferDirective]})
doc = parse("""
query { ...F(flag: false) }
fragment F($flag: Boolean!) on Query { list @stream(if: $flag, initialCount: 0) }
""", experimental_fragment_arguments=True)
print(validate(schema, doc))
try:
    r = execute_sync(schema, doc, {"list": [1,2,3]})
except Exception as e:
    r = repr(e)
print(r)
doc2 = parse("""
query { ...F(flag: false) }
fragment F($flag: Boolean!) on Query { list @skip(if: $flag) }
""", experimental_fragment_arguments=True)
print(execute_sync(schema, doc2, {"list": [1,2,3]}))
doc3 = parse("""
query { ...F }
fragment F on Query { list @stream(if: false, initialCount: 0) }
""", experimental_fragment_arguments=True)
print("literal false:", execute_sync(schema, doc3, {"list": [1,2,3]}))
doc4 = parse("""
query ($flag: Boolean!) { ...F }
fragment F on Query { list @stream(if: $flag, initialCount: 0) }
""", experimental_fragment_arguments=True)
print("operation variable false:", execute_sync(schema, doc4, {"list": [1,2,3]}, variable_values={"flag": False}))
