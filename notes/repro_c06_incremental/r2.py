"""R2: a nested @stream inside stream items that have been produced, but not
yet delivered, is never closed when the payload stream is closed."""

from __future__ import annotations

import asyncio
import sys

from common import (
    GraphQLField,
    GraphQLList,
    GraphQLObjectType,
    GraphQLSchema,
    GraphQLString,
    Tracker,
    experimental_execute_incrementally,
    parse,
    quiesce,
    report,
)

QUERY = """
{
  outer @stream(initialCount: 0) {
    name
    inner @stream(initialCount: 1)
  }
}
"""


def build_schema(tracker: Tracker) -> GraphQLSchema:
    def resolve_outer(_obj, _info):
        # a finite source yielding three items, 10ms apart
        return tracker.source(
            "outer", [{"name": f"o{i}"} for i in range(3)], delay=0.01, forever=False
        )

    def resolve_inner(obj, _info):
        # a source that does not end by itself, so it must be closed
        return tracker.source(f"inner-{obj['name']}", ["x", "y"])

    outer_type = GraphQLObjectType(
        "Outer",
        {
            "name": GraphQLField(GraphQLString),
            "inner": GraphQLField(GraphQLList(GraphQLString), resolve=resolve_inner),
        },
    )
    query = GraphQLObjectType(
        "Query",
        {"outer": GraphQLField(GraphQLList(outer_type), resolve=resolve_outer)},
    )
    return GraphQLSchema(query)


async def run(early: bool, deliver_all: bool) -> bool:
    print(
        f"--- enable_early_execution={early},"
        f" all outer items delivered before close={deliver_all}"
    )
    tracker = Tracker()
    result = experimental_execute_incrementally(
        build_schema(tracker),
        parse(QUERY),
        enable_early_execution=early,
        hooks=tracker.hooks(),
    )
    if asyncio.iscoroutine(result) or asyncio.isfuture(result):
        result = await result
    print("initial            :", result.initial_result.formatted)
    stream = result.subsequent_results
    # k = 1: receive the first outer item
    first = await asyncio.wait_for(anext(stream), 2)
    print("payload 1          :", first.formatted)
    # the consumer is busy while the remaining outer items are produced;
    # they are now ready, but have not yet been delivered
    await asyncio.sleep(0.3)
    if deliver_all:
        # control: all the remaining outer items are delivered before closing
        n, delivered = 1, str(first.formatted)
        while "'o2'" not in delivered:
            n += 1
            payload = await asyncio.wait_for(anext(stream), 2)
            print(f"payload {n}          :", payload.formatted)
            delivered += str(payload.formatted)
    print("before aclose      :", tracker.log)
    try:
        await asyncio.wait_for(stream.aclose(), 2)
    except asyncio.TimeoutError:
        print("aclose() HANGS")
    await quiesce()
    ok = report(tracker)
    print("RESULT             :", "ok" if ok else "VIOLATION")
    return ok


def main() -> int:
    ok = True
    for early in (False, True):
        for deliver_all in (True, False):
            # a fresh event loop per case, so that leaks cannot interfere
            ok = asyncio.run(run(early, deliver_all)) and ok
    return 0 if ok else 1


if __name__ == "__main__":
    sys.exit(main())
