"""R3: with enable_early_execution=True, a @stream source (async generator)
that raises after it has yielded items whose completion is asynchronous
makes the consumer hang (anext on the payload stream never returns)."""

from __future__ import annotations

import asyncio
import sys

from common import (
    GraphQLField,
    GraphQLList,
    GraphQLObjectType,
    GraphQLSchema,
    GraphQLString,
    Tracker,
    experimental_execute_incrementally,
    parse,
    quiesce,
    report,
)

QUERY = "{ items @stream(initialCount: 0) { name } }"


def build_schema(tracker: Tracker, name_delay: float) -> GraphQLSchema:
    async def failing_source():
        tracker.started["items"] = tracker.started.get("items", 0) + 1
        tracker.log.append("start items")
        try:
            yield {"name": "a"}
            yield {"name": "b"}
            raise RuntimeError("source failed")
        finally:
            tracker.closed["items"] = tracker.closed.get("items", 0) + 1
            tracker.log.append("close items")

    def resolve_items(_obj, _info):
        return failing_source()

    async def resolve_name(obj, _info):
        # the completion of the stream items is asynchronous
        await asyncio.sleep(name_delay)
        return obj["name"]

    item_type = GraphQLObjectType(
        "Item", {"name": GraphQLField(GraphQLString, resolve=resolve_name)}
    )
    query = GraphQLObjectType(
        "Query",
        {"items": GraphQLField(GraphQLList(item_type), resolve=resolve_items)},
    )
    return GraphQLSchema(query)


async def run(early: bool) -> bool:
    print(f"--- enable_early_execution={early}")
    tracker = Tracker()
    result = experimental_execute_incrementally(
        build_schema(tracker, 0.05),
        parse(QUERY),
        enable_early_execution=early,
        hooks=tracker.hooks(),
    )
    if asyncio.iscoroutine(result) or asyncio.isfuture(result):
        result = await result
    print("initial            :", result.initial_result.formatted)
    stream = result.subsequent_results
    hung = False
    n = 0
    while True:
        n += 1
        try:
            payload = await asyncio.wait_for(anext(stream), 2)
        except StopAsyncIteration:
            print("payload stream ended normally")
            break
        except asyncio.TimeoutError:
            print(f"payload {n}          : anext() HANGS (no result within 2s)")
            hung = True
            break
        print(f"payload {n}          :", payload.formatted)
    if hung:
        # wait_for() has cancelled the hanging anext(); close the stream
        await asyncio.wait_for(stream.aclose(), 2)
    await quiesce()
    ok = report(tracker) and not hung
    print("RESULT             :", "ok" if ok else "VIOLATION")
    return ok


def main() -> int:
    ok = True
    for early in (False, True):
        # a fresh event loop per case, so that leaks cannot interfere
        ok = asyncio.run(run(early)) and ok
    return 0 if ok else 1


if __name__ == "__main__":
    sys.exit(main())
