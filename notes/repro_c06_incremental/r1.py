"""R1: aclose() on the payload stream after a deferred group has completed,
but before its result was delivered, leaks the nested @stream source that
was opened inside that deferred group."""

from __future__ import annotations

import asyncio
import sys

from common import (
    GraphQLField,
    GraphQLList,
    GraphQLObjectType,
    GraphQLSchema,
    GraphQLString,
    Tracker,
    experimental_execute_incrementally,
    parse,
    quiesce,
    report,
)

QUERY = """
{
  ... @defer(label: "A") { fast }
  ... @defer(label: "B") { slow { items @stream(initialCount: 1) } }
}
"""


def build_schema(tracker: Tracker) -> GraphQLSchema:
    async def resolve_fast(_obj, _info):
        await asyncio.sleep(0.01)
        return "fast"

    async def resolve_slow(_obj, _info):
        await asyncio.sleep(0.05)
        return {}

    def resolve_items(_obj, _info):
        return tracker.source("items", ["a", "b", "c"])

    slow_type = GraphQLObjectType(
        "Slow",
        {"items": GraphQLField(GraphQLList(GraphQLString), resolve=resolve_items)},
    )
    query = GraphQLObjectType(
        "Query",
        {
            "fast": GraphQLField(GraphQLString, resolve=resolve_fast),
            "slow": GraphQLField(slow_type, resolve=resolve_slow),
        },
    )
    return GraphQLSchema(query)


async def run(early: bool, deliver_b: bool) -> bool:
    print(f"--- enable_early_execution={early}, group B delivered before close={deliver_b}")
    tracker = Tracker()
    result = experimental_execute_incrementally(
        build_schema(tracker),
        parse(QUERY),
        enable_early_execution=early,
        hooks=tracker.hooks(),
    )
    if asyncio.iscoroutine(result) or asyncio.isfuture(result):
        result = await result
    print("initial            :", result.initial_result.formatted)
    stream = result.subsequent_results
    # k = 1: receive the payload of the fast group "A"
    first = await asyncio.wait_for(anext(stream), 2)
    print("payload 1          :", first.formatted)
    # the consumer is busy while the group "B" completes in the background;
    # its result is now ready, but has not yet been delivered
    await asyncio.sleep(0.3)
    if deliver_b:
        # control: k = 2, the result of group "B" is delivered before closing
        second = await asyncio.wait_for(anext(stream), 2)
        print("payload 2          :", second.formatted)
    print("before aclose      :", tracker.log)
    try:
        await asyncio.wait_for(stream.aclose(), 2)
    except asyncio.TimeoutError:
        print("aclose() HANGS")
    await quiesce()
    ok = report(tracker)
    print("RESULT             :", "ok" if ok else "VIOLATION")
    return ok


def main() -> int:
    ok = True
    for early in (False, True):
        for deliver_b in (True, False):
            # a fresh event loop per case, so that leaks cannot interfere
            ok = asyncio.run(run(early, deliver_b)) and ok
    return 0 if ok else 1


if __name__ == "__main__":
    sys.exit(main())
