"""Variant of R2 (side finding): the stream item is still being completed
(it has opened the nested @stream already, but a sibling field is pending)
when the payload stream is closed."""

from __future__ import annotations

import asyncio
import sys

from common import (
    GraphQLField,
    GraphQLList,
    GraphQLObjectType,
    GraphQLSchema,
    GraphQLString,
    Tracker,
    experimental_execute_incrementally,
    parse,
    quiesce,
    report,
)

QUERY = """
{
  outer @stream(initialCount: 0) {
    inner @stream(initialCount: 1)
    slow
  }
}
"""


def build_schema(tracker: Tracker) -> GraphQLSchema:
    def resolve_outer(_obj, _info):
        return tracker.source(
            "outer", [{"name": f"o{i}"} for i in range(2)], delay=0.01, forever=False
        )

    def resolve_inner(obj, _info):
        return tracker.source(f"inner-{obj['name']}", ["x", "y"])

    async def resolve_slow(obj, _info):
        if obj["name"] != "o0":
            await asyncio.Event().wait()  # never resolves
        return "slow"

    outer_type = GraphQLObjectType(
        "Outer",
        {
            "inner": GraphQLField(GraphQLList(GraphQLString), resolve=resolve_inner),
            "slow": GraphQLField(GraphQLString, resolve=resolve_slow),
        },
    )
    query = GraphQLObjectType(
        "Query",
        {"outer": GraphQLField(GraphQLList(outer_type), resolve=resolve_outer)},
    )
    return GraphQLSchema(query)


async def run(early: bool) -> bool:
    print(f"--- enable_early_execution={early}")
    tracker = Tracker()
    result = experimental_execute_incrementally(
        build_schema(tracker),
        parse(QUERY),
        enable_early_execution=early,
        hooks=tracker.hooks(),
    )
    if asyncio.iscoroutine(result) or asyncio.isfuture(result):
        result = await result
    stream = result.subsequent_results
    first = await asyncio.wait_for(anext(stream), 2)
    print("payload 1          :", first.formatted)
    await asyncio.sleep(0.3)
    print("before aclose      :", tracker.log)
    try:
        await asyncio.wait_for(stream.aclose(), 2)
    except asyncio.TimeoutError:
        print("aclose() HANGS")
    await quiesce()
    ok = report(tracker)
    print("RESULT             :", "ok" if ok else "VIOLATION")
    return ok


def main() -> int:
    ok = True
    for early in (False, True):
        ok = asyncio.run(run(early)) and ok
    return 0 if ok else 1


if __name__ == "__main__":
    sys.exit(main())
