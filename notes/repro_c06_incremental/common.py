"""Shared helpers for the R1-R3 reproduction scripts."""

from __future__ import annotations

import asyncio
from typing import Any

import graphql
from graphql import (
    GraphQLField,
    GraphQLList,
    GraphQLObjectType,
    GraphQLSchema,
    GraphQLString,
    parse,
)
from graphql.execution import ExecutionHooks, experimental_execute_incrementally

print("library:", graphql.__file__)  # the tree under test is chosen with PYTHONPATH


class Tracker:
    """Records start/close of every source async generator and the hook."""

    def __init__(self) -> None:
        self.started: dict[str, int] = {}
        self.closed: dict[str, int] = {}
        self.hook_calls = 0
        self.log: list[str] = []

    def source(self, name: str, items: list[Any], delay: float = 0.0, forever: bool = True):
        """Create an async generator which records its start and close."""
        tracker = self

        async def gen():
            tracker.started[name] = tracker.started.get(name, 0) + 1
            tracker.log.append(f"start {name}")
            try:
                for item in items:
                    if delay:
                        await asyncio.sleep(delay)
                    yield item
                if forever:
                    # a source which never ends by itself: it must be closed
                    await asyncio.Event().wait()
            finally:
                tracker.closed[name] = tracker.closed.get(name, 0) + 1
                tracker.log.append(f"close {name}")

        return gen()

    def hook(self, _info: Any) -> None:
        self.hook_calls += 1
        self.log.append("hook")

    def hooks(self) -> ExecutionHooks:
        return ExecutionHooks(async_work_finished=self.hook)


async def quiesce(rounds: int = 50) -> None:
    for _ in range(rounds):
        await asyncio.sleep(0)
    await asyncio.sleep(0.05)


def pending_tasks() -> list[str]:
    current = asyncio.current_task()
    return sorted(
        getattr(t.get_coro(), "__qualname__", repr(t.get_coro()))
        for t in asyncio.all_tasks()
        if t is not current and not t.done()
    )


def report(tracker: Tracker) -> bool:
    """Print the final state and return True when the property holds."""
    ok = True
    tasks = pending_tasks()
    print("pending tasks      :", tasks)
    if tasks:
        ok = False
    for name in sorted(tracker.started):
        closed = tracker.closed.get(name, 0)
        print(f"source {name!r:10}: started={tracker.started[name]} closed={closed}")
        if closed != 1:
            ok = False
    print("hook calls         :", tracker.hook_calls)
    if tracker.hook_calls != 1:
        ok = False
    print("event log          :", tracker.log)
    return ok
