from graphql import build_schema, parse, validate, graphql_sync
schema = build_schema('''
input O @oneOf { a: Int b: Int }
type Query { f(o: [O!]): Int }
''')
doc = 'query($v: Int) { f(o: {a: $v}) }'
errs = validate(schema, parse(doc))
print("validation:", errs)
res = graphql_sync(schema, doc, root_value={"f": lambda info, o=None: 1}, variable_values={})
print("execution:", res)
import sys
sys.exit(1 if (not errs and res.errors) else 0)
