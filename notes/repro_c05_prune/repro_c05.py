"""Reproduction / property check for incremental delivery (defer) ordering.

Runs a query with overlapping deferred fragments where one field (`slow`)
resolves late, collects all payloads and checks with a small assembler that
every incremental entry targets a pending id and an already existing object
in the data assembled so far.

Exit status: 1 if any violation has been found in any scenario, 0 otherwise.
"""

from __future__ import annotations

import asyncio
import copy
import json
import sys
from typing import Any

from graphql import (
    GraphQLField,
    GraphQLID,
    GraphQLObjectType,
    GraphQLSchema,
    GraphQLString,
    parse,
)
from graphql.execution import (
    ExperimentalIncrementalExecutionResults,
    experimental_execute_incrementally,
)
from graphql.type import (
    GraphQLArgument,
    GraphQLBoolean,
    GraphQLDirective,
    GraphQLNonNull,
    specified_directives,
)
from graphql.language import DirectiveLocation

try:  # the defer directive is not part of the specified directives
    from graphql.type import GraphQLDeferDirective, GraphQLStreamDirective
except ImportError:  # pragma: no cover
    GraphQLDeferDirective = GraphQLStreamDirective = None  # type: ignore


LITERAL_QUERY = """
{ ... @defer(label:"A2") { hero { name } slow }
  ... @defer(label:"P") { p ... @defer(label:"B") { hero { name ... @defer(label:"C") { id } } } } }
"""

QUERIES = {
    "literal": LITERAL_QUERY,
    # the two top-level fragments swapped
    "swapped": """
{ ... @defer(label:"P") { p ... @defer(label:"B") { hero { name ... @defer(label:"C") { id } } } }
  ... @defer(label:"A2") { hero { name } slow } }
""",
    # without labels
    "unlabelled": """
{ ... @defer { hero { name } slow }
  ... @defer { p ... @defer { hero { name ... @defer { id } } } } }
""",
    # control: B has a field of its own that is not shared with A2
    "control-own-field": """
{ ... @defer(label:"A2") { hero { name } slow }
  ... @defer(label:"P") { p ... @defer(label:"B") { q hero { name ... @defer(label:"C") { id } } } } }
""",
    # control: nothing shared, plain nesting
    "control-nested": """
{ ... @defer(label:"P") { p ... @defer(label:"B") { hero { name ... @defer(label:"C") { id } } } } }
""",
}


def build_schema(slow_field: str, timing: str) -> GraphQLSchema:
    async def late(_obj: Any, _info: Any) -> str:
        if timing == "ticks":
            for _ in range(50):
                await asyncio.sleep(0)
        elif timing == "sleep":
            await asyncio.sleep(0.05)
        else:  # event, set by a background task much later
            event = asyncio.Event()
            asyncio.get_running_loop().call_later(0.05, event.set)
            await event.wait()
        return "slow" if slow_field == "p-then-slow" else slow_field

    async def a_bit_late(_obj: Any, _info: Any) -> str:
        for _ in range(5):
            await asyncio.sleep(0)
        return "p"

    def field(name: str) -> GraphQLField:
        if name == slow_field or (name == "slow" and slow_field == "p-then-slow"):
            return GraphQLField(GraphQLString, resolve=late)
        if name == "p" and slow_field == "p-then-slow":
            return GraphQLField(GraphQLString, resolve=a_bit_late)
        return GraphQLField(GraphQLString, resolve=lambda _o, _i: name)

    hero_type = GraphQLObjectType(
        "Hero",
        {
            "name": GraphQLField(GraphQLString, resolve=lambda _o, _i: "Luke"),
            "id": GraphQLField(GraphQLID, resolve=lambda _o, _i: "1"),
        },
    )
    query_type = GraphQLObjectType(
        "Query",
        {
            "hero": GraphQLField(hero_type, resolve=lambda _o, _i: {}),
            "slow": field("slow"),
            "p": field("p"),
            "q": field("q"),
        },
    )
    directives = list(specified_directives)
    for directive in (GraphQLDeferDirective, GraphQLStreamDirective):
        if directive is not None and directive not in directives:
            directives.append(directive)
    return GraphQLSchema(query_type, directives=directives)


async def run(query: str, slow_field: str, timing: str, early: bool) -> list[dict]:
    schema = build_schema(slow_field, timing)
    result = experimental_execute_incrementally(
        schema, parse(query), enable_early_execution=early
    )
    if asyncio.iscoroutine(result) or isinstance(result, asyncio.Future):
        result = await result
    if not isinstance(result, ExperimentalIncrementalExecutionResults):
        return [result.formatted]
    payloads = [result.initial_result.formatted]
    async for patch in result.subsequent_results:
        payloads.append(patch.formatted)
    return payloads


def lookup(data: Any, path: list) -> tuple[bool, Any]:
    """Return (exists, value) of the given path in the assembled data."""
    node = data
    for key in path:
        if isinstance(node, dict) and isinstance(key, str) and key in node:
            node = node[key]
        elif isinstance(node, list) and isinstance(key, int) and 0 <= key < len(node):
            node = node[key]
        else:
            return False, None
    return True, node


def deep_merge(target: dict, source: dict) -> None:
    for key, value in source.items():
        if isinstance(value, dict) and isinstance(target.get(key), dict):
            deep_merge(target[key], value)
        else:
            target[key] = copy.deepcopy(value)


def check(payloads: list[dict]) -> list[str]:
    """Check the delivery property, returning the list of violations."""
    violations: list[str] = []
    data: Any = None
    pending: dict[str, list] = {}  # id -> path
    pending_labels: dict[str, Any] = {}
    ever_announced: set[str] = set()
    completed_ids: set[str] = set()

    for n, payload in enumerate(payloads):
        where = f"payload #{n}"
        if n == 0:
            data = copy.deepcopy(payload.get("data"))
        if n and "data" in payload:
            violations.append(f"{where}: subsequent payload carries 'data'")

        new_pending = payload.get("pending") or []
        incremental = payload.get("incremental") or []
        completed = payload.get("completed") or []

        # announce first (pending may be announced in the same payload as data)
        for entry in new_pending:
            id_ = entry["id"]
            if id_ in ever_announced:
                violations.append(f"{where}: id {id_} announced more than once")
            ever_announced.add(id_)
            pending[id_] = entry["path"]
            pending_labels[id_] = entry.get("label")
            # no announced enclosing fragment may still be pending: approximated
            # structurally elsewhere; here we only track ids and paths

        # apply incremental entries in order
        for entry in incremental:
            id_ = entry["id"]
            if id_ not in pending:
                violations.append(
                    f"{where}: incremental entry for id {id_} which is not pending"
                )
                continue
            target = [*pending[id_], *(entry.get("subPath") or [])]
            exists, node = lookup(data, target)
            label = pending_labels[id_]
            if "items" in entry:
                if not exists or not isinstance(node, list):
                    violations.append(
                        f"{where}: stream items for id {id_} (label {label!r})"
                        f" target {target}, which is not an existing list"
                    )
                    continue
                node.extend(copy.deepcopy(entry["items"]))
            else:
                if not exists or not isinstance(node, dict):
                    violations.append(
                        f"{where}: incremental data {json.dumps(entry['data'])}"
                        f" for id {id_} (label {label!r}) targets path {target},"
                        " which does not exist in the data assembled so far"
                        f" ({json.dumps(data)})"
                    )
                    continue
                deep_merge(node, entry["data"])

        # the path of every pending announcement must exist once the data
        # delivered in the same payload have been merged
        for entry in new_pending:
            exists, node = lookup(data, entry["path"])
            if not exists or not isinstance(node, (dict, list)):
                violations.append(
                    f"{where}: pending id {entry['id']} (label {entry.get('label')!r})"
                    f" announced at path {entry['path']}, which does not exist in"
                    f" the data assembled so far ({json.dumps(data)})"
                )

        for entry in completed:
            id_ = entry["id"]
            if id_ in completed_ids:
                violations.append(f"{where}: id {id_} completed more than once")
            elif id_ not in pending:
                violations.append(f"{where}: completed id {id_} was never pending")
            completed_ids.add(id_)
            pending.pop(id_, None)
            pending_labels.pop(id_, None)

        is_last = n == len(payloads) - 1
        if len(payloads) > 1 or "hasNext" in payload:
            has_next = payload.get("hasNext")
            if is_last and has_next is not False:
                violations.append(f"{where}: last payload has hasNext={has_next}")
            if not is_last and has_next is not True:
                violations.append(f"{where}: hasNext={has_next} but more follows")

    if pending:
        violations.append(f"ids never completed: {sorted(pending)}")
    return violations


def main() -> int:
    failed = False
    scenarios = []
    for query_name in QUERIES:
        for slow_field in ("slow", "p", "p-then-slow"):
            for timing in ("ticks", "sleep", "event"):
                for early in (False, True):
                    scenarios.append((query_name, slow_field, timing, early))

    seen_output: dict[str, str] = {}
    for query_name, slow_field, timing, early in scenarios:
        payloads = asyncio.run(
            run(QUERIES[query_name], slow_field, timing, early)
        )
        violations = check(payloads)
        title = (
            f"query={query_name} slow_field={slow_field} timing={timing}"
            f" enable_early_execution={early}"
        )
        status = "VIOLATION" if violations else "ok"
        print(f"=== {title}: {status}")
        dump = "\n".join(
            f"  [{n}] {json.dumps(payload)}" for n, payload in enumerate(payloads)
        )
        key = f"{query_name}/{slow_field}/{early}"
        if seen_output.get(key) != dump:  # do not repeat identical sequences
            print(dump)
            seen_output[key] = dump
        else:
            print("  (payload sequence identical to the previous timing)")
        for violation in violations:
            print(f"  !! {violation}")
        if violations:
            failed = True

    print()
    print("RESULT:", "property VIOLATED" if failed else "property holds")
    return 1 if failed else 0


if __name__ == "__main__":
    sys.exit(main())
