from graphql import build_schema, parse
from graphql.execution import execute_sync
from graphql.execution.executor import ExecutionHooks
from graphql.pyutils import AbortController
schema = build_schema("type Query { a: Int } type Mutation { m1: Int m2: Int }")
calls = []
ctrl = AbortController()
def m1(info):
    ctrl.abort(RuntimeError("stop")); return 1
hooks = ExecutionHooks(async_work_finished=lambda info: calls.append(1))
try:
    r = execute_sync(schema, parse("mutation { m1 m2 }"), {"m1": m1, "m2": lambda info: 2}, abort_signal=ctrl.signal, hooks=hooks)
    print("result", r)
except Exception as e:
    print("raised", type(e).__name__, e)
print("hook calls:", len(calls))
