import asyncio
from graphql import build_schema, graphql
from graphql.pyutils import AbortController
schema = build_schema("type Query { bad: Int! slow: Int }")
state = {}
async def bad(info):
    await asyncio.sleep(0.01); raise RuntimeError("boom")
async def slow(info):
    try:
        await asyncio.sleep(0.2); state["slow"] = "completed"
    except asyncio.CancelledError:
        state["slow"] = "cancelled"; raise
    return 1
async def main(with_signal):
    state.clear()
    kw = {}
    if with_signal:
        kw["abort_signal"] = AbortController().signal
    r = await graphql(schema, "{ bad slow }", {"bad": bad, "slow": slow}, **kw)
    pending = [t for t in asyncio.all_tasks() if t is not asyncio.current_task() and not t.done()]
    await asyncio.sleep(0.3)
    return r.data, len(pending), state.get("slow")
print("no signal :", asyncio.run(main(False)))
print("signal    :", asyncio.run(main(True)))
