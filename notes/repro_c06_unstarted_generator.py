import asyncio
from graphql import build_schema, parse
from graphql.execution import experimental_execute_incrementally
from graphql.execution.executor import ExecutionHooks
schema = build_schema("type Query { items: [Int] }")
state = {"closed": 0, "hook": 0}
async def gen():
    try:
        for i in range(5):
            yield i
    finally:
        state["closed"] += 1
async def main():
    hooks = ExecutionHooks(async_work_finished=lambda info: state.__setitem__("hook", state["hook"] + 1))
    r = experimental_execute_incrementally(schema, parse("{ items @stream(initialCount: 1) }"), {"items": lambda info: gen()}, hooks=hooks)
    r = await r
    print(r.initial_result)
    await r.subsequent_results.aclose()   # stop before the first pull
    await asyncio.sleep(0.05)
    print(state)
asyncio.run(main())
