from graphql import *
Node = GraphQLInterfaceType("Node", {"id": GraphQLField(GraphQLID)})
I = GraphQLInterfaceType("I", {"id": GraphQLField(GraphQLID)}, interfaces=[GraphQLList(Node)])  # malformed entry
T = GraphQLObjectType("T", {"id": GraphQLField(GraphQLID)}, interfaces=[I])
Q = GraphQLObjectType("Query", {"t": GraphQLField(T)})
try:
    print([e.message for e in validate_schema(GraphQLSchema(Q, types=[T, I, Node]))])
except Exception as e:
    print("RAISED", type(e).__name__, e)
