"""C01: totality of the request pipeline - what can raise out of parse / validate / execute."""

from __future__ import annotations

import ast
import re

from sa.cfg import CFG, no_exc
from sa.guards import FactFlow
from sa.loader import (
    AnalysisError, FuncDef, Module, Repo, ancestors, call_name, enclosing_function, last_attr, module_of,
    parent, qualname_of, unparse, walk_body,
)  # fmt: skip
from sa.raises import MayRaise
from sa.report import Check, node_text
from sa.resolve import CallGraph, ClassIndex
from rules.bounds import covered_by_try


def _source_default_offset_ok(repo: Repo) -> tuple[bool, str]:
    """Source(body) called with the body only uses DEFAULT_SOURCE_LOCATION = SourceLocation(1, 1), for which
    neither `line <= 0` nor `column <= 0` holds: Source.__init__'s ValueError branches are infeasible."""
    mod = repo.mod("language.source")
    d = mod.toplevel_assign("DEFAULT_SOURCE_LOCATION")
    ok = d is not None and unparse(d) == "SourceLocation(1, 1)"
    init = repo.func("language.source", "Source.__init__")
    dflt = init.args.defaults
    ok = ok and bool(dflt) and unparse(dflt[-1]) == "DEFAULT_SOURCE_LOCATION"
    return ok, "Source(body): location_offset defaults to SourceLocation(1, 1), the ValueError branches need line/column <= 0"


def parse_raises(check: Check, repo: Repo, mr: MayRaise) -> None:
    rule = "PARSE-RAISES"
    check.rule(
        rule,
        "from the parsing entry points (parse, parse_value, parse_const_value, parse_type, "
        "parse_schema_coordinate) the exception classes of explicit raises that can escape - resolved "
        "through the call graph incl. the lexer subclasses and `raise self.unexpected()` factories, minus "
        "local handlers - are a subset of {GraphQLSyntaxError}; Source.__init__'s ValueError is infeasible "
        "for Source(body) (default offset (1, 1)); the parser's method-name tables name existing methods",
    )
    ok_src, why_src = _source_default_offset_ok(repo)
    for name in ("parse", "parse_value", "parse_const_value", "parse_type", "parse_schema_coordinate"):
        fn = repo.func("language.parser", name)
        only_body = all(len(c.args) == 1 and not c.keywords for c in ast.walk(repo.mod("language.parser").tree)
                        if isinstance(c, ast.Call) and call_name(c) == "Source")
        src_init = repo.func("language.source", "Source.__init__")
        for (cls, site), chain in sorted(mr.sites(fn).items()):
            f_, _, ln = site.rpartition(":")
            in_source_init = f_.endswith("language/source.py") and src_init.lineno <= int(ln) <= src_init.end_lineno
            if cls == "GraphQLSyntaxError":
                check.ob(rule, fn, f"{name}: raise at {site} ({cls})", True, chain, nontrivial=False)
            elif cls == "ValueError" and in_source_init and ok_src:
                check.ob(rule, fn, f"{name}: ValueError of Source.__init__ ({site})", only_body,
                         why_src if only_body else "Source(...) is called with an offset")
            else:
                check.ob(rule, fn, f"{name}: raise at {site} ({cls})", False, f"escapes the entry point: {chain}")
    # table-driven dispatch: getattr(self, f"parse_{name}")
    pmod = repo.mod("language.parser")
    pc = repo.cls("language.parser", "Parser")
    methods = {s.name for s in pc.body if isinstance(s, FuncDef)}
    from sa.tables import Evaluator, NotStatic

    n_entries = 0
    for s in pc.body:
        tgt, val = None, None
        if isinstance(s, ast.Assign) and len(s.targets) == 1 and isinstance(s.targets[0], ast.Name):
            tgt, val = s.targets[0].id, s.value
        elif isinstance(s, ast.AnnAssign) and isinstance(s.target, ast.Name) and s.value is not None:
            tgt, val = s.target.id, s.value
        if tgt and tgt.endswith("_method_names"):
            try:
                table = Evaluator(repo, pmod).eval(val)
            except NotStatic as e:
                raise AnalysisError(f"parser table {tgt} not static: {e}") from e
            for k, v in (table.items() if isinstance(table, dict) else []):
                n_entries += 1
                ok = f"parse_{v}" in methods
                check.ob(rule, s, f"{tgt}[{k!r}] -> parse_{v}", ok, "method exists" if ok else f"Parser has no method parse_{v}: AttributeError instead of a syntax error")
    check.note(parser_table_entries=n_entries)
    # the tables are partial: a token kind / keyword without an entry must end in a syntax error. Index reads
    # of a table (`table[key]`, unlike table.get(key)) raise KeyError for such a token - end of input included
    tables = {(s.targets[0].id if isinstance(s, ast.Assign) else s.target.id) for s in pc.body
              if ((isinstance(s, ast.Assign) and len(s.targets) == 1 and isinstance(s.targets[0], ast.Name)) or
                  (isinstance(s, ast.AnnAssign) and isinstance(s.target, ast.Name) and s.value is not None)) and isinstance(s.value, ast.Dict)}
    from rules.bounds import covered_by_try
    from rules.language_rules import norm_facts
    from sa.cfg import CFG
    from sa.guards import FactFlow

    for m in [f for f in pc.body if isinstance(f, FuncDef)]:
        subs = [x for x in walk_body(m) if isinstance(x, ast.Subscript) and isinstance(x.ctx, ast.Load) and isinstance(x.value, ast.Attribute)
                and x.value.attr in tables and unparse(x.value.value) in ("self", "cls", "Parser")]
        if not subs:
            continue
        flow = FactFlow(CFG(m))
        for x in subs:
            key, tb = unparse(x.slice), unparse(x.value)
            facts = norm_facts(flow.facts_at(x))
            ok = (f"{key} in {tb}", True) in facts or (f"{key} not in {tb}", False) in facts or covered_by_try(x, {"KeyError", "LookupError", "Exception"})
            check.ob(rule, x, f"Parser.{m.name}: `{unparse(x)}`", ok,
                     "the key is known to be in the table" if ok else
                     f"index read of the partial table {tb}: a token without an entry (end of input, a stray punctuator) raises KeyError "
                     "out of parse() instead of a GraphQLSyntaxError")
    check.floor(rule, 20, "entry-point exception classes + parser table entries")


def exec_total(check: Check, repo: Repo, mr: MayRaise) -> None:
    rule = "EXEC-WRAP"
    check.rule(
        rule,
        "field execution is total: in execute_field, complete_awaitable_value, complete_list_item_value and "
        "complete_awaitable_list_item_value every call of a raising completion step (complete_value & co.) and "
        "every call of a user callback (resolver, is_type_of, resolve_type, coerce_output_value - found by "
        "dataflow from field_def.resolve / self.field_resolver / return_type.is_type_of ...) lies inside a try "
        "whose `except Exception` handler converts with handle_field_error / located_error (a re-raising "
        "handler does not count); a callback call in a partial function is accepted only if every call chain "
        "to it passes such a try; handle_field_error raises nothing but the value located_error returned",
    )
    # (a) partial functions (those with an explicit raise of their own or reaching one) are called from the
    #     wrappers only inside try/except Exception
    wrap_names = ("Executor.execute_field", "Executor.complete_awaitable_value", "Executor.complete_list_item_value",
                  "Executor.complete_awaitable_list_item_value")
    partial = {"complete_value", "complete_list_value", "complete_leaf_value", "complete_abstract_value", "complete_object_value",
               "ensure_valid_runtime_type", "get_argument_values", "collect_and_execute_subfields", "with_abort_signal"}
    for q in wrap_names:
        fn = repo.func("execution.executor", q)
        for c in walk_body(fn):
            if isinstance(c, ast.Call) and last_attr(c) in partial:
                ok = _converting_try(c)
                check.ob(rule, c, f"{q}: call of partial {last_attr(c)}()", ok,
                         "inside try/except Exception -> handle_field_error" if ok else "a raising completion step is called outside the wrapper's try")
        handlers = [h for t in ast.walk(fn) if isinstance(t, ast.Try) for h in t.handlers]
        good = [h for h in handlers if h.type is not None and unparse(h.type) == "Exception"
                and any(isinstance(x, ast.Call) and last_attr(x) == "handle_field_error" for x in ast.walk(h))]
        check.ob(rule, fn, f"{q}: except Exception -> handle_field_error", bool(good) and len(good) == len(handlers),
                 f"{len(good)} of {len(handlers)} handlers convert with handle_field_error")
    hf = repo.func("execution.executor", "Executor.handle_field_error")
    raises = [r for r in walk_body(hf) if isinstance(r, ast.Raise)]
    ok = len(raises) == 1 and isinstance(raises[0].exc, ast.Name)
    if ok:
        nm = raises[0].exc.id
        defs = [a for a in walk_body(hf) if isinstance(a, ast.Assign) and unparse(a.targets[0]) == nm]
        ok = len(defs) == 1 and isinstance(defs[0].value, ast.Call) and call_name(defs[0].value) == "located_error"
    check.ob(rule, hf, "handle_field_error raises only the located error", ok, "")
    # user callbacks inside try/except Exception
    ex = repo.mod("execution.executor")
    callbacks = []
    for fn in ex.functions():
        cb_names = set()
        for a in walk_body(fn):
            if isinstance(a, ast.Assign) and len(a.targets) == 1 and isinstance(a.targets[0], ast.Name):
                v = unparse(a.value)
                if any(k in v for k in ("field_def.resolve", "self.field_resolver", "get_field_resolver", "return_type.resolve_type",
                                        "self.type_resolver", "field_def.subscribe")):
                    cb_names.add(a.targets[0].id)
        for c in walk_body(fn):
            if isinstance(c, ast.Call):
                f = c.func
                if isinstance(f, ast.Name) and f.id in cb_names:
                    callbacks.append((fn, c))
                elif isinstance(f, ast.Attribute) and f.attr in ("is_type_of", "coerce_output_value") and not unparse(f.value).startswith("self"):
                    callbacks.append((fn, c))
    wrappers = {"Executor.execute_field", "Executor.complete_list_item_value", "Executor.complete_awaitable_value",
                "Executor.complete_awaitable_list_item_value"}
    cg = mr.cg
    for fn, c in callbacks:
        ok = _converting_try(c)
        why = "inside try/except Exception"
        if not ok:
            # the enclosing function is partial: every caller chain must reach a wrapper's try
            ok = _all_callers_wrapped(repo, cg, fn, wrappers, set(), 6)
            why = "partial function; every call chain passes a covering try in a wrapper" if ok else \
                "a user callback is called outside any try/except Exception and a caller chain reaches it unwrapped"
        check.ob(rule, c, f"callback {node_text(c, 50)} in {qualname_of(c)}", ok, why)
    check.floor(rule, 8, "wrappers + callback call sites")


def _converting_try(node: ast.AST) -> bool:
    """Inside a try whose `except Exception` handler converts (handle_field_error / raise located_error)."""
    from sa.cfg import handler_types

    child = node
    for a in ancestors(node):
        if isinstance(a, (*FuncDef, ast.Lambda)):
            return False
        if isinstance(a, ast.Try) and any(child is s or any(x is child for x in ast.walk(s)) for s in a.body):
            for h in a.handlers:
                if set(handler_types(h)) & {"Exception", "BaseException"}:
                    if any(isinstance(x, ast.Call) and last_attr(x) in ("handle_field_error", "located_error") for x in ast.walk(h)):
                        return True
        child = a
    return False


def _all_callers_wrapped(repo: Repo, cg: CallGraph, fn: ast.AST, wrappers: set[str], seen: set, depth: int) -> bool:
    if fn in seen:
        return True
    seen.add(fn)
    if depth == 0:
        return False
    mod = module_of(fn)
    sites = []
    for g in mod.functions():
        for c, t in cg.callees(g):
            if t is fn and enclosing_function(c) is not None:
                sites.append((c, g))
    if not sites:
        if qualname_of(fn) in wrappers:
            return True
        # never called directly but referenced as a value: it is itself installed as a callback
        # (default resolvers), and callback *calls* are checked at their own sites
        nm = getattr(fn, "name", None)
        return any(isinstance(x, ast.Name) and x.id == nm and isinstance(x.ctx, ast.Load)
                   and not (isinstance(parent(x), ast.Call) and parent(x).func is x) for x in ast.walk(mod.tree))
    for c, g in sites:
        if _converting_try(c):
            continue
        owner = enclosing_function(c)
        while owner is not None and enclosing_function(owner) is not None:
            owner = enclosing_function(owner)  # a nested coroutine is awaited by the callers of its outer function
        if owner is None or not _all_callers_wrapped(repo, cg, owner if isinstance(owner, FuncDef) else g, wrappers, seen, depth - 1):
            return False
    return True


def convert_sites(check: Check, repo: Repo) -> None:
    rule = "CONVERT"
    check.rule(
        rule,
        "graphql_impl: the parse call and the awaited document are each inside a try whose handler catches "
        "GraphQLError and returns ExecutionResult(data=None, errors=[error]); execute_operation's sync and "
        "async exits catch GraphQLError, add it to the collected errors and build a null response",
    )
    fn = repo.func("graphql.graphql", "graphql_impl")
    sites = [c for c in ast.walk(fn) if isinstance(c, ast.Call) and unparse(c.func) == "harness.parse"]
    sites += [a for a in ast.walk(fn) if isinstance(a, ast.Await) and "document" in unparse(a.value) and "DocumentNode" in unparse(a.value)]
    for s in sites:
        t = covered_by_try(s, {"GraphQLError", "Exception"})
        ok = t is not None and all(
            len(h.body) == 1 and isinstance(h.body[0], ast.Return) and unparse(h.body[0].value) == f"ExecutionResult(data=None, errors=[{h.name}])"
            for h in t.handlers if h.type is not None and unparse(h.type) == "GraphQLError")
        check.ob(rule, s, f"graphql_impl: {node_text(s, 50)}", ok, "GraphQLError -> errors-only result" if ok else "not converted into a result")
    op = repo.func("execution.executor", "Executor.execute_operation")
    hs = [h for t in ast.walk(op) if isinstance(t, ast.Try) for h in t.handlers if h.type is not None and unparse(h.type) == "GraphQLError"]
    good = [h for h in hs if any("self.collected_errors.add" in unparse(s) for s in h.body) and any("build_response(None)" in unparse(s) for s in h.body)]
    check.ob(rule, op, "execute_operation: GraphQLError -> null response (sync and async exit)", len(good) == 2 and len(hs) == 2,
             f"{len(good)} converting handlers of {len(hs)}")
    check.floor(rule, 3, "conversion sites")


def untrusted_attr(check: Check, repo: Repo) -> None:
    rule = "UNTRUSTED-ATTR"
    check.rule(
        rule,
        "attributes read from an arbitrary exception object (duck typing in located_error / "
        "GraphQLError.__init__: message, nodes, source, positions, extensions) reach the GraphQLError "
        "constructor or its state only through an isinstance / type-guard test of the value read; an "
        "unguarded value of the wrong type crashes error construction (or leaks a non-map `extensions` into "
        "the response) - a resolver exception must never make execution itself raise",
    )
    le = repo.func("error.located_error", "located_error")
    flow = FactFlow(CFG(le))
    reads = []
    for a in walk_body(le):
        if isinstance(a, ast.Attribute) and isinstance(a.value, ast.Name) and a.value.id == "original_error" and isinstance(a.ctx, ast.Load):
            if a.attr in ("path",):
                continue  # read only on a value already tested to be a GraphQLError
            reads.append(a)
    for c in walk_body(le):
        if isinstance(c, ast.Call) and call_name(c) == "getattr" and len(c.args) >= 2 and unparse(c.args[0]) == "original_error" \
                and isinstance(c.args[1], ast.Constant):
            fake = ast.Attribute(value=c.args[0], attr=str(c.args[1].value), ctx=ast.Load())
            ast.copy_location(fake, c)
            fake.parent = getattr(c, "parent", None)  # type: ignore[attr-defined]
            c._as_attr = fake  # type: ignore[attr-defined]
            reads.append(c)
    ret = [r for r in walk_body(le) if isinstance(r, ast.Return) and isinstance(r.value, ast.Call) and call_name(r.value) == "GraphQLError"]
    if not ret:
        raise AnalysisError("located_error: GraphQLError(...) return not found")
    final = ret[-1]
    for a in reads:
        attr_name = a.attr if isinstance(a, ast.Attribute) else str(a.args[1].value)
        # the local the read is stored in
        st = parent(a)
        while st is not None and not isinstance(st, ast.stmt):
            st = parent(st)
        tgt = unparse(st.targets[0]) if isinstance(st, ast.Assign) else None
        converted = isinstance(parent(a), ast.Call) and call_name(parent(a)) == "str"
        guarded = False
        if tgt:
            # a type test of the local exists between the read and the constructor call
            for n in walk_body(le):
                # a type test: isinstance(...) or a predicate is_<something>(value, ...) applied to the local
                if isinstance(n, ast.Call) and (call_name(n) == "isinstance" or call_name(n).startswith("is_")) \
                        and n.args and unparse(n.args[0]) == tgt:
                    guarded = True
        ok = converted or guarded
        check.ob(rule, a, f"located_error reads original_error.{attr_name}", ok,
                 "converted with str() / type-tested before use" if ok else
                 f"`{tgt or unparse(a)}` is passed to GraphQLError(...) without any type test: an exception whose `{attr_name}` "
                 f"attribute has an unexpected type makes located_error itself raise")
    gi = repo.func("error.graphql_error", "GraphQLError.__init__")
    for c in walk_body(gi):
        if isinstance(c, ast.Call) and call_name(c) == "getattr" and len(c.args) >= 2:
            st = parent(c)
            while st is not None and not isinstance(st, ast.stmt):
                st = parent(st)
            tgt = unparse(st.targets[0]) if isinstance(st, ast.Assign) else None
            # every later use of the local is under an isinstance fact, or is the isinstance test itself
            ok = False
            if tgt:
                fl = FactFlow(CFG(gi))
                uses = [n for n in walk_body(gi) if isinstance(n, ast.Name) and n.id == tgt and isinstance(n.ctx, ast.Load)]
                ok = bool(uses)
                for u in uses:
                    p = parent(u)
                    if isinstance(p, ast.Call) and call_name(p) == "isinstance":
                        continue
                    facts = fl.facts_at(u)
                    if not any(f.kind == "cond" and f.pol and f.text.startswith(f"isinstance({tgt},") for f in facts):
                        ok = False
            check.ob(rule, c, f"GraphQLError.__init__: {unparse(c)}", ok,
                     "used only under isinstance" if ok else f"the value of {unparse(c)} is used without an isinstance guard")
    check.floor(rule, 4, "duck-typed attribute reads")


def visited_before_recurse(check: Check, repo: Repo, mods: list[Module], rule: str = "VISITED-BEFORE-RECURSE") -> None:
    check.rule(
        rule,
        "a function that skips names already in a visited collection (`if name in visited: continue/return`) "
        "and then recurses marks the name (visited.add(name) / visited[name] = ...) on every path between "
        "the test and the recursive call; marking only after the call does not stop a cyclic fragment "
        "spread (RecursionError out of validation)",
    )
    n = 0
    for mod in mods:
        for fn in mod.functions():
            # membership tests that skip
            tests = []
            for i in walk_body(fn):
                if isinstance(i, ast.If) and isinstance(i.test, ast.Compare) and len(i.test.ops) == 1 and isinstance(i.test.ops[0], ast.In) \
                        and i.body and isinstance(i.body[0], (ast.Continue, ast.Return)) and isinstance(i.test.comparators[0], (ast.Name, ast.Attribute)):
                    tests.append(i)
            if not tests:
                continue
            rec = [c for c in walk_body(fn) if isinstance(c, ast.Call) and last_attr(c) == fn.name]  # type: ignore[attr-defined]
            if not rec:
                continue
            cfg = CFG(fn)
            for t in tests:
                key, coll = unparse(t.test.left), unparse(t.test.comparators[0])
                tnodes = [m for m in cfg.nodes if m.kind == "test" and m.ast is t.test]
                starts = [m for tn in tnodes for m, l in cfg.succ[tn] if l and l[0] == "cond" and l[2] is False]

                same: dict[str, set[str]] = {coll: {coll}, key: {key}}
                for a in walk_body(fn):
                    if isinstance(a, ast.Assign) and len(a.targets) == 1 and isinstance(a.targets[0], ast.Name):
                        v = unparse(a.value)
                        for base in (coll, key):
                            if v == base:
                                same[base].add(a.targets[0].id)

                def marks(m, coll=coll, key=key, same=same) -> bool:
                    a = m.ast
                    if a is None or m.kind not in ("stmt",):
                        return False
                    txt = unparse(a)
                    for c_ in same[coll]:
                        for k_ in same[key]:
                            if txt.startswith(f"{c_}.add({k_})") or txt.startswith(f"{c_}[{k_}] =") or txt.startswith(f"{c_}.append({k_})"):
                                return True
                    return False

                aliases = {}
                for a in walk_body(fn):
                    if isinstance(a, ast.Assign) and len(a.targets) == 1 and isinstance(a.targets[0], ast.Name) and isinstance(a.value, ast.Attribute) \
                            and a.value.attr in ("add", "append") and unparse(a.value.value) == coll:
                        aliases[a.targets[0].id] = True

                def marks2(m, marks=marks, aliases=aliases, key=key) -> bool:
                    if marks(m):
                        return True
                    a = m.ast
                    if a is not None and m.kind == "stmt" and isinstance(a, ast.Expr) and isinstance(a.value, ast.Call) \
                            and isinstance(a.value.func, ast.Name) and a.value.func.id in aliases and [unparse(x) for x in a.value.args] == [key]:
                        return True
                    return False

                rec_nodes = {m for c in rec for m in cfg.node_for_expr(c)}
                reach_rec = any(r in cfg.reachable(starts, follow=no_exc) for r in rec_nodes)
                if not reach_rec:
                    continue
                n += 1
                bad = None
                for s0 in starts:
                    p = cfg.find_path(s0, lambda m: m in rec_nodes, follow=no_exc, avoid=marks2)
                    if p is not None or s0 in rec_nodes:
                        bad = p or [s0]
                check.ob(rule, t, f"{qualname_of(t)}: `{key} in {coll}` guard", bad is None,
                         f"{coll} is marked with {key} before every recursive call" if bad is None else
                         f"the recursive call at line {getattr(bad[-1].ast, 'lineno', '?')} is reached without {coll} having been marked with {key}")
    check.floor(rule, 3, "visited-guarded recursions")


def validate_total(check: Check, repo: Repo, mr: MayRaise) -> None:
    rule = "VALIDATE-TOTAL"
    check.rule(
        rule,
        "validation reports, it does not raise: no GraphQLError (sub)class raised explicitly in code reachable "
        "from an enter_/leave_ handler of a rule (through the resolved call graph, e.g. directive argument "
        "coercion inside the executor's collect_fields) can escape the handler un-caught - validate() catches "
        "only its own ValidationAbortedError and graphql_impl has no handler around validation, so such an "
        "error leaves graphql_sync as an exception. (Defensive TypeError/ValueError raises on paths the "
        "type system excludes are not modelled: path-insensitive.)",
    )
    classes = mr.classes
    base = classes.get("validation.rules", "ASTValidationRule")
    n = 0
    for ci in classes.subclasses(base):
        if ".custom" in ci.mod.name or not ci.mod.name.startswith("graphql.validation.rules."):
            continue
        for name, m in ci.methods().items():
            if not (name.startswith(("enter", "leave")) or name == "__init__"):
                continue
            summ = mr.summary(m)
            n += 1
            bad = {c: ch for c, ch in summ.items() if "GraphQLError" in mr.hier.supers(c) and c != "ValidationAbortedError"}
            check.ob(rule, m, f"{ci.name}.{name}", not bad,
                     "no explicit raise escapes" if not bad else f"{sorted(bad)} can escape validate(): {list(bad.values())[0][:160]}")
    check.floor(rule, 60, "rule handlers")


# -- partial operations on the validation path ------------------------------------

# constant-index reads whose bound is an invariant of a data structure built elsewhere:
# (file suffix, function, subscript text) -> reason.  One named construct each.
INDEX_INVARIANTS = {
    ("validation/rules/known_argument_names.py", "KnownArgumentNamesRule.enter_argument", "args[3]"):
        "visit() calls every handler with (node, key, parent, path, ancestors): *args has 4 entries",
    ("validation/rules/known_argument_names.py", "KnownArgumentNamesRule.enter_argument", "args[3][-1]"):
        "an ArgumentNode is only reached through the arguments tuple of its field/directive: ancestors is non-empty",
    ("validation/rules/known_directives.py", "get_directive_location_for_ast_path", "ancestors[-1]"):
        "a DirectiveNode is only reached through the directives tuple of its owner: ancestors ends with (owner, tuple)",
    ("validation/rules/known_directives.py", "get_directive_location_for_ast_path", "ancestors[-3]"):
        "arm taken only for input value / variable definitions, which sit in a tuple of their own parent node below the document",
    ("validation/rules/overlapping_fields_can_be_merged.py", "subfield_conflicts", "conflict[0]"):
        "Conflict is the fixed 3-tuple (reason, fields1, fields2) built only by find_conflict/subfield_conflicts",
    ("validation/rules/overlapping_fields_can_be_merged.py", "subfield_conflicts", "conflict[1]"):
        "Conflict is a fixed 3-tuple",
    ("validation/rules/overlapping_fields_can_be_merged.py", "subfield_conflicts", "conflict[2]"):
        "Conflict is a fixed 3-tuple",
    ("validation/rules/single_field_subscriptions.py", "SingleFieldSubscriptionsRule.enter_operation_definition", "to_nodes(field_details_list)[0]"):
        "collect_fields only creates a group when it appends its first member: groups are non-empty",
    ("pyutils/suggestion_list.py", "LexicalDistance.measure", "rows[0]"):
        "self._rows is the 3-element list literal built in __init__",
}


def _const_index(sub: ast.Subscript) -> bool:
    sl = sub.slice
    if isinstance(sl, ast.Constant) and isinstance(sl.value, int) and not isinstance(sl.value, bool):
        return True
    return isinstance(sl, ast.UnaryOp) and isinstance(sl.op, ast.USub) and isinstance(sl.operand, ast.Constant) and isinstance(sl.operand.value, int)


def index_guard(check: Check, repo: Repo, mods: list[Module], rule: str = "INDEX-GUARD") -> None:
    from rules.bounds import FlowCache, index_reads, prove_index

    check.rule(
        rule,
        "on the validation path every read at a constant position (xs[0], xs[-1], xs[-3] ...) is dominated "
        "by facts that entail the position exists (length tests, truthiness, a push, boolean locals holding "
        "such a test), sits inside a handler for IndexError, or is one of the named data-structure "
        "invariants listed in INDEX_INVARIANTS; an unguarded read turns a malformed document into an "
        "IndexError out of validate()",
    )
    flows = FlowCache()
    for m in mods:
        for sub in index_reads(m.tree):
            if not _const_index(sub):
                continue
            ok, why = prove_index(sub, flows)
            if not ok and isinstance(sub.value, ast.Name):
                # `xs = f(...)` ... `xs[0]` is `f(...)[0]` with a name for the call result: the rule covers reads of
                # parameters, attributes and lists the function builds, not the result contract of a callee
                f_ = enclosing_function(sub)
                if f_ is not None and not isinstance(f_, ast.Lambda):
                    from sa.loader import parent as _parent

                    stores = [x for x in ast.walk(f_) if isinstance(x, ast.Name) and x.id == sub.value.id and isinstance(x.ctx, ast.Store)]
                    params = {a.arg for a in f_.args.posonlyargs + f_.args.args + f_.args.kwonlyargs}
                    b_ = _parent(stores[0]) if len(stores) == 1 else None
                    binds = [b_]
                    if isinstance(b_, ast.Assign) and isinstance(b_.value, ast.Call) and sub.value.id not in params \
                            and len(b_.targets) == 1 and b_.targets[0] is stores[0] and isinstance(b_.value.func, ast.Name) \
                            and not hasattr(__import__("builtins"), b_.value.func.id):  # list(x), sorted(x) ... build the list here: in scope
                        ok, why = True, f"`{sub.value.id}` names the result of {unparse(binds[0].value)[:40]}: same read as indexing the call directly (outside this rule)"
            if not ok:
                key = next((k for k in INDEX_INVARIANTS if m.rel.endswith(k[0]) and qualname_of(sub) == k[1] and unparse(sub) == k[2]), None)
                if key is not None:
                    ok, why = True, "invariant: " + INDEX_INVARIANTS[key]
            check.ob(rule, sub, node_text(sub, 60), ok, why)


STOP_CATCHERS = {"StopIteration", "Exception", "BaseException"}

_next_flows: dict[ast.AST, FactFlow] = {}


def _nonempty_proof(call: ast.Call) -> str | None:
    """next(iter(xs)) / next(iter(xs.values())): do the dominating facts entail len(xs) >= 1 ?"""
    from sa.guards import Constraints, Lin

    e = call.args[0]
    if isinstance(e, ast.Call) and call_name(e) == "iter" and len(e.args) == 1:
        e = e.args[0]
    else:
        return None
    if isinstance(e, ast.Call) and isinstance(e.func, ast.Attribute) and e.func.attr in ("values", "keys", "items") and not e.args:
        e = e.func.value
    if not isinstance(e, (ast.Name, ast.Attribute)):
        return None
    fn = enclosing_function(call)
    if fn is None or isinstance(fn, ast.Lambda):
        return None
    if fn not in _next_flows:
        _next_flows[fn] = FactFlow(CFG(fn))
    cons = Constraints(_next_flows[fn].facts_at(call))
    return cons.prove_ge0(Lin({f"len({unparse(e)})": 1}, -1))


def next_total(check: Check, repo: Repo, mods: list[Module], exempt: dict[tuple[str, str], str] | None = None, rule: str = "NEXT-TOTAL") -> None:
    check.rule(
        rule,
        "every one-argument next(...) call has a default or sits in a try whose handler covers "
        "StopIteration: a search over a collection that can lack the element (a meta field is not in "
        "parent_type.fields) otherwise raises StopIteration out of the visitor",
    )
    exempt = exempt or {}
    for m in mods:
        for c in ast.walk(m.tree):
            if not (isinstance(c, ast.Call) and isinstance(c.func, ast.Name) and c.func.id == "next"):
                continue
            if len(c.args) >= 2:
                check.ob(rule, c, node_text(c, 60), True, "has a default", nontrivial=False)
                continue
            t = covered_by_try(c, STOP_CATCHERS)
            why = exempt.get((m.rel.split("src/graphql/")[-1], qualname_of(c)))
            proof = None
            if t is None and why is None:
                proof = _nonempty_proof(c)
            ok = t is not None or why is not None or proof is not None
            check.ob(rule, c, node_text(c, 60), ok,
                     f"inside try/except covering StopIteration (line {t.lineno})" if t is not None else
                     (f"exempt: {why}" if why else (f"the collection is non-empty here: {proof}" if proof else "no default and no handler for StopIteration")))


# -- suggestion_list: rows are allocated for the sequence that indexes them -----------

_LEN_PRESERVING = {"list", "tuple", "sorted", "reversed"}


def _len_origin(e: ast.AST, fn: ast.AST, depth: int = 0) -> str:
    """Canonical text of the sequence whose length `e` has (through length-preserving wrappers)."""
    if depth > 6:
        return unparse(e)
    if isinstance(e, ast.Call) and isinstance(e.func, ast.Name):
        if e.func.id in _LEN_PRESERVING and len(e.args) == 1:
            return _len_origin(e.args[0], fn, depth + 1)
        if e.func.id == "map" and len(e.args) == 2:
            return _len_origin(e.args[1], fn, depth + 1)
    if isinstance(e, (ast.Name, ast.Attribute)):
        text = unparse(e)
        defs = [
            s for s in walk_body(fn)
            if isinstance(s, ast.Assign) and len(s.targets) == 1 and unparse(s.targets[0]) == text
        ]
        if len(defs) == 1:
            return _len_origin(defs[0].value, fn, depth + 1)
    return unparse(e)


def row_alloc(check: Check, repo: Repo, rule: str = "ROW-ALLOC") -> None:
    check.rule(
        rule,
        "LexicalDistance.__init__ sizes the three DP rows from the same sequence that measure() later "
        "indexes them with: row_size = len(S) + 1 where S has the length of self._input_list (followed "
        "through list/map/tuple, which preserve length - str.lower() does not: 'I\\u0307'.lower() is longer); "
        "rows sized by the raw input are too short for such an input and rows[0][j] raises IndexError",
    )
    init = repo.func("pyutils.suggestion_list", "LexicalDistance.__init__")
    want = _len_origin(ast.parse("self._input_list", mode="eval").body, init)
    sizes = [s for s in walk_body(init) if isinstance(s, ast.Assign) and len(s.targets) == 1 and unparse(s.targets[0]) == "row_size"]
    if len(sizes) != 1:
        raise AnalysisError("anchor missing: row_size assignment in LexicalDistance.__init__")
    lens = [c for c in ast.walk(sizes[0].value) if isinstance(c, ast.Call) and call_name(c) == "len" and len(c.args) == 1]
    got = [_len_origin(c.args[0], init) for c in lens]
    ok = len(got) == 1 and got[0] == want
    check.ob(rule, sizes[0], "row_size = " + unparse(sizes[0].value), ok,
             f"rows and self._input_list both have the length of `{want}`" if ok else
             f"rows are sized by `{got}` but indexed up to the length of `{want}`")
    # the index bound in measure() is the shorter of the two sequences
    measure = repo.func("pyutils.suggestion_list", "LexicalDistance.measure")
    swaps = [s for s in walk_body(measure) if isinstance(s, ast.If) and "a_len < b_len" in unparse(s.test)]
    check.ob(rule, measure, "measure(): b is the shorter sequence", bool(swaps),
             "a/b are swapped so that b_len <= len(self._input_list) bounds the column index" if swaps else
             "no swap making b the shorter sequence: the column index can exceed the row size")


# -- round 3 ------------------------------------------------------------------------------------------------


def fragment_recursion_guard(check: Check, repo: Repo, mods: list[Module], rule: str = "FRAGMENT-RECURSION") -> None:
    check.rule(
        rule,
        "a function of the validation package that looks a fragment up (get_fragment) and then calls itself "
        "(directly, or itself again for the fragment's children) follows fragment spreads, and documents may "
        "contain cycles of any length: the function tests membership of the fragment name in a collection "
        "before descending (`name in visited` -> return/continue) and puts the name into that collection "
        "before the recursive call. A guard that only compares with the *current* fragment name stops "
        "self-spreads but recurses forever on `A -> B -> A` (RecursionError out of validate())",
    )
    n = 0
    for mod in mods:
        for fn in mod.functions():
            name = fn.name
            looks_up = [c for c in walk_body(fn) if isinstance(c, ast.Call) and last_attr(c) in ("get_fragment", "_get_fragment")]
            rec = [c for c in walk_body(fn) if isinstance(c, ast.Call) and last_attr(c) == name]
            if not (looks_up and rec):
                continue
            n += 1
            member = []
            for t in walk_body(fn):
                if isinstance(t, ast.Compare) and len(t.ops) == 1 and isinstance(t.ops[0], (ast.In, ast.NotIn)):
                    member.append(unparse(t.comparators[0]))
                elif isinstance(t, ast.Call) and isinstance(t.func, ast.Attribute) and t.func.attr in ("has", "__contains__"):
                    member.append(unparse(t.func.value))  # the pair sets of the merge rule: has(...) / add(...)
            marks = set()
            for s_ in walk_body(fn):
                if isinstance(s_, ast.Call) and isinstance(s_.func, ast.Attribute) and s_.func.attr in ("add", "append") :
                    marks.add(unparse(s_.func.value))
                if isinstance(s_, ast.Assign) and isinstance(s_.targets[0], ast.Subscript):
                    marks.add(unparse(s_.targets[0].value))
            # aliases `visited = self._visited`
            alias = {a.targets[0].id: unparse(a.value) for a in walk_body(fn) if isinstance(a, ast.Assign) and len(a.targets) == 1
                     and isinstance(a.targets[0], ast.Name) and isinstance(a.value, ast.Attribute)}
            norm = lambda x: alias.get(x, x)  # noqa: E731
            ok = any(norm(m) in {norm(k) for k in marks} for m in member)
            check.ob(rule, fn, f"{qualname_of(fn)}: recursion through fragment spreads is guarded by a visited collection", ok,
                     f"membership test and mark on `{next(m for m in member if norm(m) in {norm(k) for k in marks})}`" if ok else
                     "no collection is both tested for the fragment name and extended before the recursive call")
    if n < 2:
        raise AnalysisError("FRAGMENT-RECURSION: recursive fragment followers not found")


LEAF_CALLBACKS = {"coerce_input_value", "parse_value", "parse_literal", "coerce_input_literal", "coerce_output_value", "serialize"}


def leaf_callback_wrap(check: Check, repo: Repo, rule: str = "LEAF-CALLBACK-WRAP") -> None:
    check.rule(
        rule,
        "in the input coercion / input validation walks a custom scalar's parser is user code: every call "
        "`leaf_type.<parse function>(...)` sits in a try that has a handler for Exception (an additional, "
        "narrower handler for GraphQLError may come first). A handler list narrowed to "
        "(GraphQLError, TypeError, ValueError) lets decimal.InvalidOperation or AttributeError from "
        "uuid.UUID(123) leave graphql_sync as an exception",
    )
    n = 0
    for mn, fname in (("utilities.coerce_input_value", "coerce_input_value"), ("utilities.coerce_input_value", "coerce_input_literal"),
                      ("utilities.validate_input_value", "validate_input_value_impl"), ("utilities.validate_input_value", "validate_input_literal_impl")):
        fn = repo.func(mn, fname)
        for c in walk_body(fn):
            if isinstance(c, ast.Call) and isinstance(c.func, ast.Attribute) and c.func.attr in LEAF_CALLBACKS \
                    and isinstance(c.func.value, ast.Name) and "type" in c.func.value.id:
                t = covered_by_try(c, {"Exception", "BaseException"})
                n += 1
                check.ob(rule, c, f"{fname}: {node_text(c, 60)}", t is not None,
                         f"inside try/except Exception (line {t.lineno})" if t is not None else
                         "no enclosing handler for Exception: an arbitrary exception of the user's parser escapes")
    if n < 4:
        raise AnalysisError("LEAF-CALLBACK-WRAP: leaf callbacks not found")


def collection_shapes(check: Check, repo: Repo, rule: str = "UNTRUSTED-ATTR") -> None:
    """Clause of UNTRUSTED-ATTR: what located_error lets through as `nodes`, GraphQLError.__init__ can take."""
    from sa.loader import class_tests

    ic = repo.func("error.located_error", "is_collection_of")
    admitted = class_tests(ic, ic.args.args[0].arg) - {"item_type"}
    init = repo.func("error.graphql_error", "GraphQLError.__init__")
    handled = class_tests(init, "nodes")
    missing = {c for c in admitted if c in ("list", "tuple", "set", "frozenset")} - handled
    check.ob(rule, init, f"GraphQLError.__init__ normalises every collection class located_error admits for `nodes` ({sorted(admitted)})", not missing,
             f"isinstance tests on `nodes`: {sorted(handled)}" if not missing else
             f"located_error passes a {sorted(missing)} of nodes through, but __init__ wraps everything that is not a list as a single node: "
             "`.loc` is then read from the collection itself (AttributeError out of execution)")


def str_conversions(check: Check, repo: Repo, rule: str = "STR-TOTAL") -> None:
    from rules.write_effect import top_heads
    from sa.mtypes import MTypes

    check.rule(
        rule,
        "conversions between text and numbers that CPython bounds at 4300 digits, on paths a request can reach. "
        "Two places where a value taken from the variables mapping is turned into text while an error message "
        "is being built: (1) inspect() - repr() of an int can raise ValueError (CPython refuses to convert ints "
        "of more than 4300 digits), so the int arm of inspect_recursive converts inside a handler for ValueError; "
        "(2) suggestion_list(<name>, ...) lower-cases its first argument, so every call passes a value that is a "
        "str by type (mypy: builtins.str, e.g. the value of a NameNode) or under a dominating "
        "isinstance(<name>, str) test - the keys of a dict given as an input object value are arbitrary; (3) every "
        "int(<text>) of the package (argument typed str by mypy) sits in a try that catches ValueError, or is the literal "
        "coercer registered for a scalar (called under try/except Exception by every walker): a field name with a run of "
        "5000 digits must not make validation raise (natural_comparison_key orders digit runs without converting them)",
    )
    fn = repo.func("pyutils.inspect", "inspect_recursive")
    reprs = []
    for i in walk_body(fn):
        if isinstance(i, ast.If) and "int" in {x.id for x in ast.walk(i.test) if isinstance(x, ast.Name)} and "isinstance" in unparse(i.test):
            reprs += [c for s_ in i.body for c in ast.walk(s_) if isinstance(c, ast.Call) and call_name(c) in ("repr", "str")]
    if not reprs:
        raise AnalysisError("inspect_recursive: int arm not found")
    for c in reprs:
        t = covered_by_try(c, {"ValueError", "Exception", "BaseException"})
        check.ob(rule, c, f"inspect_recursive: {unparse(c)} of an int", t is not None,
                 f"inside try/except ValueError (line {t.lineno})" if t is not None else "repr() of a huge int raises ValueError and nothing catches it")
    mt = MTypes.get(repo)
    flows: dict[ast.AST, FactFlow] = {}
    n = 0
    for mod in repo.modules.values():
        for c in ast.walk(mod.tree):
            if not (isinstance(c, ast.Call) and call_name(c) == "suggestion_list" and c.args):
                continue
            a = c.args[0]
            ty = mt.type_of(a)
            heads = top_heads(ty) if ty else set()
            ok, why = heads == {"builtins.str"}, f"typed {ty}"
            if ok and isinstance(a, ast.Name):
                # the declared type of a re-used loop variable says nothing about this binding: when the
                # name is bound by an enclosing `for <name>, ... in <iter>` take the key type of <iter>
                loop = next((x for x in ancestors(c) if isinstance(x, ast.For)
                             and a.id in {n.id for n in ast.walk(x.target) if isinstance(n, ast.Name)}), None)
                if loop is not None:
                    ity = mt.type_of(loop.iter) or "Any"
                    if "Any" in re.split(r"[\[\], |]+", ity):
                        ok, why = False, f"bound from `{unparse(loop.iter)}` ({ity})"
                        ty = ity
            if not ok and isinstance(a, ast.Name):
                f = enclosing_function(c)
                if f is not None and not isinstance(f, ast.Lambda):
                    if f not in flows:
                        flows[f] = FactFlow(CFG(f))
                    for fact in flows[f].facts_at(c):
                        if fact.kind == "cond" and fact.pol and unparse(fact.expr) == f"isinstance({a.id}, str)":
                            ok, why = True, f"dominated by isinstance({a.id}, str)"
                    # parameter annotated str
                    ann = {p.arg: unparse(p.annotation) for p in f.args.args if p.annotation is not None}
                    if ann.get(a.id) == "str":
                        ok, why = True, "parameter annotated str"
            n += 1
            check.ob(rule, c, f"{qualname_of(c)}: suggestion_list({unparse(a)}, ...)", ok,
                     why if ok else f"`{unparse(a)}` is not known to be a str here ({ty or 'Any'}): a non-string key reaches .lower()")
    if n < 5:
        raise AnalysisError("STR-TOTAL: suggestion_list call sites not found")
    # (3) text -> int: int(<str>) refuses more than 4300 digits (ValueError) just like repr(<int>) does
    sm = repo.mod("type.scalars")
    registered = {unparse(kw.value) for c in ast.walk(sm.tree) if isinstance(c, ast.Call) and call_name(c) == "GraphQLScalarType"
                  for kw in c.keywords if kw.arg in ("coerce_input_literal", "parse_literal")}
    k = 0
    for mod in repo.modules.values():
        if mod.name.endswith(".version"):
            continue
        for c in ast.walk(mod.tree):
            if not (isinstance(c, ast.Call) and isinstance(c.func, ast.Name) and c.func.id == "int" and len(c.args) == 1):
                continue
            ty = mt.type_of(c.args[0]) or ""
            if "builtins.str" not in top_heads(ty):
                continue
            k += 1
            t = covered_by_try(c, {"ValueError", "Exception", "BaseException"})
            fnn = qualname_of(c)
            in_leaf = fnn in registered
            check.ob(rule, c, f"{fnn}: {unparse(c)[:40]} of text", t is not None or in_leaf,
                     (f"inside try/except (line {t.lineno})" if t is not None else "literal coercer of a scalar: every caller wraps it (LEAF-CALLBACK-WRAP)") if t is not None or in_leaf else
                     "a run of more than 4300 digits raises ValueError here and nothing catches it")
    if k < 2:
        raise AnalysisError("STR-TOTAL: int(<text>) sites not found")


SCHEMA_RAISE_ALLOWED = {
    # (function that contains the raise, class) -> why it cannot be reached by an invalid *schema*
    ("assert_schema", "TypeError"): "precondition on the argument itself: validate_schema(<not a schema>) is a caller error, not an invalid schema",
    ("assert_leaf_type", "TypeError"): "reached after the non-null, list and input-object arms; the type is an input type there - the top-level call is made for positions that passed is_input_type (KIND-CONTRADICTION) and every descent into a field type is under is_input_type(field.type) (checked below: INPUT-DESCENT clause)",
    ("format_list", "ValueError"): "and_list() is called with the operation types sharing a root type, at least two names",
    ("inspect_recursive", "Exception"): "`raise AttributeError` inside inspect_recursive's own try/except AttributeError (control flow for objects without __inspect__)",
}


def schema_validation_total(check: Check, repo: Repo, mr: MayRaise, rule: str = "SCHEMA-VALIDATION-TOTAL") -> None:
    check.rule(
        rule,
        "validate_schema reports, it does not raise: the explicit raise statements that can leave validate_schema "
        "(through the resolved call graph, minus local handlers) are exactly the named defensive ones in "
        "SCHEMA_RAISE_ALLOWED, each with the reason why an invalid schema cannot reach it. A helper that *assumes* the "
        "property being validated (coerce_default_value raises TypeError for a default that does not coerce) may not be "
        "called from a validation step: the invalid schema would make graphql_sync raise instead of returning the errors",
    )
    fn = repo.func("type.validate", "validate_schema")
    sites = mr.sites(fn)
    seen = set()
    for (cls, site), chain in sorted(sites.items()):
        term = chain.split(" -> ")[-1].split(":")[0]
        key = (term, cls)
        if key in seen:
            continue
        seen.add(key)
        why = SCHEMA_RAISE_ALLOWED.get(key)
        check.ob(rule, fn, f"validate_schema: {cls} raised in {term}()", why is not None,
                 f"allowed: {why}" if why else f"can leave validate_schema: {chain[:260]}")
    check.floor(rule, 2, "explicit raise sites reachable from validate_schema")
    # INPUT-DESCENT: the reason given for assert_leaf_type is a property of the code, so it is checked
    from rules.language_rules import norm_facts

    for q in ("validate_input_value_impl", "validate_input_literal_impl"):
        f2 = repo.func("utilities.validate_input_value", q)
        flow = FactFlow(CFG(f2))
        n = 0
        for c in walk_body(f2):
            if not (isinstance(c, ast.Call) and call_name(c) == q):
                continue
            targs = [a for a in c.args if isinstance(a, ast.Attribute) and a.attr == "type" and isinstance(a.value, ast.Name)]
            if not targs:
                continue  # item / inner types of a type that is already known to be an input type
            n += 1
            t = unparse(targs[0])
            facts = norm_facts(flow.facts_at(c))
            ok = (f"is_input_type({t})", True) in facts
            check.ob(rule, c, f"{q}: descends into `{t}`", ok,
                     f"under is_input_type({t})" if ok else
                     f"`{t}` may be an output type in an invalid schema (input I {{ f: Query }}): assert_leaf_type raises TypeError out of validate_schema")
        if n == 0:
            raise AnalysisError(f"{q}: descent into field types not found")


def raised_values_guarded(check: Check, repo: Repo, rule: str = "RAISED-VALUE-CLASS") -> None:
    from rules.language_rules import norm_facts

    check.rule(
        rule,
        "a resolver (or an event source) may *return* an exception object instead of raising it, and execution then "
        "raises it so that it is handled like a raised one: every `raise <value>` of a parameter in the execution package "
        "is reached only under the must-fact isinstance(<value>, Exception) - the class the field guards catch "
        "(EXEC-WRAP: `except Exception`). Widening the test to BaseException re-raises a returned CancelledError / "
        "GeneratorExit (asyncio.gather(..., return_exceptions=True) hands them out as values) past every guard and out of "
        "graphql_sync",
    )
    n = 0
    for mod in repo.package_modules("execution"):
        for fn in mod.functions():
            if isinstance(fn, ast.Lambda):
                continue
            params = {a.arg for a in fn.args.posonlyargs + fn.args.args + fn.args.kwonlyargs}
            raises = [r for r in walk_body(fn) if isinstance(r, ast.Raise) and isinstance(r.exc, ast.Name) and r.exc.id in params and r.cause is None]
            if not raises:
                continue
            flow = FactFlow(CFG(fn))
            for r in raises:
                v = r.exc.id
                facts = norm_facts(flow.facts_at(r))
                classes = sorted({t[len(f"isinstance({v}, "):-1] for t, p in facts if p and t.startswith(f"isinstance({v}, ")})
                if not classes:
                    continue  # not a returned-exception re-raise (e.g. `raise error` of a caught exception handed in)
                n += 1
                ok = classes == ["Exception"]
                check.ob(rule, r, f"{qualname_of(r)}: raise {v}", ok,
                         "only under isinstance(..., Exception)" if ok else f"raised under isinstance({v}, {', '.join(classes)}): wider than what the field guards catch")
    if n < 2:
        raise AnalysisError("RAISED-VALUE-CLASS: re-raise sites of returned exceptions not found")
