"""Table / coverage rules over graphql.language (C08, C09, C11)."""

from __future__ import annotations

import ast

from rules.astmodel import AstModel
from sa.cfg import CFG, no_exc
from sa.guards import FactFlow, aliases_of
from sa.loader import (
    AnalysisError, FuncDef, Repo, ancestors, call_name, enclosing_function, last_attr, parent, qualname_of,
    unparse, walk_body,
)  # fmt: skip
from sa.report import Check, node_text
from sa.tables import Evaluator, NotStatic, char_class, module_const

ASCII = [chr(i) for i in range(128)]
# representatives outside ASCII that str.isdigit/isalpha/isalnum accept
NON_ASCII_PROBES = ["\u0660", "\u00e9", "\u00b2", "\u00a0", "\ufeff", "\u0391", "\u2028"]


# -- C11 R1 -------------------------------------------------------------------


def keys_complete(check: Check, repo: Repo, model: AstModel) -> dict[str, tuple[str, ...]]:
    rule = "KEYS-COMPLETE"
    check.rule(
        rule,
        "for every concrete node kind, set(QUERY_DOCUMENT_KEYS[kind]) equals the set of "
        "node-valued dataclass fields of the classes of that kind; every kind with such a "
        "field has an entry; every entry names an existing kind; no key is listed twice",
    )
    table = module_const(repo, "language.ast", "QUERY_DOCUMENT_KEYS")
    node = repo.mod("language.ast").toplevel_assign("QUERY_DOCUMENT_KEYS")
    kinds = model.kinds()
    for kind, classes in sorted(kinds.items()):
        want: set[str] = set()
        for c in classes:
            want |= {f.name for f in c.fields if f.node_valued}
        have = table.get(kind)
        if have is None:
            ok = not want
            check.ob(rule, classes[0].node, f"kind {kind}", ok,
                     "no entry and no node-valued field" if ok else
                     f"kind has node-valued fields {sorted(want)} but no QUERY_DOCUMENT_KEYS entry",
                     nontrivial=bool(want))
            continue
        dup = len(set(have)) != len(have)
        ok = set(have) == want and not dup
        detail = f"keys {tuple(have)} == node-valued fields"
        if not ok:
            detail = (
                f"table lists {tuple(have)}; node-valued fields of {[c.name for c in classes]} are "
                f"{sorted(want)} (missing {sorted(want - set(have))}, extra {sorted(set(have) - want)}"
                f"{', duplicate key' if dup else ''})"
            )
        check.ob(rule, node, f"kind {kind}", ok, detail)
    for kind in table:
        if kind not in kinds:
            check.ob(rule, node, f"kind {kind}", False, "table entry names no concrete node kind")
    check.floor(rule, 45, "node kinds")
    return table


# -- C08 R3 -------------------------------------------------------------------


def printer_coverage(check: Check, repo: Repo, model: AstModel) -> None:
    rule = "PRINTER-COVERAGE"
    check.rule(
        rule,
        "PrintAstVisitor defines leave_<kind> for every concrete node kind and that method "
        "reads every dataclass field of the kind's classes except `loc` on its node parameter, "
        "with the read flowing into the returned string",
    )
    cls = repo.cls("language.printer", "PrintAstVisitor")
    methods = {s.name: s for s in cls.body if isinstance(s, (ast.FunctionDef, ast.AsyncFunctionDef))}
    for kind, classes in sorted(model.kinds().items()):
        fields: set[str] = set()
        for c in classes:
            fields |= {f.name for f in c.fields if f.name != "loc"}
        m = methods.get(f"leave_{kind}")
        if m is None:
            check.ob(rule, cls, f"leave_{kind}", False, f"no leave_{kind} method: nodes of kind {kind} print as nothing")
            continue
        params = [a.arg for a in m.args.posonlyargs + m.args.args]
        is_static = any(unparse(d) == "staticmethod" for d in m.decorator_list)
        pname = params[0] if is_static else (params[1] if len(params) > 1 else None)
        if pname:
            m = _see_through_helpers(repo, m, pname)
        used = _fields_reaching_return(m, pname) if pname else set()
        # the printed text is a function of the structural fields only: a read of the source
        # extent makes print(parse(print(x))) differ from print(x)
        for n in ast.walk(m):
            if pname and isinstance(n, ast.Attribute) and n.attr == "loc" and isinstance(n.value, ast.Name) and n.value.id == pname:
                check.ob(rule, n, f"leave_{kind} reads only structural fields", False,
                         f"`{unparse(n)}` is read while printing a {kind} node: the output then depends on where the "
                         "node came from, not on the tree")
        missing = fields - used
        check.ob(
            rule, m, f"leave_{kind} reads {sorted(fields)}", not missing,
            f"all {len(fields)} fields flow into the result" if not missing else
            f"field(s) {sorted(missing)} of kind {kind} never reach the printed text",
            nontrivial=bool(fields),
        )
    check.floor(rule, 45, "leave_<kind> methods")


def _see_through_helpers(repo: Repo, m: ast.AST, pname: str) -> ast.AST:
    """The leave_<kind> method with single-return module-level helpers that receive the node inlined."""
    from sa.tables import inline_single_return_helpers

    if not any(isinstance(c, ast.Call) and isinstance(c.func, ast.Name) and any(isinstance(a, ast.Name) and a.id == pname for a in c.args) for c in ast.walk(m)):
        return m
    return inline_single_return_helpers(m, repo.mod("language.printer"), pname)


def _fields_reaching_return(fn: ast.AST, pname: str) -> set[str]:
    """Fields `pname.f` whose value flows (through local assignments) into a return."""
    # local var -> set of fields it depends on (flow-insensitive, transitive)
    deps: dict[str, set[str]] = {}

    def expr_fields(e: ast.AST) -> set[str]:
        out: set[str] = set()
        for n in ast.walk(e):
            if isinstance(n, ast.Attribute) and isinstance(n.value, ast.Name) and n.value.id == pname:
                out.add(n.attr)
            elif isinstance(n, ast.Name) and n.id in deps:
                out |= deps[n.id]
        return out

    changed = True
    while changed:
        changed = False
        for n in walk_body(fn):
            if isinstance(n, ast.Assign):
                fs = expr_fields(n.value)
                for t in n.targets:
                    if isinstance(t, ast.Name) and not fs <= deps.get(t.id, set()):
                        deps.setdefault(t.id, set()).update(fs)
                        changed = True
    used: set[str] = set()
    for n in walk_body(fn):
        if isinstance(n, ast.Return) and n.value is not None:
            used |= expr_fields(n.value)
        elif isinstance(n, ast.If):
            # a field that selects between returns also determines the text
            used |= expr_fields(n.test)
    return used


# -- C08 R5 -------------------------------------------------------------------


def parser_fields(check: Check, repo: Repo, model: AstModel) -> None:
    rule = "PARSER-FIELDS"
    check.rule(
        rule,
        "every XNode(...) construction in parser.py passes every field of X that has no default "
        "and no keyword that X does not declare",
    )
    mod = repo.mod("language.parser")
    for n in ast.walk(mod.tree):
        if isinstance(n, ast.Call) and isinstance(n.func, ast.Name) and n.func.id in model.classes:
            c = model.classes[n.func.id]
            if any(k.arg is None for k in n.keywords) or n.args:
                check.ob(rule, n, f"{c.name}(...)", True, "dynamic arguments: not checked", nontrivial=False)
                continue
            passed = {k.arg for k in n.keywords}
            required = {f.name for f in c.fields if not f.has_default}
            declared = {f.name for f in c.fields}
            missing, unknown = required - passed, passed - declared
            check.ob(
                rule, n, f"{c.name}({', '.join(sorted(passed))}) in {qualname_of(n)}",
                not missing and not unknown,
                "all required fields passed" if not (missing or unknown) else
                f"missing {sorted(missing)} unknown {sorted(unknown)}",
            )
    check.floor(rule, 50, "node constructions in parser.py")


# -- C08 R2 -------------------------------------------------------------------


def escape_tables(check: Check, repo: Repo) -> None:
    rule = "ESCAPE-TABLES"
    check.rule(
        rule,
        "print_string.escape_sequences (writer) against the lexer's readers: every escape text "
        "decodes - with the lexer's own _ESCAPED_CHARS table / \\uXXXX rule - to chr(key); the key "
        "set contains every character read_string refuses raw (quote, backslash, LF, CR) and every "
        "C0 control; no escape text contains a raw quote",
    )
    writer = module_const(repo, "language.print_string", "escape_sequences")
    reader = module_const(repo, "language.lexer", "_ESCAPED_CHARS")
    wnode = repo.mod("language.print_string").toplevel_assign("escape_sequences")
    if not isinstance(writer, dict) or not isinstance(reader, dict):
        raise AnalysisError("escape tables are not dict literals")
    for key, text in sorted(writer.items()):
        ok, why = False, ""
        if not (isinstance(key, int) and isinstance(text, str)):
            why = "key/value types"
        elif not text.startswith("\\"):
            why = f"escape text {text!r} does not start with a backslash"
        elif len(text) == 2:
            decoded = reader.get(text[1])
            ok = decoded == chr(key)
            why = f"lexer decodes {text!r} to {decoded!r}, writer means {chr(key)!r}"
        elif len(text) == 6 and text[1] == "u":
            try:
                ok = int(text[2:], 16) == key
            except ValueError:
                ok = False
            why = f"\\uXXXX value {text[2:]} vs key {key:#06x}"
        else:
            why = f"escape text {text!r} has no reader"
        if '"' in text[2:] or (len(text) > 1 and text[1] == '"' and key != 0x22):
            ok, why = False, f"escape text {text!r} contains a raw quote"
        check.ob(rule, wnode, f"escape_sequences[{key:#04x}] = {text!r}", ok, why)
    # characters the string reader refuses raw
    fn = repo.func("language.lexer", "Lexer.read_string")
    refused: set[str] = set()
    for n in walk_body(fn):
        if isinstance(n, ast.Compare) and len(n.ops) == 1 and isinstance(n.left, ast.Name) and n.left.id == "char":
            c = n.comparators[0]
            if isinstance(c, ast.Constant) and isinstance(c.value, str) and isinstance(n.ops[0], (ast.Eq, ast.In)):
                refused |= set(c.value)
    must = refused | {chr(i) for i in range(0x20)}
    missing = sorted(c for c in must if ord(c) not in writer)
    check.ob(
        rule, wnode, "escape_sequences covers characters not accepted raw", not missing and len(refused) >= 4,
        f"read_string treats {sorted(refused)!r} specially; C0 controls; missing from writer: {missing!r}",
    )
    check.floor(rule, 40, "escape table entries")


# -- C08 R4 -------------------------------------------------------------------


def block_escape(check: Check, repo: Repo) -> None:
    rule = "BLOCK-ESCAPE"
    check.rule(
        rule,
        'block strings have one escape: writer value.replace(\'"""\', \'\\\\"""\') and reader '
        '`char == "\\\\" and body[p+1:p+4] == \'"""\'` agree; the lexer joins block lines with LF and '
        "is_printable_as_block_string / print_block_string's own newline is LF",
    )
    fn = repo.func("language.block_string", "print_block_string")
    writer = None
    for n in walk_body(fn):
        if isinstance(n, ast.Call) and last_attr(n) == "replace" and len(n.args) == 2:
            a, b = n.args
            if isinstance(a, ast.Constant) and isinstance(b, ast.Constant):
                writer = (n, a.value, b.value)
    ok = writer is not None and writer[1] == '"""' and writer[2] == '\\"""'
    check.ob(rule, writer[0] if writer else fn, "writer escape of triple quote", ok,
             f"replace({writer[1]!r}, {writer[2]!r})" if writer else "no .replace(const, const) in print_block_string")
    rb = repo.func("language.lexer", "Lexer.read_block_string")
    reader_ok = False
    skip_ok = False
    for n in walk_body(rb):
        if isinstance(n, ast.If) and isinstance(n.test, ast.BoolOp) and isinstance(n.test.op, ast.And):
            consts = [c.value for c in ast.walk(n.test) if isinstance(c, ast.Constant) and isinstance(c.value, str)]
            if "\\" in consts and '"""' in consts:
                reader_ok = True
                # the reader must skip exactly the backslash and keep the quotes: chunk_start = position + 1, position += 4
                txt = [unparse(s) for s in n.body]
                skip_ok = "chunk_start = position + 1" in txt and "position += 4" in txt
                check.ob(rule, n, "reader escape of triple quote", reader_ok and skip_ok,
                         f"reader tests {unparse(n.test)}; body {txt}")
    if not reader_ok:
        check.ob(rule, rb, "reader escape of triple quote", False, 'no `char == "\\\\" and ... == \'"""\'` branch')
    # canonical newline of block string values
    joins = [
        n for n in walk_body(rb)
        if isinstance(n, ast.Call) and last_attr(n) == "join" and isinstance(n.func, ast.Attribute)
        and isinstance(n.func.value, ast.Constant)
    ]
    ok = len(joins) == 1 and joins[0].func.value.value == "\n"
    check.ob(rule, joins[0] if joins else rb, "block string lines joined with LF", ok,
             f"join constants: {[j.func.value.value for j in joins]!r}")
    pr = repo.func("language.block_string", "is_printable_as_block_string")
    nl = {
        c.value for n in walk_body(pr) if isinstance(n, (ast.Compare, ast.MatchValue))  # `c == "\n"` or `case "\n":`
        for c in ast.walk(n) if isinstance(c, ast.Constant) and isinstance(c.value, str) and set(c.value) & set("\n\r")
    }
    check.ob(rule, pr, "is_printable_as_block_string newline test", nl == {"\n"}, f"newline constants tested: {sorted(nl)!r}")


# -- C09 R1 -------------------------------------------------------------------

SPEC_PUNCT = set("!$&():=@[]{|}")  # single-character punctuators; plus "..." ; "." is coordinate-only
SPEC_IGNORED_SINGLE = {"\ufeff", "\t", " ", ","}
SPEC_NAME_START = set("abcdefghijklmnopqrstuvwxyzABCDEFGHIJKLMNOPQRSTUVWXYZ_")
SPEC_DIGIT = set("0123456789")


def lex_tables(check: Check, repo: Repo) -> None:
    rule = "LEX-TABLES"
    check.rule(
        rule,
        "lexer tables against the spec's lexical grammar: ignored single characters = {BOM, TAB, "
        "SPACE, comma}; _KIND_FOR_PUNCT keys = the 13 one-character punctuators and map to the "
        "TokenKind member whose value is that character; _punctuator_token_kinds = those kinds + "
        "SPREAD + DOT; is_digit/is_name_start/is_name_continue accept exactly Digit/NameStart/"
        "NameContinue (evaluated over ASCII and non-ASCII probes); the coordinate lexer's table is "
        "a consistent subset plus '.' and has no ignored characters",
    )
    lex = repo.mod("language.lexer")
    fn = repo.func("language.lexer", "Lexer.read_next_token")
    # ignored characters: string constants tested with `char in <const>` whose branch just advances
    ignored_nodes = []
    for n in walk_body(fn):
        if isinstance(n, ast.If) and isinstance(n.test, ast.Compare) and isinstance(n.test.ops[0], ast.In):
            c = n.test.comparators[0]
            body_txt = [unparse(s) for s in n.body]
            if isinstance(c, ast.Constant) and isinstance(c.value, str) and body_txt == ["position += 1", "continue"]:
                ignored_nodes.append((n, c.value))
    ok = len(ignored_nodes) == 1 and set(ignored_nodes[0][1]) == SPEC_IGNORED_SINGLE
    check.ob(rule, ignored_nodes[0][0] if ignored_nodes else fn, "ignored single characters", ok,
             f"lexer skips {[sorted(v) for _, v in ignored_nodes]!r}; spec: {sorted(SPEC_IGNORED_SINGLE)!r}")
    # comment start
    hashes = [n for n in walk_body(fn) if isinstance(n, ast.Compare) and unparse(n) == "char == '#'"]
    check.ob(rule, hashes[0] if hashes else fn, "comment start '#'", len(hashes) == 1, f"{len(hashes)} tests of char == '#'")
    # punctuators
    table = module_const(repo, "language.lexer", "_KIND_FOR_PUNCT")
    tnode = lex.toplevel_assign("_KIND_FOR_PUNCT")
    tk_cls = repo.cls("language.token_kind", "TokenKind")
    members = Evaluator(repo, repo.mod("language.token_kind")).enum_members(tk_cls, repo.mod("language.token_kind"))
    ok = set(table) == SPEC_PUNCT
    check.ob(rule, tnode, "_KIND_FOR_PUNCT keys", ok,
             f"keys {sorted(table)!r}; spec punctuators {sorted(SPEC_PUNCT)!r}")
    for ch, member in sorted(table.items()):
        val = getattr(member, "value", None)
        check.ob(rule, tnode, f"_KIND_FOR_PUNCT[{ch!r}] -> {member!r}", val == ch,
                 f"TokenKind value {val!r} vs character {ch!r}")
    pk = module_const(repo, "language.lexer", "_punctuator_token_kinds")
    want = {m for m in members.values() if isinstance(m.value, str) and (m.value in SPEC_PUNCT or m.value in ("...", "."))}
    check.ob(rule, lex.toplevel_assign("_punctuator_token_kinds"), "_punctuator_token_kinds", set(pk) == want,
             f"set {sorted(map(repr, pk))}; expected {sorted(map(repr, want))}")
    # every TokenKind whose value is a punctuator text is reachable from the lexer table or SPREAD/DOT
    spread = [n for n in walk_body(fn) if isinstance(n, ast.Attribute) and unparse(n) == "TokenKind.SPREAD"]
    check.ob(rule, spread[0] if spread else fn, "SPREAD token produced", bool(spread), "read_next_token creates TokenKind.SPREAD")
    # character classes
    universe = ASCII + NON_ASCII_PROBES
    classes = {
        "is_digit": SPEC_DIGIT,
        "is_name_start": SPEC_NAME_START,
        "is_name_continue": SPEC_NAME_START | SPEC_DIGIT,
        "is_letter": SPEC_NAME_START - {"_"},
    }
    for name, want_set in classes.items():
        got = char_class(repo, "language.character_classes", name, universe)
        check.ob(rule, repo.func("language.character_classes", name), f"{name} accepts exactly the spec class",
                 got == want_set,
                 f"accepts {len(got)} of {len(universe)} probes; differs on {sorted(got ^ want_set)!r}")
    # schema coordinate lexer
    ctable = module_const(repo, "language.schema_coordinate_lexer", "_KIND_FOR_PUNCT")
    cnode = repo.mod("language.schema_coordinate_lexer").toplevel_assign("_KIND_FOR_PUNCT")
    ok = set(ctable) <= SPEC_PUNCT | {"."} and all(getattr(m, "value", None) == ch for ch, m in ctable.items())
    check.ob(rule, cnode, "coordinate lexer punctuator table", ok, f"keys {sorted(ctable)!r}")
    cfn = repo.func("language.schema_coordinate_lexer", "SchemaCoordinateLexer.read_next_token")
    skips = [n for n in walk_body(cfn) if isinstance(n, (ast.While, ast.Continue))]
    check.ob(rule, cfn, "coordinate lexer skips nothing", not skips, f"{len(skips)} loop/continue constructs")


# -- C09 R2 / R4 ----------------------------------------------------------------


def token_count(check: Check, repo: Repo) -> None:
    rule = "TOKEN-COUNT"
    check.rule(
        rule,
        "Lexer.advance is called from exactly one place in parser.py (advance_lexer); there the "
        "counter is incremented exactly when the token is not EOF, and the limit test on the "
        "incremented counter is strict (>), i.e. exactly <= n tokens are accepted",
    )
    mod = repo.mod("language.parser")
    calls = [n for n in ast.walk(mod.tree) if isinstance(n, ast.Call) and isinstance(n.func, ast.Attribute)
             and n.func.attr == "advance" and not n.args]  # any receiver: `lexer = self._lexer; lexer.advance()` counts
    owners = {qualname_of(c) for c in calls}
    check.ob(rule, calls[0] if calls else mod.tree.body[0], "single call site of Lexer.advance",
             owners == {"Parser.advance_lexer"} and len(calls) == 1, f"call sites: {sorted(owners)} ({len(calls)})")
    # ... and nobody in the parser moves the cursor by storing into the lexer's token fields
    moves = [n for n in ast.walk(mod.tree) if isinstance(n, ast.Attribute) and isinstance(n.ctx, ast.Store) and n.attr in ("token", "last_token")]
    check.ob(rule, moves[0] if moves else mod.tree.body[0], "the parser never stores into <lexer>.token / .last_token", not moves,
             "no such store" if not moves else f"stores in {sorted({qualname_of(m) for m in moves})}: a token consumed without being counted")
    fn = repo.func("language.parser", "Parser.advance_lexer")
    incs = [n for n in walk_body(fn) if isinstance(n, ast.AugAssign) and unparse(n.target) == "self._token_counter"]
    ok = len(incs) == 1 and isinstance(incs[0].op, ast.Add) and unparse(incs[0].value) == "1"
    guard_ok = False
    if ok:
        p = parent(incs[0])
        guard_ok = (
            isinstance(p, ast.If) and parent(p) is fn and incs[0] in p.body
            and unparse(p.test) in ("token.kind is not TokenKind.EOF", "token.kind != TokenKind.EOF")
        )
    check.ob(rule, incs[0] if incs else fn, "counter += 1 guarded only by not-EOF", ok and guard_ok,
             f"{len(incs)} increments; guard ok: {guard_ok}")
    cmps = [n for n in walk_body(fn) if isinstance(n, ast.Compare) and "_token_counter" in unparse(n)]
    strict = False
    for c in cmps:
        l, r = unparse(c.left), unparse(c.comparators[0])
        if l == "self._token_counter" and isinstance(c.ops[0], ast.Gt) and r in ("max_tokens", "self._max_tokens"):
            strict = True
        if r == "self._token_counter" and isinstance(c.ops[0], ast.Lt) and l in ("max_tokens", "self._max_tokens"):
            strict = True
    after_inc = bool(cmps and incs and all(c.lineno > incs[0].lineno for c in cmps))
    check.ob(rule, cmps[0] if cmps else fn, "limit comparison is `counter > max_tokens` after the increment",
             len(cmps) == 1 and strict and after_inc, f"comparisons: {[unparse(c) for c in cmps]}")
    # other writers of the counter
    writes = []
    for n in ast.walk(mod.tree):
        if isinstance(n, ast.Assign):
            tg = n.targets
        elif isinstance(n, ast.AugAssign) or (isinstance(n, ast.AnnAssign) and n.value is not None):
            tg = [n.target]
        else:
            continue
        if any("_token_counter" in unparse(t) for t in tg):
            writes.append(n)
    owners = sorted({qualname_of(w) for w in writes})
    check.ob(rule, fn, "writers of _token_counter", set(owners) <= {"Parser.__init__", "Parser.advance_lexer"},
             f"writers: {owners}")
    # lookahead never counts; advance delegates to lookahead
    la = repo.func("language.lexer", "Lexer.lookahead")
    comment_tests = [n for n in walk_body(la) if isinstance(n, ast.Compare) and "TokenKind.COMMENT" in unparse(n)]
    ok = len(comment_tests) == 1 and unparse(comment_tests[0]) in (
        "token.kind != TokenKind.COMMENT", "token.kind is not TokenKind.COMMENT")
    p = parent(comment_tests[0]) if comment_tests else None
    ok = ok and isinstance(p, ast.If) and [type(s) for s in p.body] == [ast.Break]
    check.ob("COMMENT-SKIP", comment_tests[0] if comment_tests else la,
             "lookahead loops until a non-COMMENT token", ok, f"tests: {[unparse(c) for c in comment_tests]}")
    check.rule("COMMENT-SKIP", "Lexer.lookahead skips exactly tokens of kind COMMENT")


# -- C09 R5 -------------------------------------------------------------------


def number_lookahead(check: Check, repo: Repo) -> None:
    rule = "NUMBER-LOOKAHEAD"
    check.rule(
        rule,
        "read_number rejects, after a complete number, exactly '.' and NameStart characters, and a "
        "digit after a leading 0 (conditions evaluated as character classes over ASCII)",
    )
    fn = repo.func("language.lexer", "Lexer.read_number")
    mod = repo.mod("language.lexer")
    raises = sorted(
        (n for n in walk_body(fn) if isinstance(n, ast.If) and n.body and isinstance(n.body[0], ast.Raise)),
        key=lambda n: n.lineno,
    )
    if not raises:
        raise AnalysisError("read_number: no guarded raise found")

    def accepted(test: ast.expr) -> set[str]:
        from sa.tables import inline_locals

        test = inline_locals(test, fn, keep={"char"})  # named sub-conditions (`is_followed_by_dot = char == "."`)
        out = set()
        for ch in ASCII + NON_ASCII_PROBES + [""]:
            try:
                if Evaluator(repo, mod, {"char": ch}).eval(test):
                    out.add(ch)
            except NotStatic as e:
                raise AnalysisError(f"read_number condition {unparse(test)} not static: {e}") from e
        return out

    final = raises[-1]
    got = accepted(final.test)
    want = SPEC_NAME_START | {"."}
    check.ob(rule, final, "characters rejected after a number", got == want,
             f"rejects {len(got)} chars; differs from '.'+NameStart on {sorted(got ^ want)!r}")
    if len(raises) < 2:
        # the leading-zero test lives in a helper: its placement is NUMBER-PARTS' business, its character class is not decided here
        check.note(number_lookahead_zero_test="not in read_number itself (helper); only the final lookahead was decided")
        return
    zero = raises[0]
    got0 = accepted(zero.test)
    pz = parent(zero)
    in_zero_branch = isinstance(pz, ast.If) and unparse(pz.test) in ("char == '0'",)
    check.ob(rule, zero, "digit rejected after leading 0", got0 == SPEC_DIGIT and in_zero_branch,
             f"rejects {sorted(got0)!r} inside `if {unparse(pz.test) if isinstance(pz, ast.If) else '?'}`")


# -- C11 R3 -------------------------------------------------------------------


def pop_guard(check: Check, repo: Repo, module: str = "language.visitor", func: str = "visit",
              fn: ast.AST | None = None, rule: str = "POP-GUARD") -> int:
    check.rule(
        rule,
        "every zero-argument pop of a traversal stack (directly or through a bound-method alias) is "
        "dominated by a non-emptiness test of the same list, or by a push to it on every path",
    )
    fn = fn or repo.func(module, func)
    flow = FactFlow(CFG(fn))
    aliases = aliases_of(fn)
    n_sites = 0
    for n in walk_body(fn):
        if not isinstance(n, ast.Call) or n.args or n.keywords:
            continue
        recv = None
        if isinstance(n.func, ast.Attribute) and n.func.attr == "pop":
            recv = unparse(n.func.value)
        elif isinstance(n.func, ast.Name) and n.func.id in aliases and aliases[n.func.id][1] == "pop":
            recv = aliases[n.func.id][0]
        if recv is None:
            continue
        n_sites += 1
        facts = flow.facts_at(n)
        ok = any(f.kind == "cond" and f.pol and f.text == recv for f in facts)
        if not ok:
            from sa.guards import Constraints, Lin
            ok = Constraints(facts).prove_ge0(Lin({f"len({recv})": 1}, -1)) is not None
        check.ob(rule, n, f"{unparse(n)} on {recv}", ok,
                 f"non-empty {recv} established on every path" if ok else
                 f"a path reaches this pop with {recv} possibly empty (no dominating test or push)")
    return n_sites


# -- C11 R5 -------------------------------------------------------------------

SENTINELS = {"BREAK": "True", "SKIP": "False", "REMOVE": "Ellipsis"}


def sentinel_twins(check: Check, repo: Repo) -> None:
    rule = "SENTINEL-TWINS"
    check.rule(
        rule,
        "every identity test of a visitor result against BREAK/SKIP/REMOVE is paired, in the same "
        "boolean expression, with the test against its raw twin True/False/Ellipsis (the enum's "
        "values, read from VisitorActionEnum)",
    )
    mod = repo.mod("language.visitor")
    enum = repo.cls("language.visitor", "VisitorActionEnum")
    twins = {}
    for s in enum.body:
        if isinstance(s, ast.Assign) and isinstance(s.targets[0], ast.Name):
            twins[s.targets[0].id] = unparse(s.value)
    if set(twins) != set(SENTINELS):
        raise AnalysisError(f"VisitorActionEnum members changed: {twins}")
    n = 0
    for fn_name in ("visit", "ParallelVisitor.get_enter_leave_for_kind"):
        fn = repo.func("language.visitor", fn_name)
        for c in ast.walk(fn):
            if not (isinstance(c, ast.Compare) and len(c.ops) == 1 and isinstance(c.ops[0], (ast.Is, ast.IsNot))):
                continue
            r = c.comparators[0]
            if not (isinstance(r, ast.Name) and r.id in twins):
                continue
            subject = unparse(c.left)
            if subject.startswith("skipping"):
                continue  # bookkeeping slot holds the enum itself, never a raw value
            p = parent(c)
            sib = []
            if isinstance(p, ast.BoolOp):
                sib = [unparse(v) for v in p.values]
            neg = isinstance(c.ops[0], ast.IsNot)
            want = f"{subject} is{' not' if neg else ''} {twins[r.id]}"
            ok = want in sib and isinstance(p, ast.BoolOp) and isinstance(p.op, ast.And if neg else ast.Or)
            check.ob(rule, c, f"{unparse(c)} in {fn_name}", ok,
                     f"paired with `{want}`" if ok else f"raw twin `{want}` not tested alongside: a visitor returning the raw value is misread")
            n += 1
    check.floor(rule, 6, "sentinel identity tests")


def _edit_arms(repo: Repo):
    """The two arms of visit()'s edit application: (anchor, array_body, node_body, scope_function, name of the edits list).
    Either `if is_edited: if in_array: <array arm> else: <node arm>` in visit() itself, or both arms moved wholesale into a
    module-level helper that receives the edits and the in_array flag (`if flag: ...; return` + rest, or if/else)."""
    fn = repo.func("language.visitor", "visit")
    edited = [n for n in walk_body(fn) if isinstance(n, ast.If) and unparse(n.test) == "is_edited"]
    if len(edited) != 1:
        raise AnalysisError("visit(): `if is_edited:` block not found")
    arms_if = [s for s in edited[0].body if isinstance(s, ast.If) and unparse(s.test) == "in_array"]
    if len(arms_if) == 1:
        return arms_if[0], list(arms_if[0].body), list(arms_if[0].orelse), fn, "edits"
    vmod = repo.mod("language.visitor")
    for st in edited[0].body:
        for c in ast.walk(st):
            if not (isinstance(c, ast.Call) and isinstance(c.func, ast.Name)):
                continue
            h = vmod.defs.get(c.func.id)
            if not isinstance(h, (ast.FunctionDef, ast.AsyncFunctionDef)):
                continue
            params = [a.arg for a in h.args.posonlyargs + h.args.args]
            amap = {unparse(a): params[i] for i, a in enumerate(c.args) if i < len(params)}
            amap.update({unparse(k.value): k.arg for k in c.keywords if k.arg})
            if "edits" not in amap or "in_array" not in amap:
                continue
            flag, ename = amap["in_array"], amap["edits"]
            body = [x for x in h.body if not (isinstance(x, ast.Expr) and isinstance(x.value, ast.Constant))]
            for i, x in enumerate(body):
                if isinstance(x, ast.If) and unparse(x.test) == flag:
                    node_arm = list(x.orelse) or body[i + 1:]
                    return x, list(x.body), node_arm, h, ename
                if isinstance(x, ast.If) and unparse(x.test) == f"not {flag}":
                    arr_arm = list(x.orelse) or body[i + 1:]
                    return x, arr_arm, list(x.body), h, ename
    raise AnalysisError("visit(): in_array arms of the edit application not found")


def edit_sentinel(check: Check, repo: Repo) -> None:
    rule = "EDIT-SENTINEL"
    check.rule(
        rule,
        "in visit() every consumer of the recorded edits - the array arm and the node arm of the "
        "edit application - tests each edit value against REMOVE (and its raw twin) before storing it; "
        "an arm that stores edit values untested puts the sentinel itself into the rebuilt tree",
    )
    anchor, arr_body, node_body, _scope, ename = _edit_arms(repo)
    arms_if = [anchor]
    arms = {"array arm": arr_body, "node arm": node_body}
    mod = repo.mod("language.visitor")
    for name, body in arms.items():
        uses = [n for s in body for n in ast.walk(s) if isinstance(n, ast.Name) and n.id == ename]
        # the arm may delegate to a module-level helper that receives the edits: look into it as well
        scopes: list[list[ast.stmt]] = [body]
        for s in body:
            for c in ast.walk(s):
                if isinstance(c, ast.Call) and isinstance(c.func, ast.Name) and any(isinstance(a, ast.Name) and a.id == ename for a in c.args):
                    helper = mod.defs.get(c.func.id)
                    if isinstance(helper, (ast.FunctionDef, ast.AsyncFunctionDef)):
                        scopes.append(helper.body)
        tests = [n for sc in scopes for s in sc for n in ast.walk(s) if isinstance(n, ast.Compare) and isinstance(n.ops[0], (ast.Is, ast.IsNot))
                 and unparse(n.comparators[0]) == "REMOVE"]
        ok = bool(uses) and bool(tests)
        check.ob(rule, arms_if[0], f"{name} of the edit application handles REMOVE", ok,
                 f"consumes `edits` {len(uses)}x and tests `is REMOVE` {len(tests)}x" if ok else
                 f"consumes `edits` {len(uses)}x but never tests an edit value against REMOVE: the sentinel is stored in the tree")


def result_filter(check: Check, repo: Repo) -> None:
    """A visitor result is used as an *edit* only if it is none of the special values."""
    rule = "RESULT-FILTER"
    check.rule(
        rule,
        "a visitor result is treated as an edit (returned by the ParallelVisitor closures, recorded "
        "with edits.append in visit()) only where must-facts exclude None and the sentinels that mean "
        "'no edit' at that point: BREAK/True and SKIP/False (documented: SKIP on leave is no action)",
    )
    from sa.cfg import CFG as _CFG

    pv = repo.func("language.visitor", "ParallelVisitor.get_enter_leave_for_kind")
    sites: list[tuple[ast.AST, ast.AST, str]] = []
    for inner_name in ("enter", "leave"):
        inner = next((n for n in ast.walk(pv) if isinstance(n, (ast.FunctionDef,)) and n.name == inner_name), None)
        if inner is None:
            raise AnalysisError(f"ParallelVisitor closure {inner_name} missing")
        for r in walk_body(inner):
            if isinstance(r, ast.Return) and isinstance(r.value, ast.Name) and r.value.id == "result":
                sites.append((inner, r, f"ParallelVisitor.{inner_name}: return result"))
    v = repo.func("language.visitor", "visit")
    for c in walk_body(v):
        if isinstance(c, ast.Call) and unparse(c.func) == "edits.append" and c.args and "result" in unparse(c.args[0]):
            sites.append((v, c, "visit(): edits.append((key, result))"))
    flows: dict[ast.AST, FactFlow] = {}
    for fn, node, label in sites:
        if fn not in flows:
            flows[fn] = FactFlow(_CFG(fn))
        facts = norm_facts(flows[fn].facts_at(node))
        need = [("result is None", False), ("result is SKIP", False), ("result is False", False),
                ("result is BREAK", False), ("result is True", False)]
        missing = []
        for text, pol in need:
            alt = (text.replace(" is ", " is not "), not pol)
            if (text, pol) not in facts and alt not in facts:
                missing.append(text)
        check.ob(rule, node, label, not missing,
                 "result excluded from {None, SKIP, False, BREAK, True} on every path" if not missing else
                 f"no fact excludes: {missing} - such a result would be applied as an edit / stop sibling visitors")
    check.floor(rule, 3, "edit-use sites of visitor results")


def edit_offset(check: Check, repo: Repo) -> None:
    rule = "EDIT-OFFSET"
    check.rule(
        rule,
        "the array arm of the edit application removes items either with an index compensated by the "
        "number of earlier removals (index derived from `key - counter`, counter incremented in the "
        "removal branch) or while iterating the removals in reverse order; otherwise every removal "
        "after the first hits a shifted position",
    )
    anchor, arr_body, _node_body, _scope, ename = _edit_arms(repo)
    arms_if = [anchor]
    body = list(arr_body)
    # the arm may delegate to a module-level helper that receives the edits
    vmod = repo.mod("language.visitor")
    for s in list(body):
        for c in ast.walk(s):
            if isinstance(c, ast.Call) and isinstance(c.func, ast.Name) and any(isinstance(a, ast.Name) and a.id == ename for a in c.args):
                helper = vmod.defs.get(c.func.id)
                if isinstance(helper, (ast.FunctionDef, ast.AsyncFunctionDef)):
                    body += helper.body
    removals = []
    for s in body:
        for n in ast.walk(s):
            if isinstance(n, ast.Call) and isinstance(n.func, ast.Attribute) and n.func.attr == "pop" and n.args:
                removals.append((n, n.args[0]))
            if isinstance(n, ast.Delete):
                for t in n.targets:
                    if isinstance(t, ast.Subscript):
                        removals.append((n, t.slice))
    if not removals:
        check.ob(rule, arms_if[0], "array arm removes items", False, "no pop/del found: REMOVE has no effect on lists")
        return
    for node, idx in removals:
        loop = next((a for a in _anc(node) if isinstance(a, ast.For)), None)
        ok, why = False, "removal outside a loop over the edits"
        if loop is not None:
            it = unparse(loop.iter)
            if it.startswith("reversed(") or "reverse=True" in it:
                ok, why = True, f"iterates {it}"
            else:
                # index = edit_key - counter, counter += 1 in the same branch as the removal
                names = {x.id for x in ast.walk(idx) if isinstance(x, ast.Name)}
                defs = {}
                for s in ast.walk(loop):
                    if isinstance(s, ast.Assign) and len(s.targets) == 1 and isinstance(s.targets[0], ast.Name):
                        defs[s.targets[0].id] = s.value
                expr = idx
                if isinstance(idx, ast.Name) and idx.id in defs:
                    expr = defs[idx.id]
                counters = [x.right.id for x in ast.walk(expr) if isinstance(x, ast.BinOp) and isinstance(x.op, ast.Sub)
                            and isinstance(x.right, ast.Name)]
                branch = parent(node)
                while branch is not None and not isinstance(branch, ast.If):
                    branch = parent(branch)
                incs = [s for s in (branch.body if isinstance(branch, ast.If) else []) if isinstance(s, ast.AugAssign)
                        and isinstance(s.op, ast.Add) and isinstance(s.target, ast.Name) and s.target.id in counters
                        and unparse(s.value) == "1"]
                ok = bool(counters) and bool(incs)
                why = (f"index {unparse(expr)} compensated by `{counters[0]}`, incremented on removal" if ok else
                       f"index `{unparse(expr)}` is not compensated for earlier removals and the loop over `{it}` runs forward")
        check.ob(rule, node, f"array removal {node_text(node, 50)}", ok, why)


def _anc(n: ast.AST):
    p = parent(n)
    while p is not None:
        yield p
        p = parent(p)


def parallel_returns(check: Check, repo: Repo) -> None:
    rule = "PARALLEL-RETURNS"
    check.rule(
        rule,
        "the ParallelVisitor closures hand a decision to the traversal only as None or an edit result; "
        "a sentinel (BREAK/SKIP or raw twin) may be returned only under a test that every slot of "
        "`skipping` *is BREAK* - a slot holding a skipped node is truthy too and must not count as broken",
    )
    from sa.cfg import CFG as _CFG

    pv = repo.func("language.visitor", "ParallelVisitor.get_enter_leave_for_kind")
    n = 0
    for inner in [x for x in ast.walk(pv) if isinstance(x, ast.FunctionDef) and x.name in ("enter", "leave")]:
        flow = None
        for r in walk_body(inner):
            if not isinstance(r, ast.Return):
                continue
            n += 1
            v = r.value
            txt = unparse(v) if v is not None else "None"
            if txt in ("None", "result"):
                check.ob(rule, r, f"ParallelVisitor.{inner.name}: return {txt}", True, "None or an edit result", nontrivial=False)
                continue
            ok = False
            why = f"returns `{txt}` to the traversal"
            if txt in ("BREAK", "True", "SKIP", "False"):
                flow = flow or FactFlow(_CFG(inner))
                for f in flow.facts_at(r):
                    if f.kind == "cond" and f.pol and isinstance(f.expr, ast.Call) and call_name(f.expr) == "all" and f.expr.args:
                        g = f.expr.args[0]
                        if isinstance(g, ast.GeneratorExp) and unparse(g.generators[0].iter) == "skipping" and "is BREAK" in unparse(g.elt):
                            ok, why = True, f"guarded by {f.text}"
                if not ok:
                    why += " without a test that every slot of `skipping` is BREAK"
            check.ob(rule, r, f"ParallelVisitor.{inner.name}: return {txt}", ok, why)
    check.floor(rule, 3, "returns of the ParallelVisitor closures")


def printer_per_return(check: Check, repo: Repo, model: AstModel) -> None:
    """Stronger form of PRINTER-COVERAGE: every *return path* depends on every field."""
    rule = "PRINTER-PATHS"
    check.rule(
        rule,
        "in every leave_<kind> method of PrintAstVisitor each return statement depends - through its "
        "expression or through the tests that select it - on every field of the kind; a return path "
        "that ignores a field prints two different nodes identically",
    )
    cls = repo.cls("language.printer", "PrintAstVisitor")
    methods = {s.name: s for s in cls.body if isinstance(s, (ast.FunctionDef, ast.AsyncFunctionDef))}
    n_multi = 0
    for kind, classes in sorted(model.kinds().items()):
        m = methods.get(f"leave_{kind}")
        if m is None:
            continue
        fields: set[str] = set()
        for c in classes:
            fields |= {f.name for f in c.fields if f.name != "loc"}
        params = [a.arg for a in m.args.posonlyargs + m.args.args]
        is_static = any(unparse(d) == "staticmethod" for d in m.decorator_list)
        pname = params[0] if is_static else (params[1] if len(params) > 1 else None)
        if pname is None:
            continue
        m = _see_through_helpers(repo, m, pname)
        rets = [r for r in walk_body(m) if isinstance(r, ast.Return) and r.value is not None]
        if len(rets) > 1:
            n_multi += 1
        deps = _local_deps(m, pname)
        for r in rets:
            used = _expr_fields(r.value, pname, deps)
            # control dependence: enclosing ifs and earlier ifs that contain a return
            for i in walk_body(m):
                if isinstance(i, ast.If):
                    encloses = any(x is r for x in ast.walk(i))
                    earlier_exit = i.lineno < r.lineno and any(isinstance(x, ast.Return) for x in ast.walk(i))
                    if encloses or earlier_exit:
                        used |= _expr_fields(i.test, pname, deps)
            missing = fields - used
            check.ob(rule, r, f"leave_{kind}: return at +{r.lineno - m.lineno}", not missing,
                     "depends on all fields" if not missing else f"this return path does not depend on field(s) {sorted(missing)}",
                     nontrivial=len(rets) > 1)
    check.floor(rule, 45, "return statements of leave_<kind> methods")


def _local_deps(fn: ast.AST, pname: str) -> dict[str, set[str]]:
    deps: dict[str, set[str]] = {}
    changed = True
    while changed:
        changed = False
        for n in walk_body(fn):
            if isinstance(n, ast.Assign):
                fs = _expr_fields(n.value, pname, deps)
                for t in n.targets:
                    if isinstance(t, ast.Name) and not fs <= deps.get(t.id, set()):
                        deps.setdefault(t.id, set()).update(fs)
                        changed = True
    return deps


def _expr_fields(e: ast.AST, pname: str, deps: dict[str, set[str]]) -> set[str]:
    out: set[str] = set()
    for n in ast.walk(e):
        if isinstance(n, ast.Attribute) and isinstance(n.value, ast.Name) and n.value.id == pname:
            out.add(n.attr)
        elif isinstance(n, ast.Name) and n.id in deps:
            out |= deps[n.id]
    return out


def ws_agree(check: Check, repo: Repo, modules: list[str]) -> None:
    rule = "WS-AGREE"
    check.rule(
        rule,
        "GraphQL white space is exactly TAB and SPACE: in the lexer, block-string helpers, printer and "
        "strip_ignored_characters no argument-less str.strip/lstrip/rstrip/split or str.isspace is "
        "applied (they also take NBSP, U+2003, U+0085, U+001F ... as blank), and every explicit blank "
        "set compared against a character is a subset of ' \\t'",
    )
    n = 0
    for mn in modules:
        mod = repo.mod(mn)
        for c in ast.walk(mod.tree):
            if isinstance(c, ast.Call) and isinstance(c.func, ast.Attribute):
                if c.func.attr in ("strip", "lstrip", "rstrip", "split") and not c.args and not c.keywords:
                    check.ob(rule, c, f"{node_text(c, 60)} in {qualname_of(c)}", False,
                             f"str.{c.func.attr}() without an explicit character set strips Unicode white space, not just TAB/SPACE")
                    n += 1
                elif c.func.attr == "isspace":
                    check.ob(rule, c, f"{node_text(c, 60)} in {qualname_of(c)}", False, "str.isspace() accepts Unicode white space")
                    n += 1
    # explicit blank sets in block_string helpers
    for fn_name in ("leading_white_space", "print_block_string", "is_printable_as_block_string"):
        fn = repo.func("language.block_string", fn_name)
        sets = set()
        for c in walk_body(fn):
            if isinstance(c, ast.Compare) and len(c.ops) == 1 and isinstance(c.ops[0], (ast.In, ast.NotIn, ast.Eq, ast.NotEq)):
                r = c.comparators[0]
                if isinstance(r, ast.Constant) and isinstance(r.value, str) and r.value and set(r.value) <= set(" \t"):
                    sets.add(r.value)
            elif isinstance(c, ast.Call) and isinstance(c.func, ast.Attribute) and c.func.attr in ("startswith", "endswith") and len(c.args) == 1:
                r = c.args[0]
                consts = [r] if isinstance(r, ast.Constant) else list(getattr(r, "elts", []))
                vals = [x.value for x in consts if isinstance(x, ast.Constant) and isinstance(x.value, str)]
                if vals and all(v and set(v) <= set(" \t") for v in vals):
                    sets.add("".join(sorted(set("".join(vals)))))
            elif isinstance(c, ast.match_case):
                # `case " " | "\t":` is the membership test `in " \t"` in pattern form
                pats = c.pattern.patterns if isinstance(c.pattern, ast.MatchOr) else [c.pattern]
                vals = [p_.value.value for p_ in pats if isinstance(p_, ast.MatchValue) and isinstance(p_.value, ast.Constant) and isinstance(p_.value.value, str)]
                if vals and len(vals) == len(pats) and all(v and set(v) <= set(" \t") for v in vals):
                    sets.add("".join(sorted(set("".join(vals)))))
        ok = bool(sets) and all(set(s) == {" ", "\t"} for s in sets)
        check.ob(rule, fn, f"blank set used by {fn_name}", ok, f"sets: {sorted(sets)!r}" if sets else "no explicit ' \\t' membership test: blanks are decided some other way")


def lexer_break_conditions(check: Check, repo: Repo) -> None:
    rule = "LEXER-LT-EVAL"
    check.rule(
        rule,
        "the conditions under which read_comment / read_string stop at a line terminator, evaluated as "
        "pure expressions over the three terminator situations (LF; lone CR; CR followed by LF), hold in "
        "all three and in none of {letter, VT, FF, NEL, LS}: a lone CR ends a comment / an unterminated string",
    )
    mod = repo.mod("language.lexer")
    probes_true = [("\n", "\nx"), ("\r", "\rx"), ("\r", "\r\nx")]
    probes_false = [("a", "ax"), ("\x0b", "\x0bx"), ("\x0c", "\x0cx"), ("\x85", "\x85x"), (" ", " x")]
    for fn_name in ("read_comment", "read_string"):
        fn = repo.func("language.lexer", f"Lexer.{fn_name}")
        loop = next((n for n in fn.body if isinstance(n, ast.While)), None)
        if loop is None:
            raise AnalysisError(f"{fn_name}: scanning loop missing")
        breaks = [s for s in loop.body if isinstance(s, ast.If) and s.body and isinstance(s.body[-1], ast.Break)]
        # only those whose test mentions a line terminator character
        lt = [b for b in breaks if any(isinstance(c, ast.Constant) and isinstance(c.value, str) and set(c.value) & set("\r\n") for c in ast.walk(b.test))]
        if not lt:
            check.ob(rule, fn, f"{fn_name}: stops at line terminators", False, "no break on a line terminator found")
            continue

        def stops(char: str, body: str) -> bool:
            for b in lt:
                try:
                    if Evaluator(repo, mod, {"char": char, "body": body, "position": 0, "body_length": len(body)}).eval(b.test):
                        return True
                except NotStatic as e:
                    raise AnalysisError(f"{fn_name}: break condition not static: {e}") from e
            return False

        bad_t = [repr(c + "|" + b) for c, b in probes_true if not stops(c, b)]
        bad_f = [repr(c) for c, b in probes_false if stops(c, b)]
        check.ob(rule, lt[0], f"{fn_name}: break condition {unparse(lt[0].test)[:60]}", not bad_t and not bad_f,
                 "stops at LF, lone CR and CR LF only" if not (bad_t or bad_f) else
                 f"does not stop at {bad_t}; wrongly stops at {bad_f}")


def block_string_predicates(check: Check, repo: Repo) -> None:
    rule = "BLOCK-PREDICATES"
    check.rule(
        rule,
        "print_block_string's per-line predicate deciding the forced leading newline, evaluated over probe "
        "lines, treats empty lines and lines starting with TAB/SPACE as indented and nothing else - the "
        "same notion dedent_block_string_lines uses (blank lines are ignored for the common indent), "
        "otherwise stripping/reprinting a block string changes its value",
    )
    mod = repo.mod("language.block_string")
    fn = repo.func("language.block_string", "print_block_string")
    target = None
    for s in walk_body(fn):
        if isinstance(s, ast.Assign) and isinstance(s.targets[0], ast.Name) and s.targets[0].id == "force_leading_new_line":
            target = s
    if target is None:
        raise AnalysisError("print_block_string: force_leading_new_line not found")
    gens = [g for g in ast.walk(target.value) if isinstance(g, ast.GeneratorExp)]
    alls = [c for c in ast.walk(target.value) if isinstance(c, ast.Call) and call_name(c) == "all"]
    if len(gens) != 1 or len(alls) != 1:
        check.ob(rule, target, "force_leading_new_line = ... all(<pred> for line in lines[1:])", False, unparse(target.value)[:80])
        return
    g = gens[0]
    var = unparse(g.generators[0].target)
    want = {"": True, " x": True, "\tx": True, " ": True, "x": False, " x": False, " x": False, '"': False}
    bad = []
    for line, expect in want.items():
        try:
            got = bool(Evaluator(repo, mod, {var: line}).eval(g.elt))
        except NotStatic as e:
            raise AnalysisError(f"predicate not static: {e}") from e
        if got != expect:
            bad.append(f"{line!r}->{got}")
    ok = not bad and unparse(g.generators[0].iter) == "lines[1:]"
    check.ob(rule, target, f"indented-or-blank predicate `{unparse(g.elt)}` over {unparse(g.generators[0].iter)}", ok,
             "matches the dedent notion on all probes" if ok else f"differs on {bad}")
    # dedent side: blank lines skipped
    dd = repo.func("language.block_string", "dedent_block_string_lines")
    skip = [s for s in walk_body(dd) if isinstance(s, ast.If) and unparse(s.test) == "indent == len(line)" and isinstance(s.body[0], ast.Continue)]
    check.ob(rule, dd, "dedent ignores blank lines for the common indent", len(skip) == 1, "")
    lw = repo.func("language.block_string", "leading_white_space")
    from sa.tables import char_class  # noqa: F401
    probes = {"": 0, "  x": 2, "\t x": 2, "x ": 0, " x": 0, "   ": 3}
    bad = []
    for s_, expect in probes.items():
        got = _count_leading(repo, mod, lw, s_)
        if got != expect:
            bad.append(f"{s_!r}->{got}")
    check.ob(rule, lw, "leading_white_space counts TAB/SPACE only", not bad, "all probes agree" if not bad else f"differs on {bad}")


def _count_leading(repo: Repo, mod, fn: ast.AST, s: str):
    """Interpret leading_white_space(s): `i = 0; for c in s: if c not in SET: return i; i += 1; return i`."""
    body = [x for x in fn.body if not (isinstance(x, ast.Expr) and isinstance(x.value, ast.Constant))]  # type: ignore[attr-defined]
    loop = next((x for x in body if isinstance(x, ast.For)), None)
    if loop is None:
        # any other implementation: try the evaluator on a single return expression
        rets = [x for x in body if isinstance(x, ast.Return)]
        if len(rets) == 1 and len(body) == 1:
            try:
                return Evaluator(repo, mod, {fn.args.args[0].arg: s}).eval(rets[0].value)  # type: ignore[attr-defined]
            except NotStatic:
                return None
        return None
    var = unparse(loop.target)
    i = 0
    for ch in s:
        stop = False
        for st in loop.body:
            if isinstance(st, ast.If) and st.body and isinstance(st.body[0], ast.Return):
                try:
                    if Evaluator(repo, mod, {var: ch}).eval(st.test):
                        stop = True
                except NotStatic:
                    return None
        if stop:
            return i
        i += 1
    return i


def optional_truthiness(check: Check, repo: Repo, modules: list[str], rule: str = "OPTIONAL-TRUTHINESS",
                        str_attrs: tuple[str, ...] = ()) -> None:
    from rules.write_effect import top_heads
    from sa.mtypes import MTypes

    check.rule(
        rule,
        "a value typed `int | None` is never tested by bare truthiness (0 is a legitimate value distinct "
        "from None: max_tokens=0, max_errors=0), and the attributes listed as 'None means absent' "
        "(deprecation_reason: an empty reason is still deprecated) are tested with `is None` / `is not "
        "None` only - the form used at all of the package's other sites",
    )
    mt = MTypes.get(repo)
    n = 0
    for mn in modules:
        mod = repo.mod(mn)
        for node in ast.walk(mod.tree):
            tests: list[ast.AST] = []
            if isinstance(node, (ast.If, ast.While, ast.IfExp)):
                tests = [node.test]
            elif isinstance(node, ast.BoolOp):
                tests = list(node.values)
            elif isinstance(node, ast.UnaryOp) and isinstance(node.op, ast.Not):
                tests = [node.operand]
            for t in tests:
                if not isinstance(t, (ast.Name, ast.Attribute)):
                    continue
                ty = mt.type_of(t)
                heads = top_heads(ty) if ty else set()
                is_opt_int = heads == {"builtins.int", "None"}
                is_listed = isinstance(t, ast.Attribute) and t.attr in str_attrs or isinstance(t, ast.Name) and t.id in str_attrs
                if is_opt_int or is_listed:
                    n += 1
                    check.ob(rule, t, f"truthiness test of `{unparse(t)}` in {qualname_of(t)}", False,
                             f"`{unparse(t)}` has type {ty or 'listed attribute'}: a falsy non-None value (0 / empty reason) is treated like None")
        # every explicit None-test of the listed attributes / optional ints counts as a discharged instance
        for node in ast.walk(mod.tree):
            if isinstance(node, ast.Compare) and len(node.ops) == 1 and isinstance(node.ops[0], (ast.Is, ast.IsNot)) \
                    and isinstance(node.comparators[0], ast.Constant) and node.comparators[0].value is None:
                l = node.left
                ty = mt.type_of(l) if isinstance(l, (ast.Name, ast.Attribute)) else None
                heads = top_heads(ty) if ty else set()
                if heads == {"builtins.int", "None"} or (isinstance(l, ast.Attribute) and l.attr in str_attrs) or (
                        isinstance(l, ast.Name) and l.id in str_attrs):
                    n += 1
                    check.ob(rule, node, f"`{unparse(node)}` in {qualname_of(node)}", True, "explicit None test")


# -- document order: keys table / parser / printer ------------------------------


def _ordered_fields(e: ast.AST, pname: str, local_order: dict[str, list[str]]) -> list[str]:
    """Fields of `pname` in left-to-right evaluation order of e, locals expanded."""
    out: list[str] = []

    def rec(n: ast.AST) -> None:
        if isinstance(n, ast.Attribute) and isinstance(n.value, ast.Name) and n.value.id == pname:
            if n.attr not in out:
                out.append(n.attr)
            return
        if isinstance(n, ast.Name) and n.id in local_order:
            for f in local_order[n.id]:
                if f not in out:
                    out.append(f)
            return
        if isinstance(n, ast.IfExp):
            # text order is that of the arms; the test only selects
            rec(n.body)
            rec(n.orelse)
            rec(n.test)
            return
        for c in ast.iter_child_nodes(n):
            rec(c)

    rec(e)
    return out


def printer_field_order(m: ast.AST, pname: str) -> list[list[str]]:
    """One field order per return statement of a leave_<kind> method."""
    local_order: dict[str, list[str]] = {}
    for n in walk_body(m):
        if isinstance(n, ast.Assign) and len(n.targets) == 1 and isinstance(n.targets[0], ast.Name):
            local_order[n.targets[0].id] = _ordered_fields(n.value, pname, local_order)
    return [_ordered_fields(r.value, pname, local_order) for r in walk_body(m) if isinstance(r, ast.Return) and r.value is not None]


def _consumes(e: ast.AST) -> bool:
    return any(
        isinstance(c, ast.Call) and isinstance(c.func, ast.Attribute) and isinstance(c.func.value, ast.Name) and c.func.value.id == "self"
        and c.func.attr != "loc"
        for c in ast.walk(e)
    )


def parser_field_order(call: ast.Call) -> list[str] | None:
    """Fields of an XNode(...) construction in the order the parser consumes their tokens."""
    fn = enclosing_function(call)
    if fn is None:
        return None
    pos: dict[str, tuple[int, int]] = {}
    for k in call.keywords:
        if k.arg is None or k.arg == "loc":
            continue
        v = k.value
        if isinstance(v, ast.Name):
            defs = [
                s for s in walk_body(fn)
                if isinstance(s, (ast.Assign, ast.AnnAssign)) and s.value is not None and s.lineno < call.lineno
                and any(isinstance(t, ast.Name) and t.id == v.id for t in (s.targets if isinstance(s, ast.Assign) else [s.target]))
                and _consumes(s.value)
            ]
            if not defs:
                continue
            first = min(defs, key=lambda s: (s.lineno, s.col_offset))
            pos[k.arg] = (first.value.lineno, first.value.col_offset)
        elif _consumes(v):
            pos[k.arg] = (v.lineno, v.col_offset)
    return sorted(pos, key=lambda f: pos[f])


def _order_conflicts(a: list[str], b: list[str]) -> list[tuple[str, str]]:
    common = [f for f in a if f in b]
    out = []
    for i, x in enumerate(common):
        for y in common[i + 1:]:
            if b.index(x) > b.index(y):
                out.append((x, y))
    return out


def order_agree(check: Check, repo: Repo, model: AstModel, rule: str = "ORDER-AGREE", sides: tuple[str, ...] = ("keys", "printer"), floor: int = 25) -> None:
    check.rule(
        rule,
        "document order is one order: for every node kind the order in which parser.py consumes the "
        "fields of X (position of the consuming self.parse_*/expect_* expression bound to each keyword "
        "of the XNode(...) construction) agrees pairwise with (a) the order of QUERY_DOCUMENT_KEYS[kind], "
        "which is the order visit() walks the children in, and (b) the left-to-right order in which "
        "PrintAstVisitor.leave_<kind> places the fields in the printed text",
    )
    table = module_const(repo, "language.ast", "QUERY_DOCUMENT_KEYS")
    tnode = repo.mod("language.ast").toplevel_assign("QUERY_DOCUMENT_KEYS")
    pcls = repo.cls("language.printer", "PrintAstVisitor")
    methods = {s.name: s for s in pcls.body if isinstance(s, (ast.FunctionDef, ast.AsyncFunctionDef))}
    mod = repo.mod("language.parser")
    n = 0
    for call in ast.walk(mod.tree):
        if not (isinstance(call, ast.Call) and isinstance(call.func, ast.Name) and call.func.id in model.classes):
            continue
        c = model.classes[call.func.id]
        if c.abstract:
            continue
        porder = parser_field_order(call)
        if not porder or len(porder) < 2:
            continue
        kind = c.kind
        where_ = f"{c.name}(...) in {qualname_of(call)}"
        if "keys" in sides and kind in table:
            bad = _order_conflicts(porder, list(table[kind]))
            check.ob(rule, call, f"{where_} vs QUERY_DOCUMENT_KEYS[{kind!r}]", not bad,
                     f"parser order {porder} agrees with keys {tuple(table[kind])}" if not bad else
                     "; ".join(f"parser consumes `{x}` before `{y}` but the keys table visits `{y}` first" for x, y in bad))
            n += 1
        m = methods.get(f"leave_{kind}")
        if "printer" in sides and m is not None:
            params = [a.arg for a in m.args.posonlyargs + m.args.args]
            is_static = any(unparse(d) == "staticmethod" for d in m.decorator_list)
            pname = params[0] if is_static else (params[1] if len(params) > 1 else None)
            if pname is None:
                continue
            m = _see_through_helpers(repo, m, pname)
            for k, rorder in enumerate(printer_field_order(m, pname)):
                bad = _order_conflicts(porder, rorder)
                check.ob(rule, call, f"{where_} vs leave_{kind} return #{k + 1}", not bad,
                         f"parser order {porder} agrees with printed order {rorder}" if not bad else
                         "; ".join(f"parser consumes `{x}` before `{y}` but the printer emits `{y}` first" for x, y in bad))
                n += 1
    _ = tnode
    check.floor(rule, floor, "parser constructions compared with the keys table / the printer")


# -- visit(): the kind used for dispatch and for the child keys is the current node's ------


def kind_of_current_node(check: Check, repo: Repo, rule: str = "KIND-CURRENT") -> None:
    check.rule(
        rule,
        "in visit() the kind handed to visitor.get_enter_leave_for_kind(...) and to visitor_keys.get(...) "
        "is the kind of the node in hand: the argument is `node.kind` itself or a local that must equal "
        "`node.kind` on every path (an equality fact that dies when `node` is rebound - after a visitor "
        "replaced the node, a kind cached earlier selects the child keys of the node that was replaced)",
    )
    fn = repo.func("language.visitor", "visit")
    flow = FactFlow(CFG(fn))
    n = 0
    for c in ast.walk(fn):
        if not isinstance(c, ast.Call) or not c.args:
            continue
        cn = call_name(c)
        if not (cn.endswith("get_enter_leave_for_kind") or cn == "visitor_keys.get"):
            continue
        arg = c.args[0]
        n += 1
        if unparse(arg) == "node.kind":
            check.ob(rule, c, node_text(c, 70), True, "argument is node.kind")
            continue
        ok, why = False, f"`{unparse(arg)}` is not node.kind"
        if isinstance(arg, ast.Name):
            facts = flow.facts_at(c)
            eq = [f for f in facts if f.kind == "eq" and f.name == arg.id and unparse(f.expr) == "node.kind"]
            if not eq:
                # `kind = None if in_array else node.kind` used in the matching arm of `... if in_array else ...`
                for f in facts:
                    if f.kind == "eq" and f.name == arg.id and isinstance(f.expr, ast.IfExp):
                        arm = "body" if unparse(f.expr.body) == "node.kind" else ("orelse" if unparse(f.expr.orelse) == "node.kind" else None)
                        sel = next((a for a in _anc(c) if isinstance(a, ast.IfExp) and unparse(a.test) == unparse(f.expr.test)), None)
                        if arm and sel is not None and any(x is c for x in ast.walk(getattr(sel, arm))):
                            eq = [f]
            ok = bool(eq)
            why = f"{arg.id} == node.kind holds on every path to the call" if ok else \
                f"no must-fact `{arg.id} == node.kind` here: `node` may have been rebound since `{arg.id}` was read"
        check.ob(rule, c, node_text(c, 70), ok, why)
    if n < 2:
        raise AnalysisError("visit(): kind dispatch sites not found")


# -- the fixed-width escape reader accepts what the printer emits -----------------------------------

ESC_ACCEPT = (0x0, 0x1, 0x8, 0xB, 0x1F, 0x7F, 0x9F, 0xFF, 0xD7FF, 0xE000, 0xFFFD, 0xFFFF)
ESC_REJECT = (-1, 0xD800, 0xDBFF, 0xDC00, 0xDFFF)


def escape_range(check: Check, repo: Repo, rule: str = "ESCAPE-RANGE") -> None:
    check.rule(
        rule,
        "Lexer.read_escaped_unicode_fixed_width, folded for boundary values of the 16-bit code it has read "
        "(the statements after `code = read_16_bit_hex_code(...)` are evaluated with `code` bound to a "
        "constant, nothing of the lexer is run): every Unicode scalar value up to U+FFFF - including U+0000, "
        "which print_string writes as \\u0000 - is returned as one escape of width 6 holding chr(code); a "
        "lone surrogate and the invalid-hex marker -1 are not",
    )
    fn = repo.func("language.lexer", "Lexer.read_escaped_unicode_fixed_width")
    mod = repo.mod("language.lexer")
    idx = next((i for i, s in enumerate(fn.body) if isinstance(s, ast.Assign) and isinstance(s.targets[0], ast.Name)
                and s.targets[0].id == "code" and isinstance(s.value, ast.Call) and call_name(s.value) == "read_16_bit_hex_code"), None)
    if idx is None:
        raise AnalysisError("read_escaped_unicode_fixed_width: `code = read_16_bit_hex_code(...)` not found")
    rest = fn.body[idx + 1:]

    def fold(k: int):
        ev = Evaluator(repo, mod, {"code": k, "EscapeSequence": lambda v, size: ("ESC", v, size)})
        try:
            r = ev._exec_block(rest)
        except NotStatic as e:
            return ("OTHER", str(e))
        return r

    for k in ESC_ACCEPT:
        r = fold(k)
        ok = r == ("ESC", chr(k), 6)
        check.ob(rule, fn, f"\\u{k:04X} is read as one escape", ok,
                 "EscapeSequence(chr(code), 6)" if ok else f"folds to {r!r}: the text print_string emits for U+{k:04X} is rejected or read differently")
    for k in ESC_REJECT:
        r = fold(k)
        ok = not (isinstance(r, tuple) and r and r[0] == "ESC")
        check.ob(rule, fn, f"code {k if k < 0 else hex(k)} alone is not an escape", ok,
                 "not accepted by the single-escape arm" if ok else f"folds to {r!r}: a lone surrogate / invalid hex is accepted")


def block_flag(check: Check, repo: Repo, rule: str = "BLOCK-FLAG") -> None:
    check.rule(
        rule,
        "PrintAstVisitor.leave_string_value chooses between print_block_string and print_string by "
        "`node.block` alone: the parser sets block from the delimiters it saw, so a printer that prints "
        "some block strings quoted (because of their content) yields text that parses to a node with "
        "block=False - a structurally different tree",
    )
    fn = repo.func("language.printer", "PrintAstVisitor.leave_string_value")
    calls = [c for c in walk_body(fn) if isinstance(c, ast.Call) and call_name(c) == "print_block_string"]
    if not calls:
        check.ob(rule, fn, "leave_string_value prints block strings with print_block_string", False, "print_block_string is never called")
        return
    for c in calls:
        sel = next((a for a in [parent(c), *[x for x in _anc(c)]] if isinstance(a, (ast.If, ast.IfExp))), None)
        test = sel.test if sel is not None else None
        atoms = set()
        if test is not None:
            for x in ast.walk(test):
                if isinstance(x, ast.Attribute):
                    atoms.add(unparse(x))
                elif isinstance(x, ast.Name) and not isinstance(parent(x), ast.Attribute):
                    atoms.add(x.id)
        pname = fn.args.args[0].arg
        ok = test is not None and atoms == {f"{pname}.block"}
        check.ob(rule, c, "print_block_string selected by node.block only", ok,
                 f"test `{unparse(test)}`" if ok else f"selection depends on {sorted(atoms)} (test `{unparse(test) if test is not None else 'none'}`)")


# -- C11: enter/leave fallback, iteration-local variables, removed single children ------------------


def enter_leave_table(check: Check, repo: Repo, rule: str = "ENTER-LEAVE-TABLE") -> None:
    check.rule(
        rule,
        "Visitor.get_enter_leave_for_kind, folded over the 16 combinations of {enter_<kind>, leave_<kind>, "
        "enter, leave} being defined or not (the getattr calls are answered from a table, nothing is run): "
        "the enter handler is enter_<kind> if defined, else the generic enter - independently of the leave "
        "side, and symmetrically for leave; a visitor with a generic pair and one kind-specific handler must "
        "still be called in the other direction",
    )
    fn = repo.func("language.visitor", "Visitor.get_enter_leave_for_kind")
    mod = repo.mod("language.visitor")
    # the block that computes the pair on a cache miss: the except-arm of the lookup, or the body of
    # `if <cached> is None:` - whichever block contains the EnterLeaveVisitor(...) construction / the helper call
    def _blocks(node: ast.AST):
        for f in ("body", "orelse", "finalbody"):
            b = getattr(node, f, None)
            if isinstance(b, list) and b and isinstance(b[0], ast.stmt):
                yield b
                for s_ in b:
                    yield from _blocks(s_)
        for h in getattr(node, "handlers", []):
            yield h.body
            for s_ in h.body:
                yield from _blocks(s_)

    def _computes(s_: ast.stmt) -> bool:
        v = s_.value if isinstance(s_, (ast.Assign, ast.Return)) else None
        return isinstance(v, ast.Call) and (call_name(v) == "EnterLeaveVisitor" or (
            isinstance(v.func, ast.Name) and isinstance(mod.defs.get(v.func.id), ast.FunctionDef) and [unparse(a) for a in v.args] == ["self", "kind"]))

    miss_block = next((b for b in _blocks(fn) if any(_computes(s_) for s_ in b)), None)
    if miss_block is None:
        raise AnalysisError("get_enter_leave_for_kind: the block that computes the pair on a cache miss was not found")

    class _H:  # the statements of that block, under the name the code below uses
        body = miss_block

    handler = _H
    stmts = []
    result_expr = None
    for s in handler.body:
        if isinstance(s, ast.Assign) and isinstance(s.value, ast.Call) and call_name(s.value) == "EnterLeaveVisitor":
            result_expr = s.value
            break
        if isinstance(s, ast.Return) and isinstance(s.value, ast.Call) and call_name(s.value) == "EnterLeaveVisitor":
            result_expr = s.value
            break
        stmts.append(s)
    names = {"self": "SELF", "kind": "k"}
    if result_expr is None:
        # the lookup may have been extracted into a module-level helper called with (self, kind)
        for s in handler.body:
            call = s.value if isinstance(s, (ast.Assign, ast.Return)) and isinstance(s.value, ast.Call) else None
            helper = mod.defs.get(call.func.id) if call is not None and isinstance(call.func, ast.Name) else None
            if isinstance(helper, ast.FunctionDef) and [unparse(a) for a in call.args] == ["self", "kind"] and len(helper.args.args) == 2:
                names = {helper.args.args[0].arg: "SELF", helper.args.args[1].arg: "k"}
                stmts = []
                for hs in helper.body:
                    if isinstance(hs, (ast.Assign, ast.Return)) and isinstance(hs.value, ast.Call) and call_name(hs.value) == "EnterLeaveVisitor":
                        result_expr = hs.value
                        break
                    if not (isinstance(hs, ast.Expr) and isinstance(hs.value, ast.Constant)):
                        stmts.append(hs)
                break
    if result_expr is None:
        raise AnalysisError("get_enter_leave_for_kind: EnterLeaveVisitor(...) construction not found")
    import itertools

    bad = []
    n = 0
    for ek, lk, e, l in itertools.product((False, True), repeat=4):
        have = {"enter_k": "EK" if ek else None, "leave_k": "LK" if lk else None, "enter": "E" if e else None, "leave": "L" if l else None}
        ev = Evaluator(repo, mod, {
            **names,
            "getattr": lambda _o, name, default=None, have=have: have.get(name, default),
            "EnterLeaveVisitor": lambda a, b: (a, b),
        })
        try:
            r = ev._exec_block(stmts)
            if r is Evaluator._NoReturn:
                r = ev.eval(result_expr)
        except NotStatic as ex:
            raise AnalysisError(f"get_enter_leave_for_kind is no longer foldable: {ex}") from ex
        want = (have["enter_k"] or have["enter"], have["leave_k"] or have["leave"])
        n += 1
        if r != want:
            bad.append((have, r, want))
    check.ob(rule, fn, "get_enter_leave_for_kind: 16 combinations of defined handlers", not bad,
             "all 16 cells: (enter_<kind> or enter, leave_<kind> or leave)" if not bad else
             "; ".join(f"with {[k for k, v in h.items() if v]} defined the pair is {r}, expected {w}" for h, r, w in bad[:3]))


ITERATION_LOCAL = {
    # function -> names that every iteration of its main loop assigns before reading (confirmed by reading
    # visit(): they describe the node in hand, never the previous one)
    ("language.visitor", "visit"): ("result", "is_leaving", "is_edited", "enter_leave", "visit_fn"),
}


def iteration_local(check: Check, repo: Repo, rule: str = "ITERATION-LOCAL") -> None:
    check.rule(
        rule,
        "in visit() the per-node variables (result, is_leaving, is_edited, enter_leave, visit_fn) are "
        "assigned on every path from the head of the traversal loop to each of their reads: a read that can "
        "be reached from the loop head without passing an assignment sees the value of the *previous* node "
        "(a replacement returned for one node would be recorded - or lost - for the next)",
    )
    for (mn, q), names in ITERATION_LOCAL.items():
        fn = repo.func(mn, q)
        loops = [s for s in fn.body if isinstance(s, ast.While)]
        if len(loops) != 1:
            raise AnalysisError(f"{q}: main loop not found")
        loop = loops[0]
        cfg = CFG(fn)
        head = cfg.nodes_of(loop)[0]
        for name in names:
            defs = {nd for nd in cfg.nodes if nd.ast is not None and nd.kind in ("stmt", "for", "with") and _assigns(nd.ast, name)
                    and any(x is nd.ast for x in ast.walk(loop))}
            reads = [x for x in ast.walk(loop) if isinstance(x, ast.Name) and x.id == name and isinstance(x.ctx, ast.Load)]
            if not reads:
                check.ob(rule, loop, f"{q}: `{name}` per iteration", True, "not read in the loop", nontrivial=False)
                continue
            stale = None
            for r in reads:
                goals = set(cfg.node_for_expr(r))
                path = cfg.find_path(head, lambda nd: nd in goals, avoid=lambda nd: nd in defs)
                if path:
                    stale = (r, path)
                    break
            check.ob(rule, loop, f"{q}: `{name}` is assigned before it is read in every iteration", stale is None,
                     f"{len(reads)} reads, each dominated by an assignment inside the iteration" if stale is None else
                     f"read at line {stale[0].lineno} is reachable from the loop head without an assignment: " + cfg.describe_path(stale[1])[-200:])


def _assigns(stmt: ast.AST, name: str) -> bool:
    targets: list[ast.AST] = []
    if isinstance(stmt, ast.Assign):
        targets = list(stmt.targets)
    elif isinstance(stmt, (ast.AnnAssign, ast.AugAssign)):
        targets = [stmt.target]
    elif isinstance(stmt, (ast.For, ast.AsyncFor)):
        targets = [stmt.target]
    for t in targets:
        for x in ast.walk(t):
            if isinstance(x, ast.Name) and x.id == name:
                return True
    return False


def _first_cfg_node(cfg: CFG, stmt: ast.stmt):
    """The CFG node control reaches first when `stmt` is executed (the first atomic test of a compound statement)."""
    ns = cfg.nodes_of(stmt)
    if ns:
        return ns[0]
    e = getattr(stmt, "test", None) or getattr(stmt, "iter", None) or getattr(stmt, "subject", None)
    while e is not None:
        if isinstance(e, ast.BoolOp):
            e = e.values[0]
        elif isinstance(e, ast.UnaryOp) and isinstance(e.op, ast.Not):
            e = e.operand
        else:
            break
    ns = cfg.node_for_expr(e) if e is not None else []
    if not ns:
        raise AnalysisError(f"no CFG node for the statement at line {stmt.lineno}")
    return ns[0]


def removed_child_is_none(check: Check, repo: Repo, rule: str = "EDIT-SENTINEL") -> None:
    """Clause of EDIT-SENTINEL: in the node arm a removed child becomes None, it is not dropped from the kwargs."""
    anchor, _arr_body, body, fn, ename = _edit_arms(repo)
    arms_if = [anchor]
    loops = [l for s in body for l in ast.walk(s) if isinstance(l, ast.For) and ename in unparse(l.iter)]
    if not loops:
        check.ob(rule, arms_if[0], "node arm: every recorded edit is stored under its key (REMOVE as None)", False,
                 "the node arm does not go through the edits one by one, so a removed child cannot be turned into None")
        return
    for lp in loops:
        key = unparse(lp.target.elts[0]) if isinstance(lp.target, ast.Tuple) else None
        stores = [s for s in ast.walk(lp) if isinstance(s, ast.Assign) and isinstance(s.targets[0], ast.Subscript) and unparse(s.targets[0].slice) == key]
        removals = [c for c in ast.walk(lp) if (isinstance(c, ast.Call) and isinstance(c.func, ast.Attribute) and c.func.attr in ("pop", "__delitem__"))
                    or isinstance(c, ast.Delete)]
        # must-store: every path through the loop body stores values[edit_key]
        cfg_ = CFG(fn)
        store_nodes = {n_ for s in stores for n_ in cfg_.nodes_of(s)}
        head_ = cfg_.nodes_of(lp)[0]
        first_ = _first_cfg_node(cfg_, lp.body[0])
        unconditional = bool(stores) and (first_ in store_nodes or cfg_.find_path(
            first_, lambda nd: nd is head_, follow=no_exc, avoid=lambda nd: nd in store_nodes) is None)
        ok = unconditional and not removals
        check.ob(rule, lp, "node arm: every recorded edit is stored under its key (REMOVE as None)", ok,
                 "values[edit_key] is assigned on every path; no key is deleted" if ok else
                 ("a removed child is deleted from the constructor arguments instead of being set to None: a required field then has no value "
                  "and rebuilding the node raises TypeError" if removals else "an edit may leave the key untouched"))


# -- C09: stripping always lexes; the hex digit table ---------------------------------------------------


def strip_always_lexes(check: Check, repo: Repo, rule: str = "STRIP-LEXES") -> None:
    check.rule(
        rule,
        "strip_ignored_characters returns only text it assembled from the token stream: every return value "
        "is the accumulator that the lexing loop (`while lexer.advance().kind != TokenKind.EOF`) fills, and "
        "no return precedes that loop - a shortcut that hands back the input unseen also hands back sources "
        "that do not lex ('rejected before and after' fails)",
    )
    fn = repo.func("utilities.strip_ignored_characters", "strip_ignored_characters")
    loops = [w for w in fn.body if isinstance(w, ast.While) and "advance()" in unparse(w.test)]
    if len(loops) != 1:
        raise AnalysisError("strip_ignored_characters: lexing loop not found at function level")
    loop = loops[0]
    acc = {
        unparse(s.target) for s in ast.walk(loop) if isinstance(s, ast.AugAssign) and isinstance(s.op, ast.Add)
    }
    # the other spelling of an accumulator: a list of parts that is joined at the end
    parts = {unparse(c.func.value) for c in ast.walk(loop) if isinstance(c, ast.Call) and isinstance(c.func, ast.Attribute)
             and c.func.attr in ("append", "extend") and isinstance(c.func.value, ast.Name)}
    rets = [r for r in walk_body(fn) if isinstance(r, ast.Return)]
    for r in rets:
        early = r.lineno < loop.lineno
        v = r.value
        joined = (isinstance(v, ast.Call) and isinstance(v.func, ast.Attribute) and v.func.attr == "join" and isinstance(v.func.value, ast.Constant)
                  and v.func.value.value == "" and len(v.args) == 1 and unparse(v.args[0]) in parts)
        from_tokens = v is not None and (unparse(v) in acc or joined)
        ok = not early and from_tokens
        check.ob(rule, r, f"return {unparse(r.value) if r.value is not None else ''}".strip(), ok,
                 "the accumulator filled by the lexing loop" if ok else
                 ("returns before the source has been lexed" if early else "returns something else than the text assembled from tokens"))
    check.ob(rule, loop, "lexing loop runs to EOF", "TokenKind.EOF" in unparse(loop.test), unparse(loop.test))


def hex_digit_table(check: Check, repo: Repo, rule: str = "HEX-TABLE") -> None:
    check.rule(
        rule,
        "read_hex_digit, folded over every ASCII character and a few non-ASCII digits/letters (constant "
        "evaluation of a pure function): '0'-'9' -> 0-9, 'A'-'F' and 'a'-'f' -> 10-15, everything else -> -1; "
        "read_16_bit_hex_code combines four digits as d0<<12 | d1<<8 | d2<<4 | d3",
    )
    fn = repo.func("language.lexer", "read_hex_digit")
    mod = repo.mod("language.lexer")
    probes = [chr(i) for i in range(0x20, 0x7F)] + ["", "١", "Ａ", "é", "Ⅷ"]
    bad = []
    for c in probes:
        try:
            got = Evaluator(repo, mod).call_function(mod, fn, [c], {})
        except NotStatic as ex:
            raise AnalysisError(f"read_hex_digit is no longer foldable: {ex}") from ex
        want = int(c, 16) if len(c) == 1 and c in "0123456789abcdefABCDEF" else -1
        if got != want:
            bad.append((c, got, want))
    check.ob(rule, fn, f"read_hex_digit over {len(probes)} characters", not bad,
             "agrees with the hexadecimal digit values" if not bad else
             "; ".join(f"{c!r} -> {g} (expected {w})" for c, g, w in bad[:5]))
    f16 = repo.func("language.lexer", "read_16_bit_hex_code")
    txt = " ".join(unparse(r.value) for r in walk_body(f16) if isinstance(r, ast.Return) and r.value is not None)
    ok = all(s in txt for s in ("<< 12", "<< 8", "<< 4")) and txt.count("read_hex_digit") == 4
    check.ob(rule, f16, "read_16_bit_hex_code combines four digits", ok, txt[:120])


# -- C08: nothing rewrites the printed text; print_string escapes by its table only; fields are not compared


def print_direct(check: Check, repo: Repo, rule: str = "PRINT-DIRECT") -> None:
    check.rule(
        rule,
        "the printed document is exactly what the leave_<kind> methods assemble: print_ast returns the "
        "result of visit(ast, PrintAstVisitor()) itself, with no string/regex operation applied to the whole "
        "text afterwards (such an operation cannot tell layout from the content of a block string); and "
        "print_string's result is the quotes around s.translate(escape_sequences) - the table is the only "
        "place where characters are rewritten (a second, per-character escape writes \\uXXXXX for "
        "supplementary-plane characters, which the lexer reads as a 4-digit escape plus a digit)",
    )
    fn = repo.func("language.printer", "print_ast")
    rets = [r for r in walk_body(fn) if isinstance(r, ast.Return) and r.value is not None]
    for r in rets:
        v = r.value
        if isinstance(v, ast.Name):
            defs = [s_.value for s_ in walk_body(fn) if isinstance(s_, ast.Assign) and len(s_.targets) == 1
                    and isinstance(s_.targets[0], ast.Name) and s_.targets[0].id == v.id]
            if len(defs) == 1:
                v = defs[0]
        ok = isinstance(v, ast.Call) and call_name(v) == "visit" and len(v.args) == 2 and "PrintAstVisitor" in unparse(v.args[1])
        check.ob(rule, r, f"print_ast: return {node_text(v, 60)}", ok,
                 "the visitor's result, unmodified" if ok else "the visitor's result is post-processed as a whole string")
    ps = repo.func("language.print_string", "print_string")
    rets = [r for r in walk_body(ps) if isinstance(r, ast.Return) and r.value is not None]
    rewrites = [
        n for n in walk_body(ps)
        if isinstance(n, (ast.ListComp, ast.GeneratorExp, ast.For))
        or (isinstance(n, ast.Call) and isinstance(n.func, ast.Attribute) and n.func.attr in ("replace", "sub", "join", "encode"))
    ]
    translates = [c for c in walk_body(ps) if isinstance(c, ast.Call) and isinstance(c.func, ast.Attribute) and c.func.attr == "translate"
                  and c.args and unparse(c.args[0]) == "escape_sequences"]
    ok = bool(translates) and not rewrites and len(rets) == 1
    check.ob(rule, ps, "print_string: the escape table is the only rewriting step", ok,
             "s.translate(escape_sequences) between quotes" if ok else
             (f"additional character rewriting: {node_text(rewrites[0], 70)}" if rewrites else "translate(escape_sequences) not found"))


def printer_no_cross_compare(check: Check, repo: Repo, model: AstModel, rule: str = "PRINTER-FIELDS-INDEPENDENT") -> None:
    check.rule(
        rule,
        "a leave_<kind> method formats each field of the node on its own: no comparison has fields of the "
        "node on both sides (`node.alias == node.name`): printing one field differently depending on "
        "another field's value prints two structurally different nodes (alias 'user' on field 'user' vs no "
        "alias) to the same text",
    )
    cls = repo.cls("language.printer", "PrintAstVisitor")
    n = 0
    for m in cls.body:
        if not (isinstance(m, (ast.FunctionDef, ast.AsyncFunctionDef)) and m.name.startswith("leave_")):
            continue
        params = [a.arg for a in m.args.posonlyargs + m.args.args]
        is_static = any(unparse(d) == "staticmethod" for d in m.decorator_list)
        pname = params[0] if is_static else (params[1] if len(params) > 1 else None)
        if pname is None:
            continue
        deps = _local_deps(m, pname)
        bad = []
        for c in walk_body(m):
            if isinstance(c, ast.Compare) and len(c.ops) == 1 and isinstance(c.ops[0], (ast.Eq, ast.NotEq, ast.Is, ast.IsNot)):
                lf = _expr_fields(c.left, pname, deps)
                rf = _expr_fields(c.comparators[0], pname, deps)
                if lf and rf and lf != rf:
                    bad.append(c)
        n += 1
        check.ob(rule, m, f"{m.name}: no field-against-field comparison", not bad,
                 "fields are formatted independently" if not bad else f"`{unparse(bad[0])}` makes the text of one field depend on another field",
                 nontrivial=bool(bad))
    check.floor(rule, 45, "leave_<kind> methods")


def number_parts(check: Check, repo: Repo, rule: str = "NUMBER-PARTS") -> None:
    check.rule(
        rule,
        "Lexer.read_number applies the 'no digit after a leading 0' rule to the IntegerPart only: the branches "
        "for the FractionalPart (after '.') and the ExponentPart (after e/E and an optional sign) read their "
        "digits with a reader that accepts any digit sequence - the routine they call contains no leading-"
        "zero rejection. Python prints 5e-05, JavaScript 5e-5; both are valid FloatValues and a printed "
        "default value must lex again",
    )
    fn = repo.func("language.lexer", "Lexer.read_number")
    cls = repo.cls("language.lexer", "Lexer")
    methods = {m.name: m for m in cls.body if isinstance(m, FuncDef)}
    arms = []
    for s in fn.body:
        if isinstance(s, ast.If):
            t = unparse(s.test)
            if "'.'" in t and "is_name_start" not in t and not any(isinstance(x, ast.Raise) for x in s.body):
                arms.append(("FractionalPart", s))
            elif "'Ee'" in t or "'eE'" in t:
                arms.append(("ExponentPart", s))
    if len(arms) != 2:
        raise AnalysisError(f"read_number: fraction / exponent branches not recognised ({[a for a, _ in arms]})")

    def rejects_leading_zero(m: ast.AST, depth: int = 0) -> bool:
        # a test of the digit character against "0" that leads to a raise
        zero_test = any(
            isinstance(c, ast.Compare) and any(isinstance(k, ast.Constant) and k.value == "0" for k in [c.left, *c.comparators])
            for c in ast.walk(m))
        if zero_test and any(isinstance(x, ast.Raise) for x in ast.walk(m)):
            return True
        if depth < 2:
            for c in ast.walk(m):
                if isinstance(c, ast.Call) and isinstance(c.func, ast.Attribute) and unparse(c.func.value) == "self" and c.func.attr in methods \
                        and methods[c.func.attr] is not m:
                    if c.func.attr.startswith("read_") and rejects_leading_zero(methods[c.func.attr], depth + 1) and _reaches_on_zero(m, c):
                        return True
        return False

    for part, arm in arms:
        readers = [c for x in arm.body for c in ast.walk(x) if isinstance(c, ast.Call) and isinstance(c.func, ast.Attribute)
                   and unparse(c.func.value) == "self" and c.func.attr.startswith("read_")]
        bad = [c for c in readers if c.func.attr in methods and rejects_leading_zero(methods[c.func.attr])]
        inline = [i for x in arm.body for i in ast.walk(x) if isinstance(i, ast.If) and '"0"' in unparse(i.test).replace("'", '"')
                  and any(isinstance(r, ast.Raise) for r in ast.walk(i))]
        ok = bool(readers) and not bad and not inline
        check.ob(rule, arm, f"read_number: {part} digits read by {[c.func.attr for c in readers]}", ok,
                 "any digit sequence is accepted" if ok else
                 (f"`{bad[0].func.attr}` rejects a digit after a leading 0: '1e-05' no longer lexes" if bad else
                  ("leading-zero test inside the branch" if inline else "no digit reader called")))


def _reaches_on_zero(m: ast.AST, c: ast.Call) -> bool:
    return True


def escape_pairs(check: Check, repo: Repo, rule: str = "ESCAPE-RANGE") -> None:
    """Clause of ESCAPE-RANGE: JSON-style surrogate pairs, folded over concrete two-escape sources."""
    from sa.tables import Rec

    fn = repo.func("language.lexer", "Lexer.read_escaped_unicode_fixed_width")
    mod = repo.mod("language.lexer")
    valid = [(0xD800, 0xDC00), (0xD83D, 0xDE00), (0xDBFF, 0xDFFF), (0xDBF8, 0xDC00)]
    invalid = [(0xD800, 0xDBFF), (0xD800, 0xE000), (0xD800, 0xFC00), (0xD800, 0xFFFF), (0xDBFF, 0xFFFF), (0xDBF8, 0xFC00),
               (0xD800, 0x0041), (0xDC00, 0xDC00)]

    def fold(lead: int, trail: int):
        body = f"\\u{lead:04X}\\u{trail:04X}\\\""
        ev = Evaluator(repo, mod, {
            "self": Rec(source=Rec(body=body)), "position": 0,
            "EscapeSequence": lambda v, size: ("ESC", v, size),
        })
        try:
            return ev._exec_block(fn.body)
        except NotStatic as e:
            return ("REJECT",) if "statement Raise" in str(e) else ("ERROR", str(e))

    for lead, trail in valid:
        r = fold(lead, trail)
        want = ("ESC", chr(0x10000 + ((lead - 0xD800) << 10) + (trail - 0xDC00)), 12)
        check.ob(rule, fn, f"\\u{lead:04X}\\u{trail:04X} is one supplementary character", r == want,
                 f"U+{ord(want[1]):X}, width 12" if r == want else f"folds to {r!r}, expected {want!r}")
    for lead, trail in invalid:
        r = fold(lead, trail)
        ok = r == ("REJECT",)
        check.ob(rule, fn, f"\\u{lead:04X}\\u{trail:04X} is not a surrogate pair", ok,
                 "reaches the GraphQLSyntaxError" if ok else
                 (f"folds to {r!r}: " + ("an exception other than the syntax error leaves the lexer" if r[0] == "ERROR" else "accepted as a pair")))


def _norm_fact(f) -> tuple[str, bool] | None:
    """A condition fact as (atom text, polarity) with `is not` / `!=` / `not` folded into the polarity."""
    if f.kind != "cond":
        return None
    e, pol = f.expr, f.pol
    while isinstance(e, ast.UnaryOp) and isinstance(e.op, ast.Not):
        e, pol = e.operand, not pol
    if isinstance(e, ast.Compare) and len(e.ops) == 1 and isinstance(e.ops[0], (ast.IsNot, ast.NotEq)):
        op = ast.Is() if isinstance(e.ops[0], ast.IsNot) else ast.Eq()
        e, pol = ast.Compare(left=e.left, ops=[op], comparators=e.comparators), not pol
    return unparse(e), pol


def norm_facts(facts) -> set[tuple[str, bool]]:
    """Condition facts in normal form; a boolean local (`flag = <test>` with the eq-fact still valid) stands
    for its test."""
    from sa.guards import Fact

    facts = list(facts)
    eqs = {f.name: f.expr for f in facts if f.kind == "eq" and f.name}
    out = set()
    for f in facts:
        nf = _norm_fact(f)
        if nf:
            out.add(nf)
        if f.kind == "cond":
            e, pol = f.expr, f.pol
            while isinstance(e, ast.UnaryOp) and isinstance(e.op, ast.Not):
                e, pol = e.operand, not pol
            if isinstance(e, ast.Name) and e.id in eqs and isinstance(eqs[e.id], (ast.Compare, ast.UnaryOp, ast.Call, ast.BoolOp)):
                from sa.guards import split_cond

                for sub in split_cond(eqs[e.id], pol):  # `not (a or b)` gives not a, not b; `a and b` gives a, b
                    nf = _norm_fact(sub)
                    if nf:
                        out.add(nf)
    return out


def edit_once(check: Check, repo: Repo, rule: str = "EDIT-ONCE") -> None:
    check.rule(
        rule,
        "in visit() at most one edit is recorded per visited node: whenever one `edits.append(...)` can be reached "
        "from another inside the same iteration of the traversal loop, the two sites carry contradictory must-facts "
        "about a variable that is not re-assigned between them (`result is not None` where the visitor's own result "
        "is recorded, `result is None` where the node rebuilt from its children is passed upwards). Two records under "
        "one key make the array arm shift its offset twice and the node arm keep the later one: REMOVE returned on "
        "leave for a node with edited descendants would be overruled by the rebuilt node",
    )
    fn = repo.func("language.visitor", "visit")
    loops = [s for s in fn.body if isinstance(s, ast.While)]
    if len(loops) != 1:
        raise AnalysisError("visit(): main loop not found")
    loop = loops[0]
    cfg = CFG(fn)
    ff = FactFlow(cfg)
    head = cfg.nodes_of(loop)[0]
    sites = [c for c in ast.walk(loop) if isinstance(c, ast.Call) and unparse(c.func) == "edits.append"]
    n = 0
    for a in sites:
        for b in sites:
            if a is b:
                continue
            starts = cfg.node_for_expr(a)
            goals = set(cfg.node_for_expr(b))
            if not starts or not goals:
                continue
            path = cfg.find_path(starts[0], lambda nd: nd in goals, follow=no_exc, avoid=lambda nd: nd is head)
            if not path:
                continue
            n += 1
            fa = norm_facts(ff.facts_at(a))
            fb = norm_facts(ff.facts_at(b))
            contra = sorted(t for (t, p) in fa if (t, not p) in fb)
            # the contradicting atom must speak about the same values at both sites
            stable = []
            for t in contra:
                names = {x.id for x in ast.walk(ast.parse(t, mode="eval")) if isinstance(x, ast.Name)}
                between = {nd for nd in path[1:-1] if nd.ast is not None}
                if not any(_assigns(nd.ast, nm) for nd in cfg.reachable([starts[0]], follow=no_exc, avoid=lambda nd: nd is head or nd in goals)
                           if nd.ast is not None and nd.kind in ("stmt", "for", "with") for nm in names):
                    stable.append(t)
            check.ob(rule, b, f"visit(): edits.append at line {a.lineno} then line {b.lineno} in one iteration", bool(stable),
                     f"mutually exclusive: `{stable[0]}` holds at one site and is refuted at the other" if stable else
                     f"both can run for the same node ({unparse(a)[:50]} then {unparse(b)[:50]}): no contradictory fact; path "
                     + cfg.describe_path(path)[-160:])
    if n == 0:
        check.ob(rule, loop, "visit(): no two edits.append sites can run in one iteration", True, f"{len(sites)} site(s)", nontrivial=False)


def _handler_name_pattern(arg: ast.AST) -> bool:
    if isinstance(arg, ast.Constant) and isinstance(arg.value, str):
        return arg.value in ("enter", "leave") or arg.value.startswith(("enter_", "leave_"))
    if isinstance(arg, ast.JoinedStr) and arg.values and isinstance(arg.values[0], ast.Constant):
        return str(arg.values[0].value).startswith(("enter_", "leave_"))
    if isinstance(arg, ast.BinOp) and isinstance(arg.op, ast.Add) and isinstance(arg.left, ast.Constant):
        return str(arg.left.value).startswith(("enter_", "leave_"))
    return False


def handler_lookup_owner(check: Check, repo: Repo, rule: str = "HANDLER-LOOKUP") -> None:
    check.rule(
        rule,
        "get_enter_leave_for_kind is the one overridable way to obtain a visitor's handlers (ParallelVisitor and "
        "user subclasses answer it without having enter_*/leave_* attributes): a name-based lookup "
        "getattr(<obj>, 'enter_<kind>' / 'leave_<kind>' / 'enter' / 'leave') is only ever applied to `self` - directly "
        "in a method, or in a helper whose object parameter receives `self` at every call site. Applied to another "
        "visitor (a member of ParallelVisitor.visitors, the visitor wrapped by TypeInfoVisitor) it bypasses that "
        "visitor's own get_enter_leave_for_kind: a nested ParallelVisitor is never called at all",
    )
    n = 0
    for mn in ("language.visitor", "utilities.type_info", "validation.validate"):
        mod = repo.mod(mn)
        for c in ast.walk(mod.tree):
            if not (isinstance(c, ast.Call) and call_name(c) == "getattr" and len(c.args) >= 2 and _handler_name_pattern(c.args[1])):
                continue
            n += 1
            subj = c.args[0]
            fn = enclosing_function(c)
            ok, why = False, f"applied to `{unparse(subj)}`"
            if isinstance(subj, ast.Name) and fn is not None and not isinstance(fn, ast.Lambda):
                params = [a.arg for a in fn.args.args]
                if subj.id == "self" and params[:1] == ["self"]:
                    ok, why = True, "applied to self"
                elif subj.id in params:
                    pos = params.index(subj.id)
                    calls = [k for k in ast.walk(mod.tree) if isinstance(k, ast.Call) and isinstance(k.func, ast.Name) and k.func.id == fn.name]
                    passed = []
                    for k in calls:
                        a = k.args[pos] if pos < len(k.args) else next((kw.value for kw in k.keywords if kw.arg == subj.id), None)
                        passed.append(unparse(a) if a is not None else "?")
                    ok = bool(calls) and all(p == "self" for p in passed)
                    why = (f"helper {fn.name}(): `{subj.id}` receives self at all {len(calls)} call sites" if ok else
                           f"helper {fn.name}(): `{subj.id}` receives {sorted(set(passed))} - another visitor's handlers are looked up by name, its get_enter_leave_for_kind is bypassed")
            check.ob(rule, c, f"{qualname_of(c)}: {unparse(c)[:60]}", ok, why)
    if n < 4:
        raise AnalysisError("HANDLER-LOOKUP: name-based handler lookups not found")
    # positive side: the composite visitors ask their members through the method
    for mn, q in (("language.visitor", "ParallelVisitor.get_enter_leave_for_kind"), ("utilities.type_info", "TypeInfoVisitor.enter"), ("utilities.type_info", "TypeInfoVisitor.leave"), ("language.visitor", "visit")):
        fn = repo.func(mn, q)
        asks = [c for c in walk_body(fn) if isinstance(c, ast.Call) and isinstance(c.func, ast.Attribute) and c.func.attr == "get_enter_leave_for_kind"
                and unparse(c.func.value) != "self" and not unparse(c.func.value).startswith("super")]
        check.ob(rule, fn, f"{q}: asks the visitor(s) it drives through get_enter_leave_for_kind", bool(asks),
                 f"{len(asks)} call(s): " + ", ".join(unparse(a)[:50] for a in asks) if asks else "no call of <visitor>.get_enter_leave_for_kind(...)")


def separator_table(check: Check, repo: Repo, rule: str = "SEPARATOR-TABLE") -> None:
    from sa.tables import EnumMember, Rec

    check.rule(
        rule,
        "strip_ignored_characters: the decision to put a space in front of a token and the flag carried to the next "
        "token, folded for every token kind the lexer can deliver x {previous token was a non-punctuator or not} (the "
        "loop body is evaluated with the token bound to an abstract record, nothing is lexed): a space is written "
        "exactly when the previous token is a non-punctuator (Name, Int, Float, String, BlockString - the spec's lexical "
        "tokens that are not Punctuators) and the current one is a non-punctuator or `...`; the flag becomes 'current is "
        "a non-punctuator'. Without the space `\\\"\\\" \\\"\\\"\\\"x\\\"\\\"\\\"` collapses into one block string and `1 ...` into an invalid number",
    )
    mod = repo.mod("utilities.strip_ignored_characters")
    fn = repo.func("utilities.strip_ignored_characters", "strip_ignored_characters")
    loops = [s for s in fn.body if isinstance(s, ast.While)]
    if len(loops) != 1:
        raise AnalysisError("strip_ignored_characters: token loop not found")
    body = loops[0].body
    def _writes_space(x: ast.AST) -> bool:
        if isinstance(x, ast.AugAssign) and isinstance(x.value, ast.Constant) and x.value.value == " ":
            return True
        return (isinstance(x, ast.Expr) and isinstance(x.value, ast.Call) and isinstance(x.value.func, ast.Attribute) and x.value.func.attr == "append"
                and len(x.value.args) == 1 and isinstance(x.value.args[0], ast.Constant) and x.value.args[0].value == " ")

    sep = next((s for s in body if isinstance(s, ast.If) and any(_writes_space(x) for x in s.body)), None)
    if sep is None:
        check.ob(rule, loops[0], "strip_ignored_characters: separator decision", False, "no `if ...: <out> += \" \"` in the token loop: tokens are glued together")
        return
    prefix = body[: body.index(sep)]
    later_assigned = {t.id: s for s in body[body.index(sep) + 1:] if isinstance(s, ast.Assign) for t in s.targets if isinstance(t, ast.Name)}
    flags = [n.id for n in ast.walk(sep.test) if isinstance(n, ast.Name) and n.id in later_assigned]
    for s in prefix:  # a flag may be read through a local computed in the prefix
        if isinstance(s, ast.Assign):
            flags += [n.id for n in ast.walk(s.value) if isinstance(n, ast.Name) and n.id in later_assigned]
    flags = sorted(set(flags))
    if len(flags) != 1:
        raise AnalysisError(f"strip_ignored_characters: carried flag not identified ({flags})")
    flag = flags[0]
    tk = repo.mod("language.token_kind")
    kinds = [t.id for c in tk.classes() if c.name == "TokenKind" for s in c.body if isinstance(s, ast.Assign) for t in s.targets if isinstance(t, ast.Name)]
    delivered = [k for k in kinds if k not in ("SOF", "EOF", "COMMENT")]
    if len(delivered) < 15:
        raise AnalysisError("TokenKind members not found")
    nonpunct = {"NAME", "INT", "FLOAT", "STRING", "BLOCK_STRING"}
    bad = []
    for k in delivered:
        for was in (False, True):
            tok = Rec(kind=EnumMember("TokenKind", k, None), start=0, end=1, value="", prev=None)
            ev = Evaluator(repo, mod, {"current_token": tok, "lexer": Rec(token=tok), flag: was, "body": "x", "stripped_body": ""})
            try:
                ev._exec_block(prefix)
                space = bool(ev.eval(sep.test))
                new_flag = bool(ev.eval(later_assigned[flag].value))
            except NotStatic as ex:
                raise AnalysisError(f"strip_ignored_characters: separator decision is no longer foldable: {ex}") from ex
            want_space = was and (k in nonpunct or k == "SPREAD")
            want_flag = k in nonpunct
            if space != want_space:
                bad.append(f"{k} after a {'non-' if was else ''}punctuator: space={space}, expected {want_space}")
            if new_flag != want_flag:
                bad.append(f"{k}: carried flag {new_flag}, expected {want_flag}")
    check.ob(rule, sep, f"strip_ignored_characters: {len(delivered)} token kinds x 2 flags", not bad,
             f"all {2 * len(delivered)} cells as specified" if not bad else "; ".join(bad[:4]))


def _facts_with_locals(facts) -> set[tuple[str, bool]]:
    """norm_facts plus every condition with its locals replaced by the expressions they are known to equal."""
    from sa.tables import clone

    facts = list(facts)
    eqs = {f.name: f.expr for f in facts if f.kind == "eq" and f.name}
    out = norm_facts(facts)

    class Sub(ast.NodeTransformer):
        def visit_Name(self, n):  # noqa: N802
            return clone(eqs[n.id]) if n.id in eqs and isinstance(n.ctx, ast.Load) else n

    from sa.guards import Fact

    for f in facts:
        if f.kind == "cond" and any(isinstance(x, ast.Name) and x.id in eqs for x in ast.walk(f.expr)):
            e = ast.fix_missing_locations(Sub().visit(clone(f.expr)))
            nf = _norm_fact(Fact("cond", e, f.pol))
            if nf:
                out.add(nf)
    return out


BLOCK_STEPS = {
    # step -> alternatives; each alternative is a set of (normalised fact text, polarity) that must all hold
    4: [{("body[position] == '\\\\'", True), ("body[position + 1:position + 4] == '\"\"\"'", True)}],
    2: [{("body[position] == '\\r'", True), ("body[position + 1:position + 2] == '\\n'", True)},
        {("is_supplementary_code_point(body, position)", True)}],
}


def block_string_steps(check: Check, repo: Repo, rule: str = "BLOCK-STEPS") -> None:
    check.rule(
        rule,
        "Lexer.read_block_string: every step of more than one character is one of the three multi-character units a "
        "block string has - the escaped triple quote \\\\\"\"\" (4, under the facts that the character is a backslash and the "
        "next three are quotes), CR LF (2) and a surrogate pair (2); the must-facts at the `position += k` statement "
        "(locals expanded) entail the unit. In particular a backslash escapes nothing else: stepping over `\\\\\\\\` as a "
        "pair makes `\\\\\\\\\"\"\"` end the string one character early",
    )
    fn = repo.func("language.lexer", "Lexer.read_block_string")
    cfg = CFG(fn)
    ff = FactFlow(cfg)
    steps = [s for s in walk_body(fn) if isinstance(s, ast.AugAssign) and isinstance(s.op, ast.Add) and unparse(s.target) == "position"
             and isinstance(s.value, ast.Constant) and isinstance(s.value.value, int)]
    if len(steps) < 4:
        raise AnalysisError("read_block_string: position steps not found")
    for s in steps:
        k = s.value.value
        if k <= 1:
            continue
        facts = _facts_with_locals(ff.facts_at(s))
        # `char` stands for body[position]
        facts |= {(t.replace("char ", "body[position] ", 1) if t.startswith("char ") else t, p) for t, p in facts}
        alts = BLOCK_STEPS.get(k, [])
        ok = any(alt <= facts for alt in alts)
        check.ob(rule, s, f"read_block_string: position += {k} at line {s.lineno}", ok,
                 "the facts here entail a unit of that length" if ok else
                 f"no {k}-character unit is established here (known: {sorted(t for t, p in facts if p and 'position' in t)[:4]})")


class _BoolFold:
    """Fold a straight-line block of boolean flag assignments over free atoms (every non-boolean sub-expression is
    an atom identified by its text; a few atoms are linked by the arithmetic they express)."""

    LINKS = {  # text -> (atom, polarity): different spellings of one fact about the same quantity
        "num_lines == 1": ("num_lines == 1", True), "num_lines > 1": ("num_lines == 1", False),
        "num_lines != 1": ("num_lines == 1", False), "num_lines >= 2": ("num_lines == 1", False),
        "len(lines) == 1": ("num_lines == 1", True), "len(lines) > 1": ("num_lines == 1", False),
        "len(value) > 70": ("len(value) > 70", True), "len(value) <= 70": ("len(value) > 70", False),
        "len(value) >= 71": ("len(value) > 70", True), "len(value) < 71": ("len(value) > 70", False),
    }

    def __init__(self) -> None:
        self.atoms: list[str] = []
        self.discover = False

    def atom(self, text: str, val: dict[str, bool]):
        a, pol = self.LINKS.get(text, (text, True))
        if text not in self.LINKS and text.endswith(" is not None"):
            a, pol = text[: -len(" is not None")] + " is None", False  # the two spellings of one presence test
        if a not in self.atoms:
            self.atoms.append(a)
        return val.get(a, False) == pol

    def ev(self, e: ast.AST, env: dict, val: dict[str, bool]):
        if isinstance(e, ast.Constant):
            return e.value
        if isinstance(e, ast.Name):
            return env[e.id] if e.id in env else self.atom(e.id, val)
        if isinstance(e, ast.UnaryOp) and isinstance(e.op, ast.Not):
            return not self.ev(e.operand, env, val)
        if isinstance(e, ast.BoolOp):
            r = None
            if self.discover:
                for v in e.values:
                    self.ev(v, env, val)
            for v in e.values:
                r = self.ev(v, env, val)
                if isinstance(e.op, ast.And) and not r:
                    return r
                if isinstance(e.op, ast.Or) and r:
                    return r
            return r
        if isinstance(e, ast.IfExp):
            if self.discover:
                self.ev(e.body, env, val), self.ev(e.orelse, env, val)
            return self.ev(e.body if self.ev(e.test, env, val) else e.orelse, env, val)
        if isinstance(e, ast.Compare) and len(e.ops) == 1 and isinstance(e.ops[0], (ast.Eq, ast.NotEq)) and (
                (isinstance(e.left, ast.Name) and isinstance(env.get(e.left.id), bool)) or isinstance(e.left, (ast.BoolOp, ast.Compare))) \
                and isinstance(e.comparators[0], (ast.Name, ast.BoolOp, ast.Compare, ast.UnaryOp)):
            a, b = bool(self.ev(e.left, env, val)), bool(self.ev(e.comparators[0], env, val))  # equality of two flags
            return (a == b) if isinstance(e.ops[0], ast.Eq) else (a != b)
        return self.atom(unparse(e), val)


def block_print_table(check: Check, repo: Repo, rule: str = "BLOCK-PRINT-TABLE") -> None:
    check.rule(
        rule,
        "print_block_string: the flag computation is folded over all valuations of its atomic facts (single line?, "
        "starts with blank?, longer than 70?, trailing quote/backslash?, minimize? ... - spellings of one arithmetic fact "
        "are linked, nothing is run) and three cells are required: (1) a single-line value that starts with a space or "
        "tab never gets a leading line break - the parser would take its leading blank for common indentation and strip "
        "it; (2) a forced leading line break is written; (3) a forced trailing line break is written; (4) when the value ends "
        "in a double quote that is not the end of an escaped triple quote (escaped text not ending in \\\"\"\"), and (5) when it "
        "ends in a backslash - however many -, a line break separates it from the closing delimiter: otherwise the delimiter "
        "is read one character early, or as an escape, and the printed text does not lex",
    )
    fn = repo.func("language.block_string", "print_block_string")
    names = {t.id for s in walk_body(fn) if isinstance(s, ast.Assign) for t in s.targets if isinstance(t, ast.Name)}
    if not {"before", "after"} <= names:
        raise AnalysisError("print_block_string: `before` / `after` not found")
    opaque = {"escaped_value", "lines", "num_lines", "value"}
    fold = _BoolFold()

    def block(stmts: list[ast.stmt], env: dict, val: dict[str, bool]) -> None:
        for s in stmts:
            if isinstance(s, ast.Assign) and len(s.targets) == 1 and isinstance(s.targets[0], ast.Name):
                if s.targets[0].id not in opaque:
                    env[s.targets[0].id] = fold.ev(s.value, env, val)
            elif isinstance(s, ast.If) and not any(isinstance(x, (ast.Return, ast.Raise)) for x in ast.walk(s)) \
                    and not any(isinstance(x, ast.Assign) and any(isinstance(t, ast.Name) and t.id in opaque for t in x.targets) for x in ast.walk(s)):
                if fold.discover:
                    fold.ev(s.test, env, val)
                    block(s.body, env, val)
                    block(s.orelse, env, val)
                block(s.body if fold.ev(s.test, env, val) else s.orelse, env, val)

    def run(val: dict[str, bool]) -> dict:
        env: dict = {}
        block(fn.body, env, val)
        return env

    fold.discover = True
    run({})  # discover the atoms
    fold.discover = False
    # the three facts about the end of the text that decide whether the closing delimiter can follow directly; they
    # are atoms of the table whether or not the code mentions them in this spelling
    END_QUOTE = unparse(ast.parse("value.endswith('\"')", mode="eval").body)
    END_ESCAPED_TRIPLE = unparse(ast.parse("escaped_value.endswith('\\\\\"\"\"')", mode="eval").body)
    END_BACKSLASH = unparse(ast.parse("value.endswith('\\\\')", mode="eval").body)
    for a in (END_QUOTE, END_ESCAPED_TRIPLE, END_BACKSLASH):
        if a not in fold.atoms:
            fold.atoms.append(a)
    atoms = list(fold.atoms)
    if len(atoms) > 14:
        raise AnalysisError(f"print_block_string: {len(atoms)} atoms - the flag computation is no longer a small table")
    bad = []
    import itertools as _it

    blank = [a for a in atoms if "value[0]" in a or "startswith" in a]
    for bits in _it.product((False, True), repeat=len(atoms)):
        val = dict(zip(atoms, bits))
        env = run(val)
        single = val.get("num_lines == 1", False)
        starts_blank = val.get("value", False) and all(val[a] for a in blank) and bool(blank)
        forced_lead = bool(env.get("force_leading_new_line"))
        if single and forced_lead:
            continue  # infeasible: the forced leading break needs a second line
        where = ", ".join(a for a in atoms if val[a]) or "nothing holds"
        if single and starts_blank and env["before"] != "":
            bad.append(f"(1) single line starting with a blank gets a leading line break when: {where}")
        if forced_lead and env["before"] != "\n":
            bad.append(f"(2) forced leading line break not written when: {where}")
        if env.get("force_trailing_new_line") and env["after"] != "\n":
            bad.append(f"(3) forced trailing line break not written when: {where}")
        if val[END_QUOTE] and not val[END_ESCAPED_TRIPLE] and env["after"] != "\n":
            bad.append(f"(4) the text ends in a quote that is not part of an escaped triple quote, yet the closing delimiter follows directly when: {where}")
        if val[END_BACKSLASH] and env["after"] != "\n":
            bad.append(f"(5) the text ends in a backslash, yet the closing delimiter follows directly (read back as the escape \\\"\"\") when: {where}")
    check.ob(rule, fn, f"print_block_string: {2 ** len(atoms)} valuations of {len(atoms)} atoms", not bad,
             f"atoms: {atoms}" if not bad else bad[0] + (f" (+{len(bad) - 1} more cells)" if len(bad) > 1 else ""))


def list_separators(check: Check, repo: Repo, rule: str = "LIST-SEPARATORS") -> None:
    check.rule(
        rule,
        "every `join(node.<field>, <separator>)` of the printer writes between the elements of a list field exactly what "
        "the parser needs there: for a field the parser reads with delimited_many(TokenKind.X, ...) (the interfaces of a "
        "type: &, union members and directive locations: |; field found by following `name = self.parse_...()` into the "
        "node constructor's keyword) the separator is that punctuator surrounded by ignored characters; for every other "
        "list field it consists of ignored characters only (blank, comma, line break). `implements A, B` is the pre-2018 "
        "syntax: the parser stops at B",
    )
    pm = repo.mod("language.parser")
    tk = repo.mod("language.token_kind")
    values = {t.id: s.value.value for c in tk.classes() if c.name == "TokenKind" for s in c.body
              if isinstance(s, ast.Assign) and isinstance(s.value, ast.Constant) for t in s.targets if isinstance(t, ast.Name)}
    delim_of_method: dict[str, str] = {}
    for f in pm.functions():
        for c in walk_body(f):
            if isinstance(c, ast.Call) and call_name(c).split(".")[-1] == "delimited_many" and c.args and isinstance(c.args[0], ast.Attribute):
                delim_of_method[f.name] = values.get(c.args[0].attr, "?")
    field_delim: dict[str, str] = {}
    for f in pm.functions():
        local: dict[str, str] = {}
        for s in walk_body(f):
            if isinstance(s, ast.Assign) and isinstance(s.value, ast.Call) and call_name(s.value).split(".")[-1] in delim_of_method:
                for t in s.targets:
                    if isinstance(t, ast.Name):
                        local[t.id] = delim_of_method[call_name(s.value).split(".")[-1]]
        for c in walk_body(f):
            if isinstance(c, ast.Call):
                for kw in c.keywords:
                    if kw.arg and isinstance(kw.value, ast.Name) and kw.value.id in local:
                        field_delim[kw.arg] = local[kw.value.id]
                    elif kw.arg and isinstance(kw.value, ast.Call) and call_name(kw.value).split(".")[-1] in delim_of_method:
                        field_delim[kw.arg] = delim_of_method[call_name(kw.value).split(".")[-1]]
    if len(field_delim) < 3:
        raise AnalysisError(f"LIST-SEPARATORS: delimited list fields of the parser not found ({field_delim})")
    pr = repo.mod("language.printer")
    n = 0
    for c in ast.walk(pr.tree):
        if not (isinstance(c, ast.Call) and call_name(c) == "join" and len(c.args) == 2 and isinstance(c.args[0], ast.Attribute)
                and isinstance(c.args[0].value, ast.Name) and c.args[0].value.id == "node" and isinstance(c.args[1], ast.Constant)):
            continue
        field, sep = c.args[0].attr, str(c.args[1].value)
        core = "".join(ch for ch in sep if ch not in " ,\n\t")
        want = field_delim.get(field, "")
        n += 1
        check.ob(rule, c, f"{qualname_of(c)}: join(node.{field}, {sep!r})", core == want,
                 (f"parser delimiter {want!r}" if want else "ignored characters only") if core == want else
                 (f"the parser reads `{field}` with delimiter {want!r}, the printer writes {sep!r}" if want else f"{sep!r} contains the token(s) {core!r} the parser does not expect between `{field}`"))
    check.floor(rule, 30, "join(node.<field>, <constant>) sites of the printer")


_UNICODE_STR_PREDICATES = {"isalpha", "isalnum", "isdigit", "isdecimal", "isnumeric", "isspace", "isidentifier", "isupper", "islower", "istitle"}


def lexer_ascii_classes(check: Check, repo: Repo, rule: str = "LEXER-ASCII") -> None:
    import re._parser as sre_parse  # the stdlib's own regex parser: patterns are inspected as syntax trees, never run

    check.rule(
        rule,
        "the lexical grammar is ASCII: letters are A-Z a-z, digits 0-9, and everything outside is either inside a "
        "string/comment or a syntax error. In the lexer modules (lexer, character_classes, block_string, "
        "strip_ignored_characters) no character class that Python widens to Unicode is used: no regular expression "
        "contains \\\\w \\\\d \\\\s \\\\b (or their complements) unless compiled with re.ASCII, and no str.isalpha / isalnum / "
        "isdigit / isspace / isidentifier ... is called. `\\\\w*` for NameContinue swallows 'é', '٣', '²' into a Name: "
        "`{ café }` lexes although `caf é` does not",
    )
    n = 0
    for mn in ("language.lexer", "language.character_classes", "language.block_string", "utilities.strip_ignored_characters"):
        mod = repo.mod(mn)
        for c in ast.walk(mod.tree):
            if isinstance(c, ast.Call) and isinstance(c.func, ast.Attribute) and c.func.attr in _UNICODE_STR_PREDICATES and not c.args:
                n += 1
                fn_ = enclosing_function(c)
                recv = unparse(c.func.value)
                narrowed = False
                if fn_ is not None and not isinstance(fn_, ast.Lambda):
                    narrowed = (f"{recv}.isascii()", True) in norm_facts(FactFlow(CFG(fn_)).facts_at(c))
                check.ob(rule, c, f"{qualname_of(c)}: {unparse(c)[:50]}", narrowed,
                         f"only under `{recv}.isascii()`" if narrowed else f"str.{c.func.attr}() is Unicode-aware: it accepts characters the grammar does not")
            if isinstance(c, ast.Call) and unparse(c.func) in ("re.compile", "compile", "re.match", "re.fullmatch", "re.search", "re.sub", "re.split", "re.findall") and c.args:
                try:
                    text = Evaluator(repo, mod).eval(c.args[0])
                except NotStatic:
                    continue
                if not isinstance(text, str):
                    continue
                n += 1
                ascii_flag = any("ASCII" in unparse(a) or unparse(a) in ("re.A",) for a in list(c.args[1:]) + [k.value for k in c.keywords]) or text.startswith("(?a")
                cats = []

                def walk(p) -> None:
                    for op, av in p:
                        name = str(op)
                        if name == "IN":
                            for o2, a2 in av:
                                if str(o2) == "CATEGORY":
                                    cats.append(str(a2))
                        elif name == "CATEGORY":
                            cats.append(str(av))
                        elif name == "AT" and "BOUNDARY" in str(av):
                            cats.append(str(av))
                        elif name in ("MAX_REPEAT", "MIN_REPEAT", "POSSESSIVE_REPEAT"):
                            walk(av[2])
                        elif name == "SUBPATTERN":
                            walk(av[3])
                        elif name == "BRANCH":
                            for alt in av[1]:
                                walk(alt)
                        elif name in ("ASSERT", "ASSERT_NOT"):
                            walk(av[1])
                        elif name == "ATOMIC_GROUP":
                            walk(av)

                try:
                    walk(sre_parse.parse(text))
                except Exception as ex:  # noqa: BLE001
                    raise AnalysisError(f"{mn}: pattern {text!r} cannot be parsed: {ex}") from ex
                ok = ascii_flag or not cats
                check.ob(rule, c, f"{qualname_of(c) or mn}: pattern {text!r}", ok,
                         "no Unicode-dependent class" if not cats else (f"{sorted(set(cats))} under re.ASCII" if ascii_flag else
                         f"uses {sorted(set(cats))} without re.ASCII: matches non-ASCII letters/digits/blanks"))
    if n == 0:
        raise AnalysisError("LEXER-ASCII: no pattern found in the lexer modules (block_string's line splitter expected)")


TEXT_LEAVES = ("name", "int_value", "float_value", "enum_value")


def leaf_text_verbatim(check: Check, repo: Repo, rule: str = "LEAF-VERBATIM") -> None:
    check.rule(
        rule,
        "the nodes whose `value` is the token's own text (Name, IntValue, FloatValue, EnumValue) are printed by "
        "returning that text as it is: leave_name / leave_int_value / leave_float_value / leave_enum_value return "
        "`node.value` itself (through a local at most), with no conversion applied. The lexer keeps the spelling of a "
        "number (`-0`, `1e5`, `1E+5`), so re-spelling it on print - str(int(value)) turns `-0` into `0` - yields a tree "
        "that differs from the one parsed, and int() refuses numerals of more than 4300 digits that parse fine",
    )
    pcls = repo.cls("language.printer", "PrintAstVisitor")
    methods = {s.name: s for s in pcls.body if isinstance(s, ast.FunctionDef)}
    for kind in TEXT_LEAVES:
        m = methods.get(f"leave_{kind}")
        if m is None:
            raise AnalysisError(f"PrintAstVisitor.leave_{kind} not found")
        p = m.args.args[0].arg
        for r in [x for x in walk_body(m) if isinstance(x, ast.Return)]:
            v = r.value
            if isinstance(v, ast.Name):
                defs = [s.value for s in walk_body(m) if isinstance(s, ast.Assign) and any(isinstance(t, ast.Name) and t.id == v.id for t in s.targets)]
                if len(defs) == 1:
                    v = defs[0]
            ok = v is not None and unparse(v) == f"{p}.value"
            check.ob(rule, r, f"leave_{kind}: return {unparse(r.value)[:40] if r.value is not None else None}", ok,
                     "the token text itself" if ok else f"the text is rewritten (`{unparse(v)[:50] if v is not None else None}`): the printed numeral / name is not the one that was parsed")


def pattern_facts(node: ast.AST) -> set[tuple[str, bool]]:
    """`isinstance(<subject>, <Class>)` facts that hold at `node` because it sits in a `case <Class>():` arm of a
    `match <subject>:` statement (the pattern spelling of an isinstance chain)."""
    out: set[tuple[str, bool]] = set()
    child: ast.AST = node
    for a in ancestors(node):
        if isinstance(a, (*FuncDef, ast.Lambda)):
            break
        if isinstance(a, ast.match_case) and isinstance(parent(a), ast.Match):
            subj = unparse(parent(a).subject)
            pats = a.pattern.patterns if isinstance(a.pattern, ast.MatchOr) else [a.pattern]
            classes = [unparse(p_.cls) for p_ in pats if isinstance(p_, ast.MatchClass) and not p_.patterns and not p_.kwd_patterns]
            if len(classes) == len(pats) == 1:
                out.add((f"isinstance({subj}, {classes[0]})", True))
            elif classes and len(classes) == len(pats):
                out.add((f"isinstance({subj}, ({', '.join(classes)}))", True))
        child = a
    return out


def enclosing_conditions(node: ast.AST) -> set[tuple[str, bool]]:
    """The tests of the `if` statements that enclose `node` inside its loop / function, split into atoms where they are
    conjunctions (disjunctions under negation) and kept whole otherwise - conditions that leave no must-fact behind."""
    from sa.guards import split_cond

    out: set[tuple[str, bool]] = set()
    child: ast.AST = node
    for a in ancestors(node):
        if isinstance(a, (ast.While, ast.For, ast.AsyncFor, *FuncDef)):
            break
        if isinstance(a, ast.If):
            in_body = any(child is s_ or any(child is y for y in ast.walk(s_)) for s_ in a.body)
            for f_ in split_cond(a.test, in_body):
                nf = _norm_fact(f_)
                out.add(nf if nf else (unparse(f_.expr), f_.pol))
        child = a
    return out


APPEND_ALLOWED = {
    # edit value -> the only conditions (normal form) the recording of that edit may depend on
    "result": {("result is None", False), ("result is SKIP", False), ("result is False", False), ("result is BREAK", False),
               ("result is True", False), ("isinstance(node, tuple)", False), ("isinstance(node, Node)", True), ("visit_fn", True)},
    "node": {("result is None", True), ("is_edited", True)},
}
_APPEND_IRRELEVANT = ("isinstance(visitor, Visitor)", "isinstance(root, Node)", "True", "False")


def append_conditions(check: Check, repo: Repo, rule: str = "APPEND-CONDITIONS") -> None:
    check.rule(
        rule,
        "visit() records an edit whenever there is one to record - RESULT-FILTER says the conditions at the two "
        "`edits.append` sites are strong enough, this rule says they are no stronger: the visitor's result is recorded "
        "under nothing but 'it is none of None / SKIP / False / BREAK / True', and a node rebuilt from edited children is "
        "passed upwards under nothing but `result is None and is_edited`. Any further condition (the result is not the "
        "node itself; no edit with this key was recorded yet) silently drops an edit: the children's edits of a node whose "
        "leave handler returned it, or the edits made inside a node that was replaced on enter",
    )
    fn = repo.func("language.visitor", "visit")
    flow = FactFlow(CFG(fn))
    sites = [c for c in walk_body(fn) if isinstance(c, ast.Call) and unparse(c.func) == "edits.append" and c.args and isinstance(c.args[0], ast.Tuple) and len(c.args[0].elts) == 2]
    if len(sites) < 2:
        check.ob(rule, fn, "visit(): the two edit recording sites", True, f"{len(sites)} direct site(s); the rest is behind a helper", nontrivial=False)
    for c in sites:
        what = unparse(c.args[0].elts[1])
        allowed = APPEND_ALLOWED.get(what)
        if allowed is None:
            check.ob(rule, c, f"visit(): {unparse(c)[:50]}", False, f"an edit value `{what}` that is neither the visitor's result nor the rebuilt node")
            continue
        facts = {(t, p) for t, p in norm_facts(flow.facts_at(c)) if t not in _APPEND_IRRELEVANT}
        # conditions that are not conjunctions of atoms (`a or b`) leave no must-fact behind: take the tests of the
        # enclosing ifs as they stand
        from sa.guards import split_cond

        child: ast.AST = c
        for a in ancestors(c):
            if isinstance(a, (ast.While, ast.For, *FuncDef)):
                break
            if isinstance(a, ast.If):
                in_body = any(child is s_ or any(child is y for y in ast.walk(s_)) for s_ in a.body)
                for f_ in split_cond(a.test, in_body):
                    nf = _norm_fact(f_)
                    if nf and nf[0] not in _APPEND_IRRELEVANT:
                        facts.add(nf)
                    elif nf is None:
                        facts.add((unparse(f_.expr), f_.pol))
            child = a
        extra = sorted(facts - allowed)
        check.ob(rule, c, f"visit(): {unparse(c)[:50]}", not extra,
                 f"recorded under {sorted(t if p else 'not ' + t for t, p in facts)}" if not extra else
                 f"additionally requires {[t if p else 'not (' + t + ')' for t, p in extra]}: an edit is dropped whenever that fails")


def root_exit_tests(check: Check, repo: Repo, rule: str = "ROOT-EXIT") -> None:
    check.rule(
        rule,
        "visit() leaves its loop early in two situations only: the visitor asked for BREAK, or the *root* itself was "
        "skipped / removed on enter - and 'root' means that the traversal stack is empty (`not stack`). Every `break` of "
        "the main loop is under a fact about the BREAK sentinel or under `not stack`. `ancestors` is empty for the direct "
        "children of a non-document root as well: testing it ends the whole traversal when such a child is skipped, and "
        "returns REMOVE instead of the edited root when one is removed",
    )
    fn = repo.func("language.visitor", "visit")
    loops = [s for s in fn.body if isinstance(s, ast.While)]
    if len(loops) != 1:
        raise AnalysisError("visit(): main loop not found")
    flow = FactFlow(CFG(fn))
    breaks = [b for b in ast.walk(loops[0]) if isinstance(b, ast.Break) and not any(isinstance(a, (ast.For, ast.While)) and a is not loops[0] for a in ancestors(b))]
    if len(breaks) < 3:
        raise AnalysisError("visit(): early exits not found")
    for b in breaks:
        facts = norm_facts(flow.facts_at(b))
        # why this break is taken: the test of the innermost enclosing `if`
        inner = next((a for a in ancestors(b) if isinstance(a, ast.If)), None)
        t = unparse(inner.test) if inner is not None else ""
        ok = ("stack", False) in facts or "BREAK" in t or t == "result is True"
        check.ob(rule, b, f"visit(): break under `{t[:50]}`", ok,
                 "the BREAK sentinel" if "BREAK" in t else ("the traversal stack is empty: the node is the root" if ok else
                 f"`{t}` is not the test for the root (the stack), it also holds for the root's direct children"))


def parallel_drives_given(check: Check, repo: Repo, rule: str = "PARALLEL-MEMBERS") -> None:
    check.rule(
        rule,
        "ParallelVisitor drives exactly the visitors it was given, each once: __init__ stores its `visitors` argument "
        "itself (or a list()/tuple() copy of it) as self.visitors, and the per-visitor state `self.skipping` has one slot "
        "per member of that same collection. Any re-packing of the members (flattening nested groups, filtering) changes "
        "how often a visitor is called per node - a nested ParallelVisitor kept next to its flattened members has them "
        "called twice, each copy with its own skip / break state",
    )
    init = repo.func("language.visitor", "ParallelVisitor.__init__")
    p = init.args.args[1].arg
    stores = {unparse(t): s.value for s in walk_body(init) if isinstance(s, (ast.Assign, ast.AnnAssign)) and s.value is not None
              for t in (s.targets if isinstance(s, ast.Assign) else [s.target]) if unparse(t) in ("self.visitors", "self.skipping")}
    v = stores.get("self.visitors")
    ok = v is not None and (unparse(v) == p or (isinstance(v, ast.Call) and call_name(v) in ("list", "tuple") and [unparse(a) for a in v.args] == [p]))
    check.ob(rule, v if v is not None else init, f"ParallelVisitor.__init__: self.visitors = {unparse(v) if v is not None else '?'}", ok,
             "the collection that was passed in" if ok else f"not the `{p}` argument itself: the members are re-packed")
    sk = stores.get("self.skipping")
    ok2 = sk is not None and any(isinstance(c, ast.Call) and call_name(c) == "len" and c.args and unparse(c.args[0]) in (p, "self.visitors") for c in ast.walk(sk))
    check.ob(rule, sk if sk is not None else init, f"ParallelVisitor.__init__: self.skipping = {unparse(sk)[:40] if sk is not None else '?'}", ok2,
             "one slot per given visitor" if ok2 else "not sized by the given visitors")


def block_string_charset(check: Check, repo: Repo, rule: str = "BLOCK-CHARSET") -> None:
    check.rule(
        rule,
        "inside a block string every SourceCharacter - every Unicode scalar value, control characters included - is "
        "content: the test under which Lexer.read_block_string steps over one ordinary character (`position += 1`), "
        "folded for each code point below U+0080 and the borders of the surrogate gap, is true for all of them (quotes, "
        "backslash and line terminators are dealt with earlier). The printer relies on it: is_printable_as_block_string "
        "only refuses U+0000-U+000F, so a description containing ESC (U+001B) is printed raw inside triple quotes - a lexer "
        "that rejects C0 controls there cannot read the schema back",
    )
    mod = repo.mod("language.lexer")
    fn = repo.func("language.lexer", "Lexer.read_block_string")
    steps = [i for i in walk_body(fn) if isinstance(i, ast.If) and any(isinstance(s, ast.AugAssign) and unparse(s.target) == "position"
             and isinstance(s.value, ast.Constant) and s.value.value == 1 for s in i.body) and "char" in unparse(i.test) and "\\r" not in unparse(i.test)]
    if len(steps) != 1:
        raise AnalysisError("read_block_string: the single-character step was not found")
    from sa.tables import inline_locals

    test = inline_locals(steps[0].test, fn, keep={"char"})
    probes = [chr(c) for c in range(0x80) if chr(c) not in '"\\\r\n'] + ["\x80", "\xff", "퟿", "", "￿"]
    bad = []
    for ch in probes:
        try:
            ok = bool(Evaluator(repo, mod, {"char": ch}).eval(test))
        except NotStatic as ex:
            raise AnalysisError(f"read_block_string: character test is not foldable: {ex}") from ex
        if not ok:
            bad.append(f"U+{ord(ch):04X}")
    check.ob(rule, steps[0], f"read_block_string: `{unparse(steps[0].test)[:60]}` over {len(probes)} code points", not bad,
             "accepts every scalar value probed" if not bad else f"rejects {bad[:8]}{' ...' if len(bad) > 8 else ''} inside a block string")


def skip_slot_truthy(check: Check, repo: Repo, rule: str = "SKIP-SLOT") -> None:
    check.rule(
        rule,
        "ParallelVisitor keeps one slot per visitor in `skipping` and asks `not skipping[i]` to decide whether the visitor "
        "is still to be called. While that test is a truthiness test, every value stored into a slot to mean 'skipping' "
        "must be truthy for every node: the node object itself (no AST class defines __bool__ or __len__), the BREAK "
        "sentinel, or a literal that is true. A stored number or container (a depth, a path) is falsy for the root "
        "(depth 0, empty path): the visitor that skipped the root keeps being called for the whole tree",
    )
    fn = repo.func("language.visitor", "ParallelVisitor.get_enter_leave_for_kind")
    truth_tests = []
    for n in ast.walk(fn):
        t = None
        if isinstance(n, ast.UnaryOp) and isinstance(n.op, ast.Not):
            t = n.operand
        elif isinstance(n, (ast.If, ast.While, ast.IfExp)):
            t = n.test
        if t is None:
            continue
        for part in (t.values if isinstance(t, ast.BoolOp) else [t]):
            if isinstance(part, ast.UnaryOp) and isinstance(part.op, ast.Not):
                part = part.operand
            if isinstance(part, ast.Subscript) and unparse(part.value).endswith("skipping"):
                truth_tests.append(part)
    stores = [s for s in ast.walk(fn) if isinstance(s, ast.Assign) and any(isinstance(t, ast.Subscript) and unparse(t.value).endswith("skipping") for t in s.targets)]
    if not stores:
        raise AnalysisError("ParallelVisitor: stores into the skipping slots not found")
    # AST node objects are truthy: no __bool__ / __len__ anywhere in language.ast
    falsy_defs = [f.name for f in ast.walk(repo.mod("language.ast").tree) if isinstance(f, ast.FunctionDef) and f.name in ("__bool__", "__len__")]
    for s in stores:
        v = s.value
        closure = enclosing_function(s)
        first = closure.args.args[0].arg if closure is not None and closure.args.args else None
        if isinstance(v, ast.Constant) and v.value is None:
            continue  # the reset
        if isinstance(v, ast.Name) and closure is not None and v.id != first:
            # a local that is nothing but another name for the node parameter
            defs_ = [a for a in ast.walk(closure) if isinstance(a, ast.Assign) and any(isinstance(t, ast.Name) and t.id == v.id for t in a.targets)]
            if len(defs_) == 1 and isinstance(defs_[0].value, ast.Name) and defs_[0].value.id == first:
                v = defs_[0].value
        truthy = (isinstance(v, ast.Name) and v.id == first and not falsy_defs) or (isinstance(v, ast.Name) and v.id == "BREAK") \
            or (isinstance(v, ast.Constant) and bool(v.value))
        ok = truthy or not truth_tests
        check.ob(rule, s, f"ParallelVisitor.{closure.name if closure is not None else '?'}: `{unparse(s)}`", ok,
                 "the stored marker is truthy for every node" if truthy else ("the slots are not tested by truthiness" if ok else
                 f"`{unparse(v)}` can be falsy (0, empty) while the slot is tested with `not skipping[i]`: a visitor that skips "
                 "such a node is treated as not skipping"))
    check.floor(rule, 3, "stores into the per-visitor skipping slots")
