"""C12 / C13: validation determinism, TypeInfo balance, rule-set integrity."""

from __future__ import annotations

import ast
from collections import Counter

from rules.astmodel import AstModel
from sa.cfg import CFG, no_exc
from sa.effects import Origins, is_fresh_expr, write_sites
from sa.loader import (
    ancestors,
    AnalysisError, FuncDef, Module, Repo, call_name, enclosing_function, last_attr, module_of,
    parent, qualname_of, unparse, walk_body,
)  # fmt: skip
from sa.report import Check, node_text
from sa.resolve import ClassIndex
from sa.tables import Evaluator, NotStatic


# -- CACHE-ALIAS ------------------------------------------------------------------


def cache_accessors(mods: list[Module]) -> dict[str, ast.AST]:
    """Methods that return a value they stored in (or read from) a `self.<attr>` cache."""
    out: dict[str, ast.AST] = {}
    for mod in mods:
        for fn in mod.functions():
            stored: set[str] = set()
            for n in walk_body(fn):
                if isinstance(n, ast.Assign) and isinstance(n.value, ast.Name):
                    for t in n.targets:
                        base = t.value if isinstance(t, ast.Subscript) else t
                        if isinstance(base, ast.Attribute) and isinstance(base.value, ast.Name) and base.value.id == "self":
                            stored.add(n.value.id)
            if not stored:
                continue
            for n in walk_body(fn):
                if isinstance(n, ast.Return) and isinstance(n.value, ast.Name) and n.value.id in stored:
                    out[fn.name] = fn  # type: ignore[attr-defined]
    return out


def cache_alias(check: Check, repo: Repo, scan: list[Module], accessor_mods: list[Module], rule: str = "CACHE-ALIAS") -> int:
    check.rule(
        rule,
        "a reference returned by a cache accessor (a method returning the value it stored in a "
        "self.<attr> memo) is never mutated by its receivers: every mutating call / item store on a "
        "local whose reaching definition is such a call is a violation unless copied first",
    )
    accessors = cache_accessors(accessor_mods)
    if len(accessors) < 3:
        raise AnalysisError(f"cache accessors not recognised: {sorted(accessors)}")
    check.note(cache_accessors=sorted(accessors))
    n_sites = 0
    for mod in scan:
        for fn in mod.functions():
            if isinstance(parent(fn), (*FuncDef, ast.Lambda)):
                continue
            sites = [w for w in write_sites(fn) if w.kind in ("mutator", "item-store", "del") and isinstance(w.target, ast.Name)]
            if not sites:
                continue
            # aliases of accessors: f = self.accessor / f = context.accessor
            alias = {}
            for a in ast.walk(fn):
                if isinstance(a, ast.Assign) and len(a.targets) == 1 and isinstance(a.targets[0], ast.Name) \
                        and isinstance(a.value, ast.Attribute) and a.value.attr in accessors:
                    alias[a.targets[0].id] = a.value.attr
            for w in sites:
                inner = enclosing_function(w.node) or fn
                defs = Origins(inner).reaching(w.target.id, w.node)
                hit = None
                for d in defs:
                    v = d.value
                    if d.kind in ("assign", "walrus") and isinstance(v, ast.Call):
                        name = last_attr(v)
                        if (isinstance(v.func, ast.Attribute) and name in accessors) or (
                            isinstance(v.func, ast.Name) and v.func.id in alias
                        ):
                            if fn.name != (alias.get(name, name)):  # type: ignore[attr-defined]
                                hit = (d, alias.get(name, name))
                    elif v is not None and d.kind in ("assign", "unpack", "for"):
                        # taken out of a local container (`name, pending = stack[-1]`, `for x in frames`) that
                        # was filled with an accessor result: the element is still the cached object
                        for root in {x.id for x in ast.walk(v) if isinstance(x, ast.Name)}:
                            acc = _container_holds_accessor(inner, root, accessors, alias)
                            if acc and fn.name != acc:  # type: ignore[attr-defined]
                                hit = (d, acc)
                n_sites += 1
                if hit:
                    d, acc = hit
                    check.ob(rule, w.node, f"{w.chain}.{w.detail}(...) :: {node_text(w.node, 70)}", False,
                             f"`{w.chain}` is the list cached by {acc}() (assigned at line {d.node.lineno}); mutating it "
                             f"changes what every later caller of {acc}() sees")
                else:
                    check.ob(rule, w.node, f"{w.chain}.{w.detail}(...) in {qualname_of(w.node)}", True,
                             "no reaching definition is a cache-accessor result", nontrivial=bool(defs))
    return n_sites


def _container_holds_accessor(fn: ast.AST, name: str, accessors: dict[str, ast.AST], alias: dict[str, str]) -> str | None:
    def accessor_in(e: ast.AST) -> str | None:
        for c in ast.walk(e):
            if isinstance(c, ast.Call):
                if isinstance(c.func, ast.Attribute) and c.func.attr in accessors:
                    return c.func.attr
                if isinstance(c.func, ast.Name) and c.func.id in alias:
                    return alias[c.func.id]
        return None

    for n in ast.walk(fn):
        if isinstance(n, ast.Assign) and any(isinstance(t, ast.Name) and t.id == name for t in n.targets) \
                and isinstance(n.value, (ast.List, ast.Tuple, ast.Dict, ast.Set)):
            acc = accessor_in(n.value)
            if acc:
                return acc
        if isinstance(n, ast.Call) and isinstance(n.func, ast.Attribute) and n.func.attr in ("append", "extend", "insert", "appendleft") \
                and isinstance(n.func.value, ast.Name) and n.func.value.id == name:
            for a in n.args:
                acc = accessor_in(a)
                if acc:
                    return acc
    return None


# -- TYPEINFO-BALANCE --------------------------------------------------------------


def _paths(cfg: CFG, limit: int = 4000) -> list[list]:
    out: list[list] = []
    stack = [(cfg.entry, [cfg.entry])]
    while stack:
        n, path = stack.pop()
        if n is cfg.exit:
            out.append(path)
            if len(out) > limit:
                raise AnalysisError("too many paths")
            continue
        for m, label in cfg.succ.get(n, []):
            if label and label[0] in ("exc", "excprop"):
                continue
            if m in path:
                raise AnalysisError("TypeInfo enter/leave method has a loop")
            stack.append((m, path + [m]))
    return out


def _stack_ops(node: ast.AST) -> tuple[Counter, Counter, set[str], set[str]]:
    """(pushes, pops, slot assigns non-None, slot resets) performed by one simple statement."""
    push, pop, sets, resets = Counter(), Counter(), set(), set()
    for n in ast.walk(node):
        if isinstance(n, ast.Call) and isinstance(n.func, ast.Attribute) and n.func.attr == "append":
            r = n.func.value
            if isinstance(r, ast.Attribute) and isinstance(r.value, ast.Name) and r.value.id == "self":
                push[r.attr] += 1
        if isinstance(n, ast.Call) and isinstance(n.func, ast.Attribute) and n.func.attr == "pop":
            r = n.func.value
            if isinstance(r, ast.Attribute) and isinstance(r.value, ast.Name) and r.value.id == "self":
                pop[r.attr] += 1
        if isinstance(n, ast.Delete):
            for t in n.targets:
                if isinstance(t, ast.Subscript) and isinstance(t.value, ast.Attribute) and unparse(t.value.value) == "self":
                    if unparse(t.slice) in ("-1:", "-1"):
                        pop[t.value.attr] += 1
        if isinstance(n, ast.Assign):
            for t in n.targets:
                if isinstance(t, ast.Attribute) and isinstance(t.value, ast.Name) and t.value.id == "self":
                    v = n.value
                    is_reset = (isinstance(v, ast.Constant) and v.value is None) or isinstance(v, ast.Lambda)
                    (resets if is_reset else sets).add(t.attr)
    return push, pop, sets, resets


def typeinfo_balance(check: Check, repo: Repo, classes: ClassIndex) -> None:
    rule = "TYPEINFO-BALANCE"
    check.rule(
        rule,
        "for every kind k, on every path through TypeInfo.enter_k the multiset of stacks pushed "
        "equals the multiset popped by leave_k (class-level aliases resolved), and every scalar slot "
        "set by enter_k is reset by leave_k; TypeInfoVisitor.enter calls type_info.enter before the "
        "delegate and, on a non-None result, leave (then enter(result) for node results); "
        "TypeInfoVisitor.leave calls the delegate before type_info.leave on every path",
    )
    ci = classes.get("utilities.type_info", "TypeInfo")
    methods = ci.methods()
    aliases = ci.aliases()
    names = set(methods) | set(aliases)
    kinds = sorted({n[6:] for n in names if n.startswith("enter_")} | {n[6:] for n in names if n.startswith("leave_")})

    def resolve(name: str) -> ast.AST | None:
        seen = set()
        while name in aliases and name not in seen:
            seen.add(name)
            name = aliases[name]
        return methods.get(name)

    def summary(fn: ast.AST) -> tuple[set[tuple], set[tuple], set[str], set[str], int]:
        cfg = CFG(fn)
        pushes, pops = set(), set()
        sets_all: set[str] = set()
        resets_all: set[str] = set()
        paths = _paths(cfg)
        for path in paths:
            pu, po = Counter(), Counter()
            for n in path:
                if n.ast is not None and n.kind in ("stmt", "return"):
                    a, b, s, r = _stack_ops(n.ast)
                    pu += a
                    po += b
                    sets_all |= s
                    resets_all |= r
            pushes.add(tuple(sorted(pu.items())))
            pops.add(tuple(sorted(po.items())))
        return pushes, pops, sets_all, resets_all, len(paths)

    n_kinds = 0
    for k in kinds:
        en, lv = resolve(f"enter_{k}"), resolve(f"leave_{k}")
        anchor = en or lv
        if en is None or lv is None:
            # one-sided handler: must not touch any stack or slot
            fn = en or lv
            pushes, pops, s, r, _ = summary(fn)  # type: ignore[arg-type]
            ok = pushes == {()} and pops == {()} and not s
            check.ob(rule, anchor, f"kind {k}: only {'enter' if en else 'leave'} handler", ok,
                     "touches no stack" if ok else f"pushes {pushes} pops {pops} sets {s} without a counterpart")
            continue
        n_kinds += 1
        e_push, e_pop, e_sets, _e_resets, np = summary(en)
        l_push, l_pop, l_sets, l_resets, nl = summary(lv)
        ok = len(e_push) == 1 and len(l_pop) == 1 and e_push == l_pop and e_pop == {()} and l_push == {()}
        check.ob(rule, en, f"kind {k}: pushes of enter_{k} == pops of leave_{k}", ok,
                 f"{np} enter path(s) push {sorted(e_push)}; {nl} leave path(s) pop {sorted(l_pop)}")
        slots = {s for s in e_sets if not s.endswith("_stack")}
        missing = slots - l_resets - l_sets
        check.ob(rule, lv, f"kind {k}: slots {sorted(slots)} reset on leave", not missing,
                 "all reset" if not missing else f"slot(s) {sorted(missing)} set by enter_{k} are never reset by leave_{k}",
                 nontrivial=bool(slots))
    check.floor(rule, 20, "TypeInfo kinds (two obligations each)")
    # dispatch by kind name
    for nm in ("enter", "leave"):
        fn = methods.get(nm)
        ok = fn is not None and any(
            isinstance(n, ast.Call) and call_name(n) == "getattr" and len(n.args) >= 2
            and unparse(n.args[1]) == f"'{nm}_' + node.kind" for n in walk_body(fn)
        )
        check.ob(rule, fn or ci.node, f"TypeInfo.{nm} dispatches on '{nm}_' + node.kind", ok, "")
    # TypeInfoVisitor ordering
    tv = classes.get("utilities.type_info", "TypeInfoVisitor").methods()
    en = tv.get("enter")
    lv = tv.get("leave")
    if en is None or lv is None:
        raise AnalysisError("TypeInfoVisitor.enter/leave missing")
    cfg = CFG(en)
    is_call = lambda txt: (lambda n: n.ast is not None and n.kind in ("stmt", "return", "test") and any(  # noqa: E731
        isinstance(c, ast.Call) and unparse(c.func) == txt for c in ast.walk(n.ast)))
    ti_enter = is_call("self.type_info.enter")
    delegate = is_call("fn")
    # delegate dominated by type_info.enter(node)
    bad = cfg.find_path(cfg.entry, delegate, follow=no_exc, avoid=ti_enter)
    check.ob(rule, en, "TypeInfoVisitor.enter: type_info.enter(node) precedes the delegate", bad is None,
             "every path to the delegate call passes type_info.enter" if bad is None else cfg.describe_path(bad))
    # non-None result => leave(node)
    ti_leave = is_call("self.type_info.leave")
    leave_nodes = [n for n in cfg.nodes if ti_leave(n)]
    ok = False
    for n in leave_nodes:
        p = parent(n.ast)
        if isinstance(p, ast.If) and unparse(p.test) == "result is not None":
            ok = True
            inner = [s for s in p.body if isinstance(s, ast.If)]
            ok = ok and any("isinstance(result, Node)" in unparse(i.test) and
                            any("self.type_info.enter(result)" in unparse(s) for s in i.body) for i in inner)
    check.ob(rule, en, "TypeInfoVisitor.enter: edited/skipped node is left (and a replacement entered)", ok, "")
    cfg = CFG(lv)
    ti_leave2 = is_call("self.type_info.leave")
    bad = cfg.find_path(cfg.entry, lambda n: n is cfg.exit, follow=no_exc, avoid=ti_leave2)
    check.ob(rule, lv, "TypeInfoVisitor.leave: type_info.leave(node) on every path", bad is None,
             "must-pass-through holds" if bad is None else cfg.describe_path(bad))
    first_leave = [n for n in cfg.nodes if ti_leave2(n)]
    late = any(delegate(m) for n in first_leave for m in cfg.reachable([n], follow=no_exc) if m is not n)
    check.ob(rule, lv, "TypeInfoVisitor.leave: delegate runs before type_info.leave", not late, "")


# -- NO-READ ----------------------------------------------------------------------------


def no_read(check: Check, repo: Repo, model: AstModel, rule_mods: list[Module]) -> None:
    from rules.write_effect import top_heads
    from sa.mtypes import MTypes

    rule = "NO-READ"
    check.rule(
        rule,
        "no specified (non-SDL) rule reads .description of an AST node, and none reads "
        ".loc/.start/.end/.line/.column of an AST node, Location or Token except to forward x.loc as "
        "the loc= keyword of a node constructor: messages cannot depend on layout or descriptions",
    )
    mt = MTypes.get(repo)
    ast_heads = {f"graphql.language.ast.{c}" for c in model.classes} | {
        "graphql.language.ast.Location", "graphql.language.ast.Token"}
    n = 0
    for mod in rule_mods:
        for a in ast.walk(mod.tree):
            if not (isinstance(a, ast.Attribute) and isinstance(a.ctx, ast.Load)):
                continue
            if a.attr not in ("description", "loc", "start", "end", "line", "column", "start_token", "end_token"):
                continue
            ty = mt.type_of(a.value)
            heads = top_heads(ty) if ty else set()
            if not (heads & ast_heads):
                continue
            n += 1
            p = parent(a)
            forwarded = a.attr == "loc" and isinstance(p, ast.keyword) and p.arg == "loc"
            check.ob(rule, a, f"{unparse(a)} in {qualname_of(a)}", forwarded,
                     "forwarded as loc= of a node constructor" if forwarded else
                     f"rule reads layout/description attribute `{a.attr}` of {sorted(heads & ast_heads)}")
    check.note(no_read_sites=n)


# -- LIMIT ------------------------------------------------------------------------------


def limit(check: Check, repo: Repo) -> None:
    rule = "LIMIT"
    check.rule(
        rule,
        "in validate(): `errors` is mutated only by append; on_error tests len(errors) >= max_errors "
        "and raises before appending; the abort notice is appended at exactly one site, inside "
        "`except ValidationAbortedError`",
    )
    fn = repo.func("validation.validate", "validate")
    sites = [w for w in write_sites(fn) if w.chain == "errors"]
    ok = bool(sites) and all(w.kind == "mutator" and w.detail == "append" for w in sites)
    check.ob(rule, fn, "errors list is append-only", ok, f"{[(w.kind, w.detail) for w in sites]}")
    on_error = next((s for s in fn.body if isinstance(s, FuncDef) and s.name == "on_error"), None)
    if on_error is None:
        raise AnalysisError("validate.on_error missing")
    cfg = CFG(on_error)
    app = lambda n: n.kind == "stmt" and n.ast is not None and unparse(n.ast) == "errors.append(error)"  # noqa: E731
    # the limit may be held in a local of validate() computed from the parameter alone (`error_limit = 100 if max_errors is None else max_errors`)
    limits = {"max_errors"}
    for s_ in walk_body(fn):
        if isinstance(s_, ast.Assign) and len(s_.targets) == 1 and isinstance(s_.targets[0], ast.Name):
            names = {x.id for x in ast.walk(s_.value) if isinstance(x, ast.Name)}
            if names and names <= {"max_errors"} and not any(isinstance(x, ast.Call) for x in ast.walk(s_.value)):
                limits.add(s_.targets[0].id)

    def is_guard(e: ast.AST) -> bool:
        if not (isinstance(e, ast.Compare) and len(e.ops) == 1):
            return False
        l, r, op = unparse(e.left), unparse(e.comparators[0]), e.ops[0]
        return (l == "len(errors)" and isinstance(op, ast.GtE) and r in limits) or (r == "len(errors)" and isinstance(op, ast.LtE) and l in limits)

    tests = [n for n in cfg.nodes if n.kind == "test" and is_guard(n.ast)]
    ok = len(tests) == 1
    if ok:
        t = tests[0]
        true_succ = [m for m, l in cfg.succ[t] if l and l[0] == "cond" and l[2] is True]
        false_succ = [m for m, l in cfg.succ[t] if l and l[0] == "cond" and l[2] is False]
        ok = all(m.kind == "raise" for m in true_succ) and bool(true_succ)
        # append only reachable through the false edge
        bad = cfg.find_path(cfg.entry, app, avoid=lambda n: n is t)
        ok = ok and bad is None and any(app(x) for m in false_succ for x in cfg.reachable([m]))
    check.ob(rule, on_error, "limit test `len(errors) >= max_errors` raises before the append", ok, "")
    notice = [w for w in sites if "validation_aborted_error" in unparse(w.node)]
    ok = len(notice) == 1
    if ok:
        h = parent(parent(notice[0].node))
        ok = isinstance(h, ast.ExceptHandler) and h.type is not None and unparse(h.type) == "ValidationAbortedError"
    check.ob(rule, notice[0].node if notice else fn, "one abort notice, appended in the abort handler", ok, "")
    # descriptions removed from traversal keys
    mod = repo.mod("validation.validate")
    try:
        keys = Evaluator(repo, mod).eval(mod.toplevel_assign("query_document_keys_to_validate"))
        base = Evaluator(repo, repo.mod("language.ast")).eval(repo.mod("language.ast").toplevel_assign("QUERY_DOCUMENT_KEYS"))
    except (NotStatic, TypeError) as e:
        raise AnalysisError(f"query_document_keys_to_validate not static: {e}") from e
    want = {k: tuple(x for x in v if x != "description") for k, v in base.items()}
    check.ob(rule, mod.toplevel_assign("query_document_keys_to_validate"),
             "query_document_keys_to_validate = QUERY_DOCUMENT_KEYS minus exactly 'description'", keys == want,
             f"{sum(1 for k in base if 'description' in base[k])} kinds lose the key; other keys and order kept")
    used = [n for n in walk_body(fn) if isinstance(n, ast.Name) and n.id == "query_document_keys_to_validate"]
    check.ob(rule, fn, "validate() traverses with the description-free key map", len(used) == 1, "")


# -- C13 ---------------------------------------------------------------------------------


def registry(check: Check, repo: Repo, classes: ClassIndex) -> dict[str, list[str]]:
    rule = "REGISTRY"
    check.rule(
        rule,
        "every ASTValidationRule subclass defined in validation/rules/*.py (not custom/) is listed in "
        "specified_rules, specified_sdl_rules or recommended_rules; ValidationRule subclasses "
        "(executable rules) are in specified_rules",
    )
    base = classes.get("validation.rules", "ASTValidationRule")
    vrule = classes.get("validation.rules", "ValidationRule")
    mod = repo.mod("validation.specified_rules")
    tuples: dict[str, list[str]] = {}
    for name in ("recommended_rules", "specified_rules", "specified_sdl_rules"):
        expr = mod.toplevel_assign(name)
        if expr is None:
            raise AnalysisError(f"anchor missing: specified_rules.{name}")
        try:
            vals = Evaluator(repo, mod).eval(expr)
        except NotStatic as e:
            raise AnalysisError(f"{name} not static: {e}") from e
        tuples[name] = [f"{v[1].name}.{v[2].name}" for v in vals if isinstance(v, tuple) and v[0] == "class"]
    listed = {x for v in tuples.values() for x in v}
    for ci in classes.subclasses(base):
        if ".rules.custom" in ci.mod.name or ci.mod.name == "graphql.validation.rules":
            continue
        if not ci.mod.name.startswith("graphql.validation.rules."):
            continue
        ok = ci.full in listed
        detail = "registered"
        if ok and classes.is_subclass(ci, vrule) and ci.full not in tuples["specified_rules"]:
            ok, detail = False, "executable rule is not in specified_rules: validate() never runs it"
        if not ok and detail == "registered":
            detail = "rule class is defined but in none of the rule tuples: documents it should reject are accepted"
        check.ob(rule, ci.node, ci.name, ok, detail)
    check.floor(rule, 38, "rule classes")
    check.note(rules={k: len(v) for k, v in tuples.items()})
    return tuples


def reachable_kinds(check: Check, repo: Repo, classes: ClassIndex, model: AstModel, tuples: dict[str, list[str]]) -> None:
    rule = "REACHABLE-KINDS"
    check.rule(
        rule,
        "every enter_<k>/leave_<k> method of a registered rule names an existing node kind; for rules in "
        "specified_rules the kind is reachable from `document` through the description-free traversal keys",
    )
    table = Evaluator(repo, repo.mod("language.ast")).eval(repo.mod("language.ast").toplevel_assign("QUERY_DOCUMENT_KEYS"))
    kinds = model.kinds()
    # kind graph
    succ: dict[str, set[str]] = {}
    for k, cls_list in kinds.items():
        out: set[str] = set()
        for c in cls_list:
            for f in c.fields:
                if f.name in table.get(k, ()) and f.name != "description":
                    tree = ast.parse(f.annotation, mode="eval")
                    for nm in {n.id for n in ast.walk(tree) if isinstance(n, ast.Name)}:
                        for cn in model.family(nm):
                            out.add(model.classes[cn].kind)
        succ[k] = out
    reach = {"document"}
    stack = ["document"]
    while stack:
        for t in succ.get(stack.pop(), ()):
            if t not in reach:
                reach.add(t)
                stack.append(t)
    n = 0
    for name, fulls in tuples.items():
        for full in fulls:
            ci = classes.by_full.get(full)
            if ci is None:
                continue
            for mname, m in ci.methods().items():
                for prefix in ("enter_", "leave_"):
                    if mname.startswith(prefix):
                        k = mname[len(prefix):]
                        ok = k in kinds and (name == "specified_sdl_rules" or k in reach)
                        check.ob(rule, m, f"{ci.name}.{mname}", ok,
                                 "kind exists and is reachable" if ok else f"kind {k!r} is {'unknown' if k not in kinds else 'not reachable from document'}: handler never runs")
                        n += 1
    check.floor(rule, 60, "kind-specific handlers")


def error_discipline(check: Check, repo: Repo, mods: list[Module]) -> None:
    rule = "ERROR-DISCIPLINE"
    check.rule(rule, "every GraphQLError(...) constructed in a validation rule is passed to report_error (or raised / returned)")
    for mod in mods:
        for n in ast.walk(mod.tree):
            if isinstance(n, ast.Call) and last_attr(n) == "GraphQLError":
                p = parent(n)
                ok = (isinstance(p, ast.Call) and last_attr(p) == "report_error") or isinstance(p, (ast.Return, ast.Raise))
                if not ok and isinstance(p, ast.Assign) and len(p.targets) == 1 and isinstance(p.targets[0], ast.Name):
                    nm = p.targets[0].id
                    fn = enclosing_function(n)
                    ok = fn is not None and any(
                        isinstance(c, ast.Call) and last_attr(c) in ("report_error", "append") and any(
                            isinstance(a, ast.Name) and a.id == nm for a in c.args) for c in ast.walk(fn))
                check.ob(rule, n, f"GraphQLError(...) in {qualname_of(n)}", ok,
                         "reported" if ok else "constructed error is dropped")
    check.floor(rule, 60, "error constructions")


def default_is_none(check: Check, repo: Repo, funcs: list[ast.AST], rule: str = "DEFAULT-IS-NONE") -> None:
    check.rule(
        rule,
        "a parameter whose default is None is replaced by its documented default only under an explicit "
        "`is None` test; `x = x or default` also replaces the legitimate falsy arguments (max_errors=0, "
        "an empty rule collection)",
    )
    from sa.cfg import CFG as _CFG
    from sa.guards import FactFlow as _FF

    for fn in funcs:
        a = fn.args  # type: ignore[attr-defined]
        params = [x.arg for x in a.posonlyargs + a.args + a.kwonlyargs]
        defaults = dict(zip([x.arg for x in (a.posonlyargs + a.args)][-len(a.defaults):] if a.defaults else [], a.defaults))
        defaults.update({k.arg: d for k, d in zip(a.kwonlyargs, a.kw_defaults) if d is not None})
        none_params = {p for p, d in defaults.items() if isinstance(d, ast.Constant) and d.value is None}
        flow = None
        for s in fn.body:  # type: ignore[attr-defined]
            for n in ast.walk(s):
                if isinstance(n, (ast.FunctionDef, ast.AsyncFunctionDef, ast.Lambda)):
                    break
                if isinstance(n, ast.Assign) and len(n.targets) == 1 and isinstance(n.targets[0], ast.Name) and n.targets[0].id in none_params:
                    p = n.targets[0].id
                    flow = flow or _FF(_CFG(fn))
                    facts = {(f.text, f.pol) for f in flow.facts_at(n)}
                    ok = (f"{p} is None", True) in facts or (f"{p} is not None", False) in facts
                    check.ob(rule, n, f"{fn.name}: {unparse(n)[:60]}", ok,  # type: ignore[attr-defined]
                             f"under `{p} is None`" if ok else f"`{p}` is replaced without an `is None` test: falsy arguments are lost")


def parallel_stacks(check: Check, repo: Repo, classes: ClassIndex, rule: str = "PARALLEL-STACKS") -> None:
    check.rule(
        rule,
        "TypeInfo keeps the input-type stack and the default-value stack in step at every value position "
        "(argument, fragment_argument, list_value, object_field): each of these enter handlers pushes both "
        "stacks on every path (list positions push Undefined = 'no default here'), so get_default_value() "
        "never reports the default of an enclosing position for a nested value",
    )
    ci = classes.get("utilities.type_info", "TypeInfo")
    methods = ci.methods()
    aliases = ci.aliases()
    for kind in ("argument", "fragment_argument", "list_value", "object_field"):
        name = f"enter_{kind}"
        while name in aliases:
            name = aliases[name]
        fn = methods.get(name)
        if fn is None:
            check.ob(rule, ci.node, f"enter_{kind}", False, "handler missing")
            continue
        cfg = CFG(fn)
        sets = set()
        for path in _paths(cfg):
            pu = Counter()
            for n in path:
                if n.ast is not None and n.kind in ("stmt", "return"):
                    a, _b, _s, _r = _stack_ops(n.ast)
                    pu += a
            sets.add(tuple(sorted(pu.items())))
        ok = all(dict(s).get("_input_type_stack", 0) == 1 and dict(s).get("_default_value_stack", 0) == 1 for s in sets)
        check.ob(rule, fn, f"enter_{kind} pushes input type and default value together", ok,
                 f"pushes on every path: {sorted(sets)}")
    gd = methods.get("get_default_value")
    ok = gd is not None and any(isinstance(r, ast.Return) and "self._default_value_stack[-1]" in unparse(r) for r in walk_body(gd))
    check.ob(rule, gd or ci.node, "get_default_value reads the top of the default-value stack", ok, "")


# -- per-operation state of a rule is reset per operation ------------------------------------

PER_OPERATION_HANDLERS = ("enter_variable_definition", "leave_variable_definition", "leave_operation_definition")


def operation_scoped(check: Check, repo: Repo, mods: list[Module], rule: str = "OPERATION-SCOPED") -> None:
    check.rule(
        rule,
        "a container attribute of a validation rule that is filled by a per-operation handler "
        "(enter/leave_variable_definition, leave_operation_definition: its content is keyed by the "
        "variables of the operation in hand) is emptied or re-created in enter_operation_definition of the "
        "same class; otherwise what one operation stored is read back under the same variable name while a "
        "later operation of the document is validated",
    )
    n = 0
    for mod in mods:
        for cls in mod.classes():
            methods = {s.name: s for s in cls.body if isinstance(s, (ast.FunctionDef, ast.AsyncFunctionDef))}
            init = methods.get("__init__")
            if init is None:
                continue
            containers = set()
            for s in walk_body(init):
                tgt = None
                if isinstance(s, ast.Assign) and len(s.targets) == 1:
                    tgt, val = s.targets[0], s.value
                elif isinstance(s, ast.AnnAssign) and s.value is not None:
                    tgt, val = s.target, s.value
                if tgt is not None and isinstance(tgt, ast.Attribute) and unparse(tgt.value) == "self" and is_fresh_expr(val) \
                        and isinstance(val, (ast.Dict, ast.List, ast.Set, ast.Call)):
                    containers.add(tgt.attr)
            if not containers:
                continue
            filled: dict[str, ast.AST] = {}
            for hname in PER_OPERATION_HANDLERS:
                h = methods.get(hname)
                if h is None:
                    continue
                # local aliases `m = self.attr`
                alias = {
                    a.targets[0].id: a.value.attr
                    for a in walk_body(h)
                    if isinstance(a, ast.Assign) and len(a.targets) == 1 and isinstance(a.targets[0], ast.Name)
                    and isinstance(a.value, ast.Attribute) and unparse(a.value.value) == "self"
                }
                for w in write_sites(h):
                    if w.kind not in ("item-store", "mutator"):
                        continue
                    t = w.target
                    attr = None
                    if isinstance(t, ast.Attribute) and unparse(t.value) == "self":
                        attr = t.attr
                    elif isinstance(t, ast.Name) and t.id in alias:
                        attr = alias[t.id]
                    if attr in containers and w.detail not in ("clear",):
                        filled.setdefault(attr, w.node)
            if not filled:
                continue
            enter = methods.get("enter_operation_definition")
            reset: set[str] = set()
            if enter is not None:
                for w in write_sites(enter):
                    t = w.target
                    if w.kind == "mutator" and w.detail == "clear" and isinstance(t, ast.Attribute) and unparse(t.value) == "self":
                        reset.add(t.attr)
                    if w.kind == "attr-store" and unparse(t) == "self" and isinstance(w.node, (ast.Assign, ast.AnnAssign)) \
                            and is_fresh_expr(w.node.value):
                        reset.add(w.detail)
            for attr, site in sorted(filled.items()):
                n += 1
                ok = attr in reset
                check.ob(rule, site, f"{cls.name}.{attr} (filled in a per-operation handler)", ok,
                         "reset in enter_operation_definition" if ok else
                         f"`self.{attr}` is filled per operation but never emptied in enter_operation_definition: entries of an earlier operation stay visible")
    check.note(operation_scoped_attrs=n)


# -- the abort notice of validate() travels through report_error ---------------------------------------


def report_discipline(check: Check, repo: Repo, mods: list[Module], rule: str = "REPORT-DISCIPLINE") -> None:
    check.rule(
        rule,
        "report_error is how a rule hands over an error *and* how validate() stops the traversal once "
        "max_errors is exceeded (it raises ValidationAbortedError, a GraphQLError, from inside report_error): "
        "(1) no report_error call of a rule sits in a try whose handler catches GraphQLError / Exception / "
        "BaseException without re-raising - the abort would be swallowed and the result would lack the "
        "'too many errors' notice; (2) no rule reports from __init__ - rules are instantiated before "
        "validate() enters the try that converts the abort, so the abort would leave validate() as an exception",
    )
    swallow = {"GraphQLError", "Exception", "BaseException", "ValidationAbortedError"}
    n = 0
    for mod in mods:
        for fn in mod.functions():
            calls = [c for c in walk_body(fn) if isinstance(c, ast.Call) and last_attr(c) == "report_error"]
            for c in calls:
                n += 1
                bad = None
                child: ast.AST = c
                for a in ancestors(c):
                    if isinstance(a, (*FuncDef, ast.Lambda)):
                        break
                    if isinstance(a, ast.Try) and child in a.body:
                        for h in a.handlers:
                            types = {unparse(h.type)} if h.type is not None and not isinstance(h.type, ast.Tuple) else (
                                {unparse(e) for e in h.type.elts} if h.type is not None else {"BaseException"})
                            reraises = any(isinstance(x, ast.Raise) and x.exc is None for x in ast.walk(h))
                            if types & swallow and not reraises:
                                bad = h
                    child = a
                in_init = getattr(fn, "name", "") == "__init__"
                ok = bad is None and not in_init
                check.ob(rule, c, f"{qualname_of(c)}: report_error(...)", ok,
                         "abort propagates to validate()" if ok else
                         (f"inside `except {unparse(bad.type) if bad.type is not None else ''}` (line {bad.lineno}) that does not re-raise: ValidationAbortedError is swallowed"
                          if bad is not None else "reported while the rule is being constructed, before validate() is ready to convert the abort"))
    check.note(report_error_calls=n)


# -- ScalarLeafs partitions the named output kinds ----------------------------------------------------------


def leafs_partition(check: Check, repo: Repo, rule: str = "LEAFS-PARTITION") -> None:
    from rules.schema_rules import predicate_classes

    check.rule(
        rule,
        "ScalarLeafsRule.enter_field decides over the five named output kinds: leaf kinds (Scalar, Enum) must "
        "not have a selection, and *every other* kind (Object, Interface, Union) must have one. The arms that "
        "demand a selection are either the unconditional else-side of the leaf test or kind tests that "
        "together accept all three composite kinds; an arm that names Object and Interface only lets "
        "`{ searchResult }` on a union through, and execution answers with an empty object",
    )
    fn = repo.func("validation.rules.scalar_leafs", "ScalarLeafsRule.enter_field")
    preds = predicate_classes(repo)
    composite = {"GraphQLObjectType", "GraphQLInterfaceType", "GraphQLUnionType"}
    # the if whose test contains is_leaf_type(...)
    chain = next((i for i in walk_body(fn) if isinstance(i, ast.If) and any(
        isinstance(c, ast.Call) and call_name(c) == "is_leaf_type" for c in ast.walk(i.test))), None)
    if chain is None:
        raise AnalysisError("ScalarLeafsRule.enter_field: is_leaf_type test not found")
    covered: set[str] = set()
    cur: ast.If | None = chain
    first = True
    while cur is not None:
        kinds = [call_name(c) for c in ast.walk(cur.test) if isinstance(c, ast.Call) and call_name(c) in preds]
        if not first:
            if not kinds:
                covered |= composite  # an arm without a kind test takes every remaining kind
            for k in kinds:
                covered |= preds[k]
        first = False
        nxt = cur.orelse
        if len(nxt) == 1 and isinstance(nxt[0], ast.If):
            cur = nxt[0]
        else:
            if nxt:
                covered |= composite
            cur = None
    missing = composite - covered
    check.ob(rule, chain, "ScalarLeafsRule: the 'needs a selection' side accepts Object, Interface and Union", not missing,
             "all composite kinds reach an arm that requires a selection" if not missing else
             f"{sorted(missing)} reach no arm: a field of that kind may be selected without sub-fields")


# -- round 4 ------------------------------------------------------------------------------------------------

NESTED_TRAVERSALS = {"get_variable_usages", "get_recursive_variable_usages"}
NEUTRAL_HANDLERS = {
    "enter_document", "leave_document", "enter_operation_definition", "leave_operation_definition",
    "enter_fragment_definition", "leave_fragment_definition",
}


def nested_visit_neutral(check: Check, repo: Repo, classes: ClassIndex, rule: str = "NESTED-VISIT-NEUTRAL") -> None:
    check.rule(
        rule,
        "ValidationContext.get_variable_usages / get_recursive_variable_usages run a *nested* traversal with the "
        "TypeInfo object the main traversal is using, and memoise what they find for every other rule: a rule may ask for "
        "them only from a handler of a document or definition node (enter/leave_operation_definition, "
        "leave_fragment_definition ...), where no variable definition, argument or input value is open. Asked from inside "
        "(enter_variable_definition, enter_field ...) the nested walk starts on top of the current input-type stack - the "
        "parent input type recorded in every cached usage is the enclosing variable's type, and VariablesInAllowedPosition "
        "reports OneOf errors that exist in no single rule's own run",
    )
    base = classes.get("validation.rules", "ASTValidationRule")
    n = 0
    for ci in classes.subclasses(base):
        if ".custom" in ci.mod.name or not ci.mod.name.startswith("graphql.validation.rules."):
            continue
        methods = ci.methods()
        # methods of the rule that (transitively through self.<method>()) start a nested traversal
        direct = {name for name, m in methods.items() if any(
            isinstance(c, (ast.Call, ast.Attribute)) and (last_attr(c) if isinstance(c, ast.Call) else c.attr) in NESTED_TRAVERSALS for c in walk_body(m))}
        reach = set(direct)
        changed = True
        while changed:
            changed = False
            for name, m in methods.items():
                if name in reach:
                    continue
                if any(isinstance(c, ast.Call) and isinstance(c.func, ast.Attribute) and unparse(c.func.value) == "self" and c.func.attr in reach for c in walk_body(m)):
                    reach.add(name)
                    changed = True
        for name in sorted(reach):
            if not name.startswith(("enter", "leave")):
                continue
            n += 1
            ok = name in NEUTRAL_HANDLERS
            check.ob(rule, methods[name], f"{ci.name}.{name}: starts a nested traversal with the shared TypeInfo", ok,
                     "definition-level handler: the input-type stack is empty" if ok else
                     "handler of a node inside a definition: the nested walk inherits the open input types and poisons the shared usage cache")
    if n < 2:
        raise AnalysisError("NESTED-VISIT-NEUTRAL: callers of get_variable_usages not found")
