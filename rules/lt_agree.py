"""LT-AGREE: one definition of "line terminator" (DESIGN.md §3.1).

Oracle: the GraphQL spec's LineTerminator = { LF, CR LF, CR }.
CPython's str.splitlines() additionally splits on VT FF FS GS RS NEL LS PS and
drops a trailing empty line - a strict superset, so it can never be used on
source text or string values.
"""

from __future__ import annotations

import ast
import re

from sa.loader import Module, Repo, call_name, last_attr, qualname_of, unparse, walk_body
from sa.report import Check, node_text
from sa.tables import Evaluator, NotStatic, regex_language

ORACLE = {"\n", "\r", "\r\n"}
# every character CPython's str.splitlines treats as a boundary
SPLITLINES_CHARS = set("\n\r\x0b\x0c\x1c\x1d\x1e\x85\u2028\u2029")
LINE_STR_METHODS = {
    "split", "rsplit", "count", "find", "rfind", "index", "rindex", "partition",
    "rpartition",
}  # fmt: skip

DEFAULT_SCOPE = [
    "language.source", "language.block_string", "language.print_location",
    "language.location", "language.lexer", "language.printer", "language.print_string",
    "language.parser", "error.graphql_error", "error.syntax_error",
    "utilities.strip_ignored_characters", "utilities.print_schema",
]  # fmt: skip


def _regex_defs(repo: Repo, mod: Module) -> dict[str, tuple[ast.AST, str]]:
    """name -> (node, pattern) for `name = re.compile(<static str>)` at module or class level."""
    out = {}
    for n in ast.walk(mod.tree):
        if isinstance(n, ast.Assign) and len(n.targets) == 1 and isinstance(n.value, ast.Call):
            if call_name(n.value) in ("re.compile", "compile") and n.value.args:
                try:
                    pat = Evaluator(repo, mod).eval(n.value.args[0])
                except NotStatic:
                    continue
                t = n.targets[0]
                if isinstance(t, ast.Name) and isinstance(pat, str):
                    out[t.id] = (n, pat)
    return out


def regex_verdict(pattern: str) -> tuple[bool, str]:
    lang = regex_language(pattern)
    if lang is None:
        return False, f"regex {pattern!r} does not denote a finite language"
    if lang != ORACLE:
        return False, f"regex {pattern!r} denotes {sorted(lang)!r}, spec LineTerminator is {sorted(ORACLE)!r}"
    # alternation order: CR LF must be consumed as one terminator
    try:
        rx = re.compile(pattern)
    except re.error as e:
        return False, f"regex {pattern!r} does not compile: {e}"
    probe = rx.split("a\r\nb\rc\nd e\x0cf")
    if probe != ["a", "b", "c", "d e\x0cf"]:
        return False, f"regex {pattern!r} splits the probe text into {probe!r}"
    return True, f"regex {pattern!r} denotes exactly LF | CR | CR LF (CR LF first)"


def check_lt_agree(check: Check, repo: Repo, rule: str = "LT-AGREE", scope: list[str] | None = None,
                   mods: list[Module] | None = None) -> dict[str, int]:
    """Report one obligation per line-splitting construct in the scope modules."""
    check.rule(
        rule,
        "every construct that splits/counts lines of source text or string values denotes "
        "exactly {LF, CR, CRLF}: no str.splitlines, every newline regex has that finite "
        "language with CRLF first, no str.split/count/find on a partial terminator set",
    )
    counts = {"splitlines": 0, "regex": 0, "strmethod": 0, "regex_use": 0}
    modules = mods if mods is not None else [repo.mod(m) for m in (scope or DEFAULT_SCOPE)]
    for mod in modules:
        regexes = _regex_defs(repo, mod)
        line_regexes = {}
        for name, (node, pat) in regexes.items():
            lang = regex_language(pat)
            mentions_newline = any(c in pat for c in "\n\r") or "\\n" in pat or "\\r" in pat
            if (lang is not None and any(set(w) & SPLITLINES_CHARS for w in lang)) or (
                lang is None and mentions_newline
            ):
                ok, why = regex_verdict(pat)
                check.ob(rule, node, f"{name} = re.compile({pat!r})", ok, why)
                counts["regex"] += 1
                line_regexes[name] = pat
        # names bound to the standard library's own line handlers: textwrap.* and inspect.cleandoc are written on top
        # of str.splitlines() (textwrap.indent additionally leaves white-space-only lines alone), str.expandtabs resets
        # its column on the same set
        stdlib_line_fns: dict[str, str] = {}
        for st in ast.walk(mod.tree):
            if isinstance(st, ast.ImportFrom) and st.module in ("textwrap", "inspect") and st.level == 0:
                for al in st.names:
                    if st.module == "textwrap" or al.name in ("cleandoc", "getdoc"):
                        stdlib_line_fns[al.asname or al.name] = f"{st.module}.{al.name}"
            elif isinstance(st, ast.Import):
                for al in st.names:
                    if al.name == "textwrap":
                        stdlib_line_fns[(al.asname or al.name) + ".*"] = "textwrap"
        for n in ast.walk(mod.tree):
            if not isinstance(n, ast.Call):
                continue
            attr = last_attr(n)
            fname = n.func.id if isinstance(n.func, ast.Name) else None
            via_mod = isinstance(n.func, ast.Attribute) and isinstance(n.func.value, ast.Name) and (n.func.value.id + ".*") in stdlib_line_fns
            if (fname in stdlib_line_fns) or via_mod:
                what = stdlib_line_fns.get(fname or "", "textwrap." + str(attr))
                check.ob(
                    rule, n, node_text(n), False,
                    f"{what}() finds its lines with str.splitlines(): VT, FF, FS, GS, RS, NEL, LS and PS count as line ends "
                    "(and textwrap.indent skips white-space-only lines), which are ordinary characters of a GraphQL string",
                )
                counts["splitlines"] += 1
                continue
            if attr == "splitlines" and isinstance(n.func, ast.Attribute):
                check.ob(
                    rule, n, node_text(n), False,
                    "str.splitlines() also splits on VT, FF, FS, GS, RS, NEL, LS, PS and drops a "
                    "trailing empty line: not the spec's LineTerminator set",
                )
                counts["splitlines"] += 1
            elif (
                isinstance(n.func, ast.Attribute)
                and isinstance(n.func.value, ast.Name)
                and n.func.value.id in line_regexes
            ):
                check.ob(rule, n, node_text(n), True,
                         f"uses {n.func.value.id} (checked above)", nontrivial=False)
                counts["regex_use"] += 1
            elif attr in LINE_STR_METHODS and isinstance(n.func, ast.Attribute) and n.args:
                a = n.args[0]
                if isinstance(a, ast.Constant) and isinstance(a.value, str) and set(a.value) & SPLITLINES_CHARS:
                    ok = False
                    check.ob(
                        rule, n, node_text(n), ok,
                        f"str.{attr}({a.value!r}) sees only part of the LineTerminator set",
                    )
                    counts["strmethod"] += 1
    return counts


def lexer_newline_tests(check: Check, repo: Repo, rule: str = "LEXER-LT") -> None:
    """Each lexer routine that must stop at / account for a line terminator tests both
    LF and CR and no other character of the splitlines() set."""
    check.rule(
        rule,
        "in read_next_token, read_comment, read_string, read_block_string the characters "
        "compared against a source character that belong to the line-boundary family are "
        "exactly LF and CR",
    )
    for fn_name in ("read_next_token", "read_comment", "read_string", "read_block_string"):
        fn = repo.func("language.lexer", f"Lexer.{fn_name}")
        seen: set[str] = set()
        for n in walk_body(fn):
            if isinstance(n, ast.Compare) and len(n.ops) == 1 and isinstance(n.ops[0], (ast.Eq, ast.In)):
                for side in (n.left, n.comparators[0]):
                    if isinstance(side, ast.Constant) and isinstance(side.value, str):
                        seen |= set(side.value) & SPLITLINES_CHARS
        ok = seen == {"\n", "\r"}
        check.ob(
            rule, fn, f"line-terminator characters tested in {fn_name}",
            ok, f"tested: {sorted(seen)!r}; required exactly ['\\n', '\\r']",
        )
