"""C14: overlapping-fields rule - memo discipline, subsumption truth tables, flag threading, cycles."""

from __future__ import annotations

import ast
import itertools

from sa.cfg import CFG, no_exc
from sa.effects import write_sites
from sa.guards import FactFlow
from sa.loader import AnalysisError, FuncDef, Repo, ancestors, call_name, last_attr, parent, qualname_of, unparse, walk_body
from sa.report import Check, node_text
from sa.resolve import CallGraph, ClassIndex
from sa.tables import Evaluator, NotStatic

MOD = "validation.rules.overlapping_fields_can_be_merged"
FLAG = "are_mutually_exclusive"


def memo_pair(check: Check, repo: Repo) -> None:
    rule = "MEMO-PAIR"
    check.rule(
        rule,
        "each `.add(k..., flag)` on a compared-pairs set is dominated by `if <same set>.has(<same k...>, "
        "<same flag>): return` with identical arguments, and nothing between the test and the add can "
        "leave the function (the comparison is recorded before it recurses, which is what terminates "
        "cyclic fragment spreads)",
    )
    mod = repo.mod(MOD)
    n = 0
    for fn in mod.functions():
        for c in walk_body(fn):
            if isinstance(c, ast.Call) and isinstance(c.func, ast.Attribute) and c.func.attr == "add" \
                    and unparse(c.func.value) in ("compared_fields_and_fragment_pairs", "compared_fragment_pairs"):
                n += 1
                recv = unparse(c.func.value)
                args = [unparse(a) for a in c.args]
                flow = FactFlow(CFG(fn))
                want = f"{recv}.has({', '.join(args)})"
                facts = {(f.text, f.pol) for f in flow.facts_at(c)}
                ok = (want, False) in facts
                # the add immediately follows the test
                stmt = parent(c)
                body = getattr(parent(stmt), "body", [])
                idx = body.index(stmt) if stmt in body else -1
                prev = body[idx - 1] if idx > 0 else None
                adjacent = isinstance(prev, ast.If) and unparse(prev.test) == want and len(prev.body) == 1 and isinstance(prev.body[0], ast.Return)
                check.ob(rule, c, f"{fn.name}: {node_text(c, 80)}", ok and adjacent,
                         f"dominated by `if {want}: return` directly before it" if ok and adjacent else
                         f"no immediately preceding `if {want}: return` (facts: {sorted(t for t, p in facts if 'has(' in t)})")
    check.floor(rule, 2, "memo add sites")


def subsumption(check: Check, repo: Repo) -> None:
    rule = "SUBSUMPTION"
    check.rule(
        rule,
        "PairSet.has / OrderedPairSet.has, evaluated as pure functions over {query flag} x {stored flag}: "
        "(T,T)->T, (T,F)->T, (F,F)->T, (F,T)->F and absent->F - a stored non-exclusive comparison subsumes "
        "an exclusive query, never the reverse; add() overwrites the stored flag (a later non-exclusive "
        "comparison must replace an exclusive entry, otherwise it is neither served nor recorded); "
        "PairSet normalises the key pair identically in has and add",
    )
    mod = repo.mod(MOD)
    classes = ClassIndex(repo)
    for cls_name in ("PairSet", "OrderedPairSet"):
        ci = classes.get(MOD, cls_name)
        has, add = ci.methods().get("has"), ci.methods().get("add")
        if has is None or add is None:
            raise AnalysisError(f"{cls_name}.has/add missing")
        params = [a.arg for a in has.args.args][1:]
        add_params = [a.arg for a in add.args.args][1:]
        if len(params) < 3 or len(add_params) < 3:
            # the memo no longer distinguishes the two strengths of a comparison at all
            check.ob(rule, has, f"{cls_name}.has/add take the exclusivity flag", False,
                     f"has({', '.join(params)}) / add({', '.join(add_params)}) carry no flag: a comparison made under mutually "
                     "exclusive parents (which skips the argument / name checks) is served for a later comparison under overlapping parents")
            continue
        flag = params[2]
        want = {(True, True): True, (True, False): True, (False, False): True, (False, True): False}
        for (q, stored), expect in want.items():
            got = _eval_has(repo, mod, has, params, q, stored)
            check.ob(rule, has, f"{cls_name}.has(query={q}, stored={stored})", got == expect,
                     f"evaluates to {got}, specification {expect}")
        got = _eval_has(repo, mod, has, params, True, None)
        check.ob(rule, has, f"{cls_name}.has(absent entry)", got is False, f"evaluates to {got}")
        # add overwrites
        stores = [w for w in write_sites(add) if w.kind == "item-store"]
        sd = [c for c in walk_body(add) if isinstance(c, ast.Call) and last_attr(c) == "setdefault"]
        flag_add = [a.arg for a in add.args.args][3]
        inner_store = [w for w in stores if isinstance(w.node, ast.Assign) and unparse(w.node.value) == flag_add]
        new_entry = [w for w in stores if isinstance(w.node, ast.Assign) and isinstance(w.node.value, ast.Dict)
                     and any(unparse(v) == flag_add for v in w.node.value.values)]
        ok = bool(inner_store) and bool(new_entry) and not any(
            len(c.args) == 2 and unparse(c.args[1]) == flag_add for c in sd)
        check.ob(rule, add, f"{cls_name}.add overwrites the stored flag", ok,
                 "existing entry: map_[k] = flag; new entry: {k: flag}" if ok else
                 "the stored flag is not unconditionally replaced (setdefault / missing store): an exclusive entry shadows a later non-exclusive comparison")
    # key symmetry of PairSet
    ps = classes.get(MOD, "PairSet")
    # the (unordered) pair is brought into one order before it is looked up / stored: fold the statements that
    # bind key1/key2 in `has` and in `add` for both argument orders - all four results must be the same pair
    results = []
    for m in ("has", "add"):
        fn = ps.methods()[m]
        pa, pb = [a.arg for a in fn.args.args][1:3]
        for x, y in (("p", "q"), ("q", "p")):
            ev = Evaluator(repo, mod, {pa: x, pb: y})
            got = None
            for st in fn.body:
                if isinstance(st, ast.Expr) and isinstance(st.value, ast.Constant):
                    continue
                try:
                    r = ev._exec_block([st])
                except NotStatic:
                    break
                if "key1" in ev.env and "key2" in ev.env:
                    got = (ev.env["key1"], ev.env["key2"])
                    break
                if r is not Evaluator._NoReturn:
                    break
            results.append((m, (x, y), got))
    pairs = {g for _m, _xy, g in results}
    ok = len(pairs) == 1 and None not in pairs
    check.ob(rule, ps.node, "PairSet normalises (a, b) identically in has and add", ok,
             f"has/add x both argument orders all yield {next(iter(pairs))}" if ok else f"different key orders: {results}")


def _eval_has(repo: Repo, mod, has: ast.AST, params: list[str], query: bool, stored: bool | None):
    """Interpret `has` with self._data built so that the looked-up entry holds `stored`."""

    class FakeMap(dict):
        pass

    inner = {} if stored is None else {"B": stored}
    data = {"A": inner, 1: inner}
    env = {params[0]: "A", params[1]: "B", params[2]: query, "id": lambda x: 1}
    ev = Evaluator(repo, mod, env)
    ev.env["self"] = None
    try:
        return _run(ev, has.body, data)
    except NotStatic as e:
        raise AnalysisError(f"has() is not statically evaluable: {e}") from e


def _run(ev: Evaluator, body: list[ast.stmt], data: dict):
    for s in body:
        if isinstance(s, ast.Expr) and isinstance(s.value, ast.Constant):
            continue
        if isinstance(s, ast.Assign) and len(s.targets) == 1:
            t = s.targets[0]
            v = _val(ev, s.value, data)
            if isinstance(t, ast.Name):
                ev.env[t.id] = v
            elif isinstance(t, ast.Tuple):
                for nm, x in zip(t.elts, v):
                    ev.env[nm.id] = x
            continue
        if isinstance(s, ast.If):
            r = _run(ev, s.body if _val(ev, s.test, data) else s.orelse, data)
            if r is not _NONE:
                return r
            continue
        if isinstance(s, ast.Return):
            return _val(ev, s.value, data)
        raise NotStatic(type(s).__name__)
    return _NONE


_NONE = object()


def _val(ev: Evaluator, e: ast.AST, data: dict):
    # self._data.get(x)  ->  data.get(x)
    if isinstance(e, ast.Call) and isinstance(e.func, ast.Attribute) and e.func.attr == "get" and unparse(e.func.value) == "self._data":
        return data.get(_val(ev, e.args[0], data))
    if isinstance(e, ast.Call) and isinstance(e.func, ast.Name) and e.func.id == "id":
        return 1
    return ev.eval(e)


def flag_thread(check: Check, repo: Repo) -> None:
    rule = "FLAG-THREAD"
    check.rule(
        rule,
        "the mutual-exclusivity flag is forwarded unchanged (as the parameter, or as find_conflict's local "
        "strengthening of it) at every call between the rule's mutually recursive functions; a literal "
        "appears only in the two root functions that have no such parameter",
    )
    mod = repo.mod(MOD)
    classes = ClassIndex(repo)
    cg = CallGraph(repo, classes)
    n = 0
    for fn in mod.functions():
        params = [a.arg for a in fn.args.args]
        for call, target in cg.callees(fn):
            if not isinstance(target, FuncDef) or target.module is not mod:  # type: ignore[attr-defined]
                continue
            tparams = [a.arg for a in target.args.args]
            if FLAG not in tparams:
                continue
            idx = tparams.index(FLAG)
            arg = call.args[idx] if idx < len(call.args) else next((k.value for k in call.keywords if k.arg == FLAG), None)
            if arg is None:
                continue
            n += 1
            txt = unparse(arg)
            if FLAG in params:
                ok = txt == FLAG
                why = "forwarded as received" if ok else f"passes `{txt}` instead of the received flag"
            else:
                ok = isinstance(arg, ast.Constant) and arg.value is False or isinstance(arg, ast.Name)
                why = f"root function passes `{txt}`"
                if isinstance(arg, ast.Name):
                    # local strengthening: must be a disjunction / assignment that includes the received flag or a parent-type test
                    why = f"passes local `{txt}`"
            check.ob(rule, call, f"{fn.name} -> {target.name}({FLAG}={txt})", ok, why)
    # find_conflict's strengthening
    fc = repo.func(MOD, "find_conflict")
    assigns = [s for s in walk_body(fc) if isinstance(s, ast.Assign) and isinstance(s.targets[0], ast.Name) and s.targets[0].id == FLAG]
    ok = True
    for a in assigns:
        ok = ok and isinstance(a.value, ast.BoolOp) and isinstance(a.value.op, ast.Or) and any(
            isinstance(v, ast.Name) and v.id in ("parent_fields_are_mutually_exclusive", FLAG) for v in a.value.values)
    check.ob(rule, fc, "find_conflict only strengthens the flag (disjunction with the received one)", ok and bool(assigns),
             f"{[unparse(a)[:90] for a in assigns]}")
    check.floor(rule, 8, "flag-forwarding call sites")


def cycle_guard(check: Check, repo: Repo) -> None:
    rule = "CYCLE-GUARD"
    check.rule(
        rule,
        "every cycle of the rule's call graph passes through a function whose recursive calls are dominated "
        "by its memo `add` (MEMO-PAIR), or along an edge whose argument descends structurally into a "
        "sub-selection set (`selection_set` of a field node) - so validation terminates on cyclic fragment "
        "spreads",
    )
    mod = repo.mod(MOD)
    classes = ClassIndex(repo)
    cg = CallGraph(repo, classes)
    funcs = [f for f in mod.functions() if parent(f) is mod.tree]
    edges: dict[str, set[str]] = {f.name: set() for f in funcs}
    for f in funcs:
        for call, t in cg.callees(f):
            if isinstance(t, FuncDef) and getattr(t, "module", None) is mod and parent(t) is mod.tree:
                edges[f.name].add(t.name)
    memo_guarded = set()
    for f in funcs:
        adds = [c for c in walk_body(f) if isinstance(c, ast.Call) and isinstance(c.func, ast.Attribute) and c.func.attr == "add"
                and unparse(c.func.value).startswith("compared_")]
        if adds:
            # recursive calls come after the add
            first_add = min(a.lineno for a in adds)
            rec = [c for c, t in cg.callees(f) if isinstance(t, FuncDef) and t.name in edges and c.lineno > first_add]
            early = [c for c, t in cg.callees(f) if isinstance(t, FuncDef) and t.name in _reaches(edges, t.name, f.name) and c.lineno < first_add]
            if not early:
                memo_guarded.add(f.name)
    descent = set()
    fbs = repo.func(MOD, "find_conflicts_between_sub_selection_sets") if mod.has("find_conflicts_between_sub_selection_sets") else None
    fc = repo.func(MOD, "find_conflict")
    for c in walk_body(fc):
        if isinstance(c, ast.Call) and call_name(c) == "find_conflicts_between_sub_selection_sets":
            if any("selection_set" in unparse(a) for a in c.args):
                descent.add(("find_conflict", "find_conflicts_between_sub_selection_sets"))
    # enumerate simple cycles (small graph)
    cycles = _cycles(edges)
    crossing = set()
    for f in funcs:
        if any(isinstance(c, ast.Call) and last_attr(c) in ("get_fragment", "get_referenced_fields_and_fragment_spreads")
               for c in walk_body(f)):
            crossing.add(f.name)
    for cyc in cycles:
        if not (set(cyc) & crossing):
            check.ob(rule, mod.defs[cyc[0]], f"cycle {' -> '.join(cyc)}", True,
                     "never crosses a fragment boundary: recursion over a finite AST / type term", nontrivial=False)
            continue
        ok = any(n in memo_guarded for n in cyc) or any((a, b) in descent for a, b in zip(cyc, cyc[1:] + cyc[:1]))
        check.ob(rule, mod.defs[cyc[0]], f"cycle {' -> '.join(cyc)}", ok,
                 f"broken by memo in {sorted(set(cyc) & memo_guarded)} / structural descent" if ok else
                 "no function on this cycle records the comparison before recursing and no edge descends structurally")
    check.floor(rule, 3, "call-graph cycles")


def _reaches(edges: dict[str, set[str]], a: str, b: str) -> set[str]:
    seen, stack = set(), [a]
    while stack:
        x = stack.pop()
        for y in edges.get(x, ()):
            if y not in seen:
                seen.add(y)
                stack.append(y)
    return seen if b in seen else set()


def _cycles(edges: dict[str, set[str]]) -> list[list[str]]:
    out = []
    nodes = sorted(edges)

    def dfs(start: str, cur: str, path: list[str], seen: set[str]) -> None:
        for nxt in sorted(edges[cur]):
            if nxt == start:
                out.append(list(path))
            elif nxt not in seen and nxt > start and len(path) < 6:
                dfs(start, nxt, path + [nxt], seen | {nxt})

    for n in nodes:
        dfs(n, n, [n], {n})
    return out


def arg_normalise(check: Check, repo: Repo) -> None:
    rule = "ARG-NORMALISE"
    check.rule(
        rule,
        "argument values are compared through print_ast(sort_value_node(v)) unconditionally (input objects "
        "in any key order, at any nesting depth, compare equal): every print_ast call of the rule takes a "
        "direct sort_value_node(...) call, and sort_value_node recurses through both container kinds "
        "(object fields and list items)",
    )
    mod = repo.mod(MOD)
    n = 0
    for c in ast.walk(mod.tree):
        if isinstance(c, ast.Call) and call_name(c) == "print_ast" and c.args:
            a = c.args[0]
            ok = isinstance(a, ast.Call) and call_name(a) == "sort_value_node"
            n += 1
            check.ob(rule, c, f"{node_text(c, 60)} in {qualname_of(c)}", ok,
                     "sorted unconditionally" if ok else "printed without (unconditional) sort_value_node: key order / nesting changes the text compared")
    sv = repo.func("utilities.sort_value_node", "sort_value_node")
    from sa.loader import class_tests

    tested = class_tests(sv, sv.args.args[0].arg)
    ok = {"ObjectValueNode", "ListValueNode"} <= tested
    rec_list = any(isinstance(x, ast.Call) and call_name(x) == "sort_value_node" for x in walk_body(sv))
    sf = repo.func("utilities.sort_value_node", "sort_field")
    rec_field = any(isinstance(x, ast.Call) and call_name(x) == "sort_value_node" for x in walk_body(sf))
    sfs = repo.func("utilities.sort_value_node", "sort_fields")
    uses_sort_field = any(isinstance(x, ast.Call) and call_name(x) == "sort_field" for x in ast.walk(sfs)) and any(
        isinstance(x, ast.Call) and (call_name(x) == "sorted" or (isinstance(x.func, ast.Attribute) and x.func.attr == "sort")) for x in ast.walk(sfs))
    check.ob(rule, sv, "sort_value_node handles objects and lists recursively", ok and rec_list and rec_field and uses_sort_field,
             f"isinstance arms {sorted(tested)}; list recursion {rec_list}; field recursion {rec_field}; fields sorted {uses_sort_field}")
    check.floor(rule, 2, "print_ast calls in the rule")


# -- a pair recorded as compared is compared in full ---------------------------------------------------


def recorded_means_compared(check: Check, repo: Repo, rule: str = "RECORDED-COMPARED") -> None:
    check.rule(
        rule,
        "in the two memoising collectors, once `compared_*.add(...)` has recorded a pair, the only early "
        "returns are 'the fragment does not exist' (a test of the value context.get_fragment returned) and "
        "'both sides are the same field map' (an identity test): any other shortcut - e.g. returning when a "
        "fragment selects no direct fields - skips the comparison of the nested spreads (G)/(H) while the "
        "pair stays recorded as done, so the conflict is never looked for again",
    )
    for fname in ("collect_conflicts_between_fields_and_fragment", "collect_conflicts_between_fragments"):
        fn = repo.func(MOD, fname)
        adds = [c for c in walk_body(fn) if isinstance(c, ast.Call) and last_attr(c) == "add" and "compared_" in unparse(c.func)]
        if len(adds) != 1:
            raise AnalysisError(f"{fname}: expected one memo add, found {len(adds)}")
        add_line = adds[0].lineno
        frag_names = {
            t.id
            for s in walk_body(fn)
            if isinstance(s, ast.Assign) and isinstance(s.value, ast.Call) and last_attr(s.value) == "get_fragment"
            for t in s.targets
            if isinstance(t, ast.Name)
        }
        n = 0
        for r in walk_body(fn):
            if not isinstance(r, ast.Return) or r.lineno < add_line:
                continue
            n += 1
            guard = next((a for a in ancestors(r) if isinstance(a, ast.If)), None)
            ok, why = False, "unconditional return after the pair was recorded"
            if guard is not None:
                names = {x.id for x in ast.walk(guard.test) if isinstance(x, ast.Name)}
                identity = isinstance(guard.test, ast.Compare) and len(guard.test.ops) == 1 and isinstance(guard.test.ops[0], ast.Is) \
                    and all(isinstance(x, ast.Name) for x in (guard.test.left, guard.test.comparators[0]))
                if names and names <= frag_names:
                    ok, why = True, f"fragment lookup failed: `{unparse(guard.test)}`"
                elif identity:
                    ok, why = True, f"same object on both sides: `{unparse(guard.test)}`"
                else:
                    why = f"`if {unparse(guard.test)}: return` abandons a comparison that is already recorded as done"
            check.ob(rule, r, f"{fname}: early return after the memo add (line +{r.lineno - fn.lineno})", ok, why)
        # the phases exist after the add
        later_calls = {last_attr(c) for c in walk_body(fn) if isinstance(c, ast.Call) and c.lineno > add_line}
        need = {"collect_conflicts_between", fname}
        if any(isinstance(w, ast.While) for w in fn.body) and later_calls & {"extend", "append"}:
            # an explicit worklist replaces the recursion into nested spreads
            later_calls.add(fname)
        check.ob(rule, fn, f"{fname}: direct comparison and recursion into nested spreads follow the add", need <= later_calls,
                 "phases present" if need <= later_calls else f"missing after the add: {sorted(need - later_calls)}")


def all_pairs(check: Check, repo: Repo, rule: str = "ALL-PAIRS") -> None:
    check.rule(
        rule,
        "collect_conflicts_within compares every unordered pair of the fields that share a response name: "
        "find_conflict is called inside two nested loops where the inner one runs over the rest of the same "
        "list after the outer position (`fields[i + 1:]` / range(i + 1, n)), or inside one loop over "
        "combinations(fields, 2). 'Can be merged' is not transitive (fields of disjoint object parents are "
        "never in conflict with a third), so comparing only against the first field misses conflicts",
    )
    for fname, callee in (("collect_conflicts_within", "find_conflict"),
                          ("find_conflicts_within_selection_set", "collect_conflicts_between_fragments")):
        _all_pairs_site(check, repo, rule, fname, callee)


def _all_pairs_site(check: Check, repo: Repo, rule: str, fname: str, callee: str) -> None:
    """One site of ALL-PAIRS: `callee` is applied to every unordered pair of one list inside `fname` (for the second
    site: the fragments spread into one selection set - step (C) of the algorithm - which pairwise() / zip(xs, xs[1:])
    would only compare with their neighbours)."""
    fn = repo.func(MOD, fname)
    calls = [c for c in walk_body(fn) if isinstance(c, ast.Call) and last_attr(c) == callee]
    if not calls:
        raise AnalysisError(f"{fname}: {callee} call not found")
    for c in calls:
        loops = [a for a in ancestors(c) if isinstance(a, ast.For)]
        ok, why = False, "find_conflict is not inside a pair enumeration"
        for lp in loops:
            it = lp.iter
            if isinstance(it, ast.Call) and last_attr(it) == "combinations" and len(it.args) == 2 and getattr(it.args[1], "value", None) == 2:
                ok, why = True, f"for ... in {unparse(it)}"
        if not ok and len(loops) >= 2:
            inner, outer = loops[0], loops[1]
            o_it = outer.iter
            idx = seq = None
            if isinstance(o_it, ast.Call) and last_attr(o_it) == "enumerate" and o_it.args and isinstance(outer.target, ast.Tuple):
                idx, seq = unparse(outer.target.elts[0]), unparse(o_it.args[0])
            elif isinstance(o_it, ast.Call) and last_attr(o_it) == "range" and isinstance(outer.target, ast.Name):
                idx = outer.target.id
                lens = [x for x in ast.walk(o_it) if isinstance(x, ast.Call) and last_attr(x) == "len"]
                seq = unparse(lens[0].args[0]) if lens else None
            from sa.tables import inline_locals

            i_it = inline_locals(inner.iter, fn, keep={idx or "", seq or ""})  # `rest = xs[i + 1:]` ... `for y in rest`
            if idx and seq:
                if isinstance(i_it, ast.Subscript) and isinstance(i_it.slice, ast.Slice) and unparse(i_it.value) == seq \
                        and i_it.slice.lower is not None and unparse(i_it.slice.lower).replace(" ", "") in (f"{idx}+1", f"1+{idx}") \
                        and i_it.slice.upper is None and i_it.slice.step is None:
                    ok, why = True, f"outer {unparse(o_it)}, inner {unparse(i_it)}"
                elif isinstance(i_it, ast.Call) and last_attr(i_it) == "range" and i_it.args and unparse(i_it.args[0]).replace(" ", "") in (f"{idx}+1", f"1+{idx}"):
                    ok, why = True, f"outer {unparse(o_it)}, inner {unparse(i_it)}"
            if not ok:
                why = f"loops `{unparse(outer.iter)}` / `{unparse(inner.iter)}` do not enumerate every pair of one list"
        elif not ok and len(loops) == 1:
            why = f"a single loop over `{unparse(loops[0].iter)}` does not enumerate all pairs (neighbours only, or one fixed element against the others)"
        check.ob(rule, c, f"{fname}: {callee} over all pairs", ok, why)


# -- a cache keyed by AST nodes is an identity map ---------------------------------------------------------


def node_key_identity(check: Check, repo: Repo, rule: str = "NODE-KEY-IDENTITY") -> None:
    from rules.astmodel import AstModel

    check.rule(
        rule,
        "AST nodes compare (and hash) by value. A memo whose key is a node but whose value also depends on "
        "where the node sits (the parent type the field map is built for) must therefore be an identity map: "
        "in the merge rule every function that does `cache.get(<node parameter>)` ... `cache[<node parameter>] = "
        "value` with a value computed from further parameters receives a cache that the rule creates as "
        "RefMap() (or keys it with id() and pins the node). With a plain dict two structurally equal selection "
        "sets under different parent types - any document parsed with no_location=True - share one entry",
    )
    model = AstModel(repo)
    mod = repo.mod(MOD)
    sites = []
    for fn in mod.functions():
        ann = {a.arg: unparse(a.annotation) for a in fn.args.args if a.annotation is not None}
        node_params = {p for p, t in ann.items() if any(nm in model.classes for nm in
                                                       {x.id for x in ast.walk(ast.parse(t, mode="eval")) if isinstance(x, ast.Name)})}
        for s in walk_body(fn):
            if isinstance(s, ast.Assign) and len(s.targets) == 1 and isinstance(s.targets[0], ast.Subscript) \
                    and isinstance(s.targets[0].value, ast.Name) and s.targets[0].value.id in ann:
                key = s.targets[0].slice
                knames = {x.id for x in ast.walk(key) if isinstance(x, ast.Name)}
                by_id = any(isinstance(c, ast.Call) and call_name(c) == "id" for c in ast.walk(key))
                if knames & node_params and not by_id:
                    sites.append((fn, s, s.targets[0].value.id, sorted(knames & node_params)))
    if not sites:
        raise AnalysisError("NODE-KEY-IDENTITY: no node-keyed cache store found in the merge rule")
    rule_cls = repo.cls(MOD, "OverlappingFieldsCanBeMergedRule")
    init = next((m for m in rule_cls.body if isinstance(m, FuncDef) and m.name == "__init__"), None)
    created = {}
    if init is not None:
        for s in walk_body(init):
            tgt = s.targets[0] if isinstance(s, ast.Assign) and len(s.targets) == 1 else (s.target if isinstance(s, ast.AnnAssign) else None)
            val = getattr(s, "value", None)
            if isinstance(tgt, ast.Attribute) and unparse(tgt.value) == "self" and val is not None:
                created[tgt.attr] = val
    for fn, s, cache, keys in sites:
        src = created.get(cache)
        ok = isinstance(src, ast.Call) and call_name(src) == "RefMap"
        check.ob(rule, s, f"{fn.name}: {cache}[{', '.join(keys)}] = ...", ok,
                 f"self.{cache} is created as RefMap(): keyed by identity" if ok else
                 f"self.{cache} is created as `{unparse(src) if src is not None else '?'}`: a plain mapping compares the node keys by value")


# -- round 4 ------------------------------------------------------------------------------------------------


def exclusive_objects(check: Check, repo: Repo, rule: str = "EXCLUSIVE-OBJECTS") -> None:
    from rules import kind_tables as KT
    from rules import schema_rules as S

    check.rule(
        rule,
        "find_conflict: the expression bound to are_mutually_exclusive, folded over the kinds of the two parent types "
        "({Object, Interface, Union} x same/distinct object; the kind predicates are decided from the classes they test) "
        "with the inherited flag False, is True exactly for two distinct Object types and never depends on the schema: "
        "FieldsInSetCanMerge lets fields differ only when both parents are different Object types - an object and an "
        "interface it does not implement today may overlap tomorrow, and the spec requires the same field there",
    )
    fn = repo.func(MOD, "find_conflict")
    asg = [s for s in walk_body(fn) if isinstance(s, ast.Assign) and any(isinstance(t, ast.Name) and t.id == "are_mutually_exclusive" for t in s.targets)]
    if len(asg) != 1:
        raise AnalysisError("find_conflict: assignment of are_mutually_exclusive not found")
    unpack = [s for s in walk_body(fn) if isinstance(s, ast.Assign) and isinstance(s.targets[0], ast.Tuple) and unparse(s.value) in ("field1", "field2")]
    parents = [s.targets[0].elts[0].id for s in unpack if isinstance(s.targets[0].elts[0], ast.Name)]
    if len(parents) != 2:
        raise AnalysisError("find_conflict: parent types of the two fields not found")
    a, b = parents
    preds = S.predicate_classes(repo)
    bad = []
    cells = 0
    for ka, kb in itertools.product(("Object", "Interface", "Union"), repeat=2):
        for same in ((True, False) if ka == kb else (False,)):
            for inherited in (False, True):
                f = KT.Folder(fn, preds, {a: ka, b: kb}, same, (a, b))
                # local helper flags defined before the assignment take part in the fold
                for s in fn.body:
                    if s is asg[0]:
                        break
                    if isinstance(s, ast.Assign) and len(s.targets) == 1 and isinstance(s.targets[0], ast.Name):
                        f.env[s.targets[0].id] = f.ev(s.value)
                f.env["parent_fields_are_mutually_exclusive"] = inherited
                got = f.ev(asg[0].value)
                want = inherited or (ka == kb == "Object" and not same)
                cells += 1
                if isinstance(got, KT.Sym) or got != want:
                    bad.append(((ka, kb, "same" if same else "distinct", f"inherited={inherited}"), got, want))
    check.ob(rule, asg[0], f"find_conflict: are_mutually_exclusive over {cells} cells", not bad,
             "True exactly for two distinct Object types (or an inherited exclusivity)" if not bad else
             "; ".join(f"{c}: code gives {g!r}, specification {w!r}" for c, g, w in bad[:3]) + (f" (+{len(bad) - 3} more)" if len(bad) > 3 else ""))


def every_field_recorded(check: Check, repo: Repo, rule: str = "FIELDS-RECORDED") -> None:
    check.rule(
        rule,
        "collect_fields_and_fragment_spreads records every FieldNode of the selection set in the field map: in the "
        "FieldNode arm of its loop no normal path reaches the next iteration without passing the append to "
        "node_and_defs[<response name>] - whatever the parent type is (a union still has __typename, an unknown field has "
        "no definition but its response name can still collide). A skipped field is never compared with its namesakes",
    )
    fn = repo.func(MOD, "collect_fields_and_fragment_spreads")
    loops = [l for l in walk_body(fn) if isinstance(l, ast.For) and "selections" in unparse(l.iter)]
    if len(loops) != 1:
        raise AnalysisError("collect_fields_and_fragment_spreads: loop over the selections not found")
    arm_body = None
    arm: ast.AST | None = None
    for i in loops[0].body:
        if isinstance(i, ast.If) and "FieldNode" in unparse(i.test):
            arm, arm_body = i, i.body
        elif isinstance(i, ast.Match):
            for case in i.cases:
                if any(isinstance(p_, ast.MatchClass) and "FieldNode" in unparse(p_.cls) for p_ in ast.walk(case.pattern)):
                    arm, arm_body = case, case.body
    if arm_body is None:
        raise AnalysisError("collect_fields_and_fragment_spreads: FieldNode arm not found")

    class _Arm:
        body = arm_body

    anchor = arm if isinstance(arm, ast.stmt) else loops[0]
    arm = _Arm  # type: ignore[assignment]
    cfg = CFG(fn)
    # locals of the arm that hold a list of the map: bound only from node_and_defs.get(k) / node_and_defs[k] / a chained store into node_and_defs[k]
    holders: set[str] = set()
    for s_ in arm.body:
        for a_ in ast.walk(s_):
            if isinstance(a_, ast.Assign) and any(isinstance(t, ast.Name) for t in a_.targets):
                chained = any(isinstance(t, ast.Subscript) and unparse(t.value) == "node_and_defs" for t in a_.targets)
                from_map = any(isinstance(x, (ast.Call, ast.Subscript)) and unparse(x).startswith(("node_and_defs.get(", "node_and_defs.setdefault(", "node_and_defs["))
                               for x in [a_.value])
                for t in a_.targets:
                    if isinstance(t, ast.Name):
                        if chained or from_map:
                            holders.add(t.id)
    for s_ in arm.body:  # a holder rebound from anything else is no holder
        for a_ in ast.walk(s_):
            if isinstance(a_, ast.Assign):
                chained = any(isinstance(t, ast.Subscript) and unparse(t.value) == "node_and_defs" for t in a_.targets)
                from_map = unparse(a_.value).startswith(("node_and_defs.get(", "node_and_defs.setdefault(", "node_and_defs["))
                if not (chained or from_map):
                    holders -= {t.id for t in a_.targets if isinstance(t, ast.Name)}
    appends = [c for s in arm.body for c in ast.walk(s) if isinstance(c, ast.Call) and isinstance(c.func, ast.Attribute) and c.func.attr == "append"
               and ("node_and_defs" in unparse(c.func.value) or (isinstance(c.func.value, ast.Name) and c.func.value.id in holders))]
    if not appends:
        check.ob(rule, anchor, "FieldNode arm records the field", False, "no append to node_and_defs[...] in the FieldNode arm")
        return
    goal_avoid = {n for c in appends for n in cfg.node_for_expr(c)}
    head = cfg.nodes_of(loops[0])[0]
    from rules.language_rules import _first_cfg_node

    start = _first_cfg_node(cfg, arm.body[0])
    path = cfg.find_path(start, lambda nd: nd is head or nd is cfg.exit, follow=no_exc, avoid=lambda nd: nd in goal_avoid)
    check.ob(rule, appends[0], "collect_fields_and_fragment_spreads: every FieldNode is appended to the field map", path is None,
             "every normal path through the FieldNode arm passes the append" if path is None else
             "a field can be skipped: " + cfg.describe_path(path)[-200:])


def node_value_compare(check: Check, repo: Repo, mods: list, rule: str = "NODE-BY-IDENTITY") -> int:
    from sa.mtypes import MTypes

    check.rule(
        rule,
        "AST nodes are dataclass values: `a == b` between two nodes compares every field recursively (including the "
        "location when there is one), it is not `a is b`. In the validation rules no ==/!= has an AST node class "
        "(a `...Node` of language.ast; the OperationType enum does not count) as static operand type: a verdict "
        "taken from structural equality (\\\"identical sub-selections cannot conflict\\\") depends on whether the "
        "document was parsed with locations and ignores the parent types the equal-looking selections apply to",
    )
    mt = MTypes.get(repo)
    n = 0
    bad = 0
    for mod in mods:
        for c in ast.walk(mod.tree):
            if not (isinstance(c, ast.Compare) and len(c.ops) == 1 and isinstance(c.ops[0], (ast.Eq, ast.NotEq))):
                continue
            n += 1
            tys = [mt.type_of(c.left) or "", mt.type_of(c.comparators[0]) or ""]
            node_typed = [t for t in tys if "language.ast." in t and any(part.split("[")[0].endswith("Node") for part in t.replace(" | ", "|").split("|") if "language.ast." in part)]
            if node_typed:
                bad += 1
                check.ob(rule, c, f"{qualname_of(c)}: `{unparse(c)[:60]}`", False,
                         f"operands of type {node_typed[0][:70]} are compared structurally; use identity or compare the keys that matter")
    check.ob(rule, mods[0].tree, f"{n} ==/!= comparisons in {len(mods)} modules", True, f"{n - bad} without an AST node operand", nontrivial=False)
    return n


def shared_map_reads(check: Check, repo: Repo, rule: str = "SHARED-MAP-READS") -> None:
    from rules.language_rules import norm_facts

    check.rule(
        rule,
        "the field maps of the merge rule (NodeAndDefCollection: response name -> fields) are built once per selection "
        "set, memoised and handed to every comparison - for a recursive fragment the map a caller is iterating can be the "
        "one a callee looks into. They are therefore plain dicts (built from a dict display, never a defaultdict) and a "
        "parameter of that type is read with .get() / `in` / .items(); a bare subscript read `m[k]` is accepted only "
        "after the function itself stored `m[k]` or under the must-fact that k is present. A bare read either raises "
        "KeyError or - on an auto-vivifying map - inserts an entry into a map that is being iterated "
        "(RuntimeError: dictionary changed size during iteration, on a valid recursive document)",
    )
    mod = repo.mod(MOD)
    n = 0
    for fn in mod.functions():
        if isinstance(fn, ast.Lambda):
            continue
        maps = {a.arg for a in fn.args.args if a.annotation is not None and "NodeAndDefCollection" in unparse(a.annotation)}
        maps |= {s.target.id for s in walk_body(fn) if isinstance(s, ast.AnnAssign) and isinstance(s.target, ast.Name)
                 and "NodeAndDefCollection" in unparse(s.annotation)}
        for s in walk_body(fn):
            if isinstance(s, ast.AnnAssign) and isinstance(s.target, ast.Name) and "NodeAndDefCollection" in unparse(s.annotation) and s.value is not None:
                n += 1
                ok = isinstance(s.value, ast.Dict) or (isinstance(s.value, ast.Call) and call_name(s.value) == "dict")
                check.ob(rule, s, f"{qualname_of(s)}: `{unparse(s)[:60]}`", ok,
                         "a plain dict" if ok else f"built as `{unparse(s.value)[:40]}`: lookups on the memoised map would insert entries")
        if not maps:
            continue
        flow = None
        for x in walk_body(fn):
            if not (isinstance(x, ast.Subscript) and isinstance(x.ctx, ast.Load) and isinstance(x.value, ast.Name) and x.value.id in maps):
                continue
            n += 1
            m, k = x.value.id, unparse(x.slice)
            stored = any(isinstance(t, ast.Subscript) and isinstance(t.ctx, ast.Store) and unparse(t.value) == m and unparse(t.slice) == k and t.lineno <= x.lineno
                         for t in walk_body(fn))
            if flow is None:
                flow = FactFlow(CFG(fn))
            facts = norm_facts(flow.facts_at(x))
            present = (f"{k} in {m}", True) in facts or (f"{m}.get({k})", True) in facts or (f"{k} not in {m}", False) in facts
            check.ob(rule, x, f"{qualname_of(x)}: read `{m}[{k}]`", stored or present,
                     ("stored by this function before the read" if stored else "key known to be present") if stored or present else
                     f"bare subscript read of a shared field map: use {m}.get({k})")
    builds = sum(1 for fn in mod.functions() if not isinstance(fn, ast.Lambda) for s in walk_body(fn)
                 if isinstance(s, ast.AnnAssign) and isinstance(s.target, ast.Name) and "NodeAndDefCollection" in unparse(s.annotation) and s.value is not None)
    if builds < 1:  # bare reads may legitimately be absent; the construction of a field map is the anchor
        raise AnalysisError("SHARED-MAP-READS: field maps not found")
