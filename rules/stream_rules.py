"""C07 (subscription mapping), C05 (incremental publisher typestate) rules."""

from __future__ import annotations

import ast

from rules.exec_rules import CONCURRENCY, nested
from sa.cfg import CFG, no_exc
from sa.effects import is_fresh_expr, write_sites
from sa.loader import (
    AnalysisError, FuncDef, Repo, ancestors, call_name, enclosing_function, last_attr, parent, qualname_of, unparse, walk_body,
)  # fmt: skip
from sa.report import Check, node_text
from sa.resolve import ClassIndex

# -- C07 -------------------------------------------------------------------------------------------


def one_yield(check: Check, repo: Repo) -> None:
    rule = "ONE-YIELD"
    check.rule(
        rule,
        "map_async_iterable yields exactly once per source item (every path through one iteration of the "
        "`async for` body passes exactly one yield, no yield outside the loop), the yielded value is `await "
        "callback(item)` of the loop variable, and neither it nor map_source_to_response_event.callback "
        "uses a concurrency primitive - responses cannot be dropped, duplicated or overtake each other",
    )
    fn = repo.func("execution.async_iterables", "map_async_iterable")
    loops = [n for n in walk_body(fn) if isinstance(n, ast.AsyncFor)]
    ok = len(loops) == 1
    detail = f"{len(loops)} async for loops"
    if ok:
        loop = loops[0]
        yields = [y for y in walk_body(fn) if isinstance(y, (ast.Yield, ast.YieldFrom))]
        in_loop = [y for y in yields if any(a is loop for a in ancestors(y))]
        var = unparse(loop.target)
        # path count through one iteration
        counts = _yield_counts(loop.body)
        def is_cb(e: ast.AST) -> bool:
            return isinstance(e, ast.Await) and isinstance(e.value, ast.Call) and unparse(e.value.func) == "callback" \
                and [unparse(a) for a in e.value.args] == [var]

        def val(y: ast.AST) -> bool:
            if not isinstance(y, ast.Yield) or y.value is None:
                return False
            if is_cb(y.value):
                return True
            if isinstance(y.value, ast.Name):
                defs = [s for s in ast.walk(loop) if isinstance(s, ast.Assign) and len(s.targets) == 1
                        and isinstance(s.targets[0], ast.Name) and s.targets[0].id == y.value.id]
                return len(defs) == 1 and is_cb(defs[0].value) and defs[0].lineno < y.lineno
            return False

        val_ok = all(val(y) for y in in_loop)
        ok = len(yields) == len(in_loop) and counts == {1} and val_ok and not loop.orelse
        detail = f"yields per iteration path: {sorted(counts)}; outside loop: {len(yields) - len(in_loop)}; value is await callback({var}): {val_ok}"
    check.ob(rule, fn, "map_async_iterable: one `yield await callback(item)` per item", ok, detail)
    for f, label in ((fn, "map_async_iterable"),
                     (repo.func("execution.execute", "map_source_to_response_event"), "map_source_to_response_event")):
        prims = sorted({last_attr(c) for c in ast.walk(f) if isinstance(c, ast.Call) and last_attr(c) in CONCURRENCY})
        check.ob(rule, f, f"{label}: no concurrency primitive", not prims, "none" if not prims else f"uses {prims}")
    ms = repo.func("execution.execute", "map_source_to_response_event")
    cb = nested(ms, "callback")
    calls = [c for c in walk_body(cb) if isinstance(c, ast.Call) and unparse(c.func) == "root_selection_set_executor"]
    ok = len(calls) == 1 and len(calls[0].args) == 1 and unparse(calls[0].args[0]) == "build_executor(payload)"
    check.ob(rule, cb, "each event is executed on a fresh per-event executor with the event as payload", ok,
             unparse(calls[0]) if calls else "no call of root_selection_set_executor")
    rets = [r for r in walk_body(ms) if isinstance(r, ast.Return)]
    ok = len(rets) == 1 and isinstance(rets[0].value, ast.Call) and call_name(rets[0].value) == "map_async_iterable" \
        and len(rets[0].value.args) == 2 and unparse(rets[0].value.args[1]) == "callback" \
        and "source_event_stream" in unparse(rets[0].value.args[0])
    check.ob(rule, ms, "the response stream is map_async_iterable(source, callback)", ok, unparse(rets[0])[:100] if rets else "")


def _yield_counts(body: list[ast.stmt]) -> set[int]:
    """Number of yields on each path through a statement list (if/else only; loops count as 0..many -> 2)."""
    counts = {0}
    for s in body:
        if isinstance(s, ast.If):
            c = _yield_counts(s.body) | _yield_counts(s.orelse)
            here = sum(1 for y in ast.walk(s.test) if isinstance(y, (ast.Yield, ast.YieldFrom)))
            counts = {min(2, a + b + here) for a in counts for b in c}
        elif isinstance(s, (ast.For, ast.While, ast.AsyncFor)):
            inner = sum(1 for y in ast.walk(s) if isinstance(y, (ast.Yield, ast.YieldFrom)))
            counts = {min(2, a + (2 if inner else 0)) for a in counts} | counts
        elif isinstance(s, ast.Try):
            c = _yield_counts(s.body)
            for h in s.handlers:
                c |= _yield_counts(h.body)
            counts = {min(2, a + b) for a in counts for b in c}
        elif isinstance(s, (ast.Continue, ast.Break, ast.Return, ast.Raise)):
            return counts
        else:
            k = sum(1 for y in ast.walk(s) if isinstance(y, (ast.Yield, ast.YieldFrom)))
            counts = {min(2, a + k) for a in counts}
    return counts


def subscription_convert(check: Check, repo: Repo) -> None:
    rule = "SUB-CONVERT"
    check.rule(
        rule,
        "create_source_event_stream converts a GraphQLError from the synchronous call and from the awaited "
        "result into ExecutionResult(None, errors=[error]); execute_subscription wraps the subscribe "
        "resolver (sync and awaited) in `except Exception -> raise located_error(...)`, and both the "
        "synchronous and the awaited result pass through assert_event_stream before being returned",
    )
    cs = repo.func("execution.execute", "create_source_event_stream")
    handlers = [h for t in ast.walk(cs) if isinstance(t, ast.Try) for h in t.handlers]
    good = [h for h in handlers if h.type is not None and unparse(h.type) == "GraphQLError" and len(h.body) == 1
            and isinstance(h.body[0], ast.Return) and unparse(h.body[0].value) == f"ExecutionResult(None, errors=[{h.name}])"]
    check.ob(rule, cs, "GraphQLError -> errors-only result at the sync and the awaited site", len(good) == 2 and len(handlers) == 2,
             f"{len(good)} converting handlers of {len(handlers)}")
    es = repo.func("execution.execute", "execute_subscription")
    hs = [h for t in ast.walk(es) if isinstance(t, ast.Try) for h in t.handlers]
    good = [h for h in hs if h.type is not None and unparse(h.type) == "Exception" and isinstance(h.body[-1], ast.Raise)
            and isinstance(h.body[-1].exc, ast.Call) and call_name(h.body[-1].exc) == "located_error"]
    check.ob(rule, es, "subscribe resolver errors are located (sync and awaited)", len(good) == 2 and len(hs) == 2,
             f"{len(good)} locating handlers of {len(hs)}")
    # every return of a resolver result passes assert_event_stream
    rets = [r for r in ast.walk(es) if isinstance(r, ast.Return) and r.value is not None]
    bad = []
    for r in rets:
        v = r.value
        if isinstance(v, ast.Call) and call_name(v) == "assert_event_stream":
            continue
        if isinstance(v, ast.Call) and call_name(v) == "await_result":
            continue
        bad.append(unparse(r)[:60])
    check.ob(rule, es, "resolver results pass assert_event_stream before being returned", not bad and len(rets) >= 3,
             f"{len(rets)} returns; unchecked: {bad}")
    ae = repo.func("execution.execute", "assert_event_stream")
    raises = [r for r in walk_body(ae) if isinstance(r, ast.Raise)]
    ok = len(raises) == 2 and any("default_is_async_iterable(result)" in unparse(i.test) for i in walk_body(ae) if isinstance(i, ast.If))
    check.ob(rule, ae, "assert_event_stream rejects exceptions and non-async-iterables", ok, "")


def fresh_state(check: Check, repo: Repo) -> None:
    rule = "FRESH-STATE"
    check.rule(
        rule,
        "result-bearing attributes of the executor (read by build_response / get_incremental_work and "
        "initialised with a fresh mutable object in __init__) are re-assigned a fresh object in every "
        "copy constructor (functions that `copy(self)`); a shallow copy shares them, so mutating them in "
        "place - or not re-assigning them - leaks errors or work of one event / sub-execution into another",
    )
    classes = ClassIndex(repo)
    base = classes.get("execution.executor", "Executor")
    for ci in [base, *classes.subclasses(base)]:
        mro = classes.mro(ci)
        # result-bearing attributes
        readers = []
        for c in mro:
            for name in ("build_response", "get_incremental_work"):
                m = c.methods().get(name)
                if m is not None:
                    readers.append(m)
        read = {a.attr for m in readers for a in ast.walk(m) if isinstance(a, ast.Attribute) and isinstance(a.value, ast.Name)
                and a.value.id == "self" and isinstance(a.ctx, ast.Load)}
        fresh_init: set[str] = set()
        for c in mro:
            init = c.methods().get("__init__")
            if init is None:
                continue
            for s in walk_body(init):
                if isinstance(s, (ast.Assign, ast.AnnAssign)):
                    tg = s.targets[0] if isinstance(s, ast.Assign) else s.target
                    if isinstance(tg, ast.Attribute) and unparse(tg.value) == "self" and s.value is not None and is_fresh_expr(s.value) \
                            and not isinstance(s.value, ast.Constant):
                        fresh_init.add(tg.attr)
        bearing = read & fresh_init
        for m in ci.methods().values():
            copies = [s for s in walk_body(m) if isinstance(s, ast.Assign) and isinstance(s.value, ast.Call) and call_name(s.value) == "copy"
                      and [unparse(a) for a in s.value.args] == ["self"] and isinstance(s.targets[0], ast.Name)]
            if not copies:
                continue
            var = copies[0].targets[0].id
            assigned = {}
            for s in walk_body(m):
                if isinstance(s, ast.Assign) and isinstance(s.targets[0], ast.Attribute) and unparse(s.targets[0].value) == var:
                    assigned[s.targets[0].attr] = s.value
            for attr in sorted(bearing):
                v = assigned.get(attr)
                ok = v is not None and is_fresh_expr(v) and not isinstance(v, ast.Constant)
                check.ob(rule, m, f"{ci.name}.{m.name}: {var}.{attr} re-initialised", ok,
                         f"{var}.{attr} = {unparse(v)}" if ok else
                         (f"{var}.{attr} is not assigned a fresh object: the copy shares it with the original" if v is None
                          else f"{var}.{attr} = {unparse(v)} is not a fresh object"))
            # in-place mutation of a shared attribute of the copy
            for w in write_sites(m):
                t = w.target
                if w.kind == "mutator" and isinstance(t, ast.Attribute) and unparse(t.value) == var:
                    check.ob(rule, w.node, f"{ci.name}.{m.name}: {node_text(w.node, 60)}", False,
                             f"mutates {var}.{t.attr} in place: the object is shared with the executor that was copied")
            for c in walk_body(m):
                if isinstance(c, ast.Call) and isinstance(c.func, ast.Attribute) and isinstance(c.func.value, ast.Attribute) \
                        and unparse(c.func.value.value) == var and c.func.value.attr in bearing and isinstance(parent(c), ast.Expr):
                    check.ob(rule, c, f"{ci.name}.{m.name}: {node_text(c, 60)}", False,
                             f"calls a method on the shared {var}.{c.func.value.attr} instead of replacing it: earlier results that still "
                             f"reference it change under the consumer")
    check.floor(rule, 5, "result-bearing attributes x copy constructors")


# -- C05 -------------------------------------------------------------------------------------------


def union_members(repo: Repo, module: str, name: str) -> list[str]:
    mod = repo.mod(module)
    expr = mod.toplevel_assign(name)
    if expr is None:
        raise AnalysisError(f"anchor missing: {module}.{name}")
    return [n.id for n in ast.walk(expr) if isinstance(n, ast.Name) and n.id[:1].isupper() and n.id not in ("TypeAlias", "Union")]


def event_dispatch(check: Check, repo: Repo) -> None:
    rule = "EVENT-DISPATCH"
    check.rule(
        rule,
        "IncrementalPublisher._handle_work_queue_event has an isinstance arm for every member of the "
        "WorkQueueEvent union except exactly one, which the final else handles (termination); a new event "
        "class would otherwise silently be treated as termination",
    )
    members = union_members(repo, "execution.incremental.work_queue", "WorkQueueEvent")
    fn = repo.func("execution.incremental.incremental_publisher", "IncrementalPublisher._handle_work_queue_event")
    arms = []
    for n in walk_body(fn):
        if isinstance(n, ast.If) and isinstance(n.test, ast.Call) and call_name(n.test) == "isinstance" and unparse(n.test.args[0]) == "event":
            arms.append(unparse(n.test.args[1]))
    missing = [m for m in members if m not in arms]
    for m in members:
        ok = m in arms or (missing == [m] and m.endswith("TerminationEvent"))
        check.ob(rule, fn, f"event class {m}", ok,
                 "explicit arm" if m in arms else ("handled by the final else (the only class without an arm)" if ok else
                                                    f"no arm; classes without arm: {missing}"))
    check.floor(rule, 6, "work queue event classes")


def id_lifecycle(check: Check, repo: Repo) -> None:
    rule = "ID-LIFECYCLE"
    check.rule(
        rule,
        "publisher ids: _ids is written only in _ensure_id (and deleted only next to a CompletedResult); "
        "_next_id is assigned 0 in __init__ and otherwise only `+= 1` (ids are never reused); every branch "
        "that appends a CompletedResult deletes the same node's id in the same block and vice versa; "
        "PendingResult is constructed only in _to_pending_results",
    )
    classes = ClassIndex(repo)
    ci = classes.get("execution.incremental.incremental_publisher", "IncrementalPublisher")
    writers = {}
    for m in ci.methods().values():
        for w in write_sites(m):
            ch = w.chain
            if ch in ("self._ids", "self") and (ch == "self._ids" or w.detail in ("_ids", "_next_id")):
                writers.setdefault((m.name, w.kind, w.detail if ch == "self" else "_ids[]"), []).append(w)
    ids_store = [k for k in writers if k[2] == "_ids[]" and k[1] == "item-store"]
    check.ob(rule, ci.node, "_ids[...] = ... only in _ensure_id", {k[0] for k in ids_store} == {"_ensure_id"}, str(sorted(ids_store)))
    nid = [(k, w) for k, ws in writers.items() for w in ws if k[2] == "_next_id"]
    ok = True
    for k, w in nid:
        if isinstance(w.node, ast.AugAssign):
            ok = ok and isinstance(w.node.op, ast.Add) and unparse(w.node.value) == "1"
        else:
            ok = ok and k[0] == "__init__" and unparse(w.node.value) == "0"  # type: ignore[attr-defined]
    check.ob(rule, ci.node, "_next_id only grows", ok and len(nid) >= 2, str([(k[0], unparse(w.node)) for k, w in nid]))
    # _ensure_id: id derived from _next_id before the increment, stored for the node
    ens = ci.methods()["_ensure_id"]
    txt = [unparse(s) for s in walk_body(ens) if isinstance(s, ast.stmt)]
    ok = "id_ = str(self._next_id)" in txt and "self._next_id += 1" in txt and "self._ids[node] = id_" in txt
    check.ob(rule, ens, "_ensure_id assigns str(_next_id), increments, stores", ok, "")
    # who may allocate: the announcement builder and the event handler; every lookup uses .get
    allocators = {"_to_pending_results", "_handle_work_queue_event"}
    for m in ci.methods().values():
        for c in walk_body(m):
            if isinstance(c, ast.Call) and call_name(c) == "self._ensure_id":
                ok = m.name in allocators
                check.ob(rule, c, f"{m.name}: {unparse(c)}", ok,
                         "allocation site of an announcing / completing handler" if ok else
                         f"`{m.name}` is a lookup helper: allocating an id here hands out the id of a group that was never announced as pending")
    # a failure event can name a nested group that was never announced (WorkQueue._task_failure walks all
    # groups of the failed task, released or not): its arm looks the id up and must not allocate one
    hw = ci.methods()["_handle_work_queue_event"]
    for arm in ast.walk(hw):
        if isinstance(arm, ast.If) and "GroupFailureEvent" in unparse(arm.test):
            allocs = [c for s_ in arm.body for c in ast.walk(s_) if isinstance(c, ast.Call) and call_name(c) == "self._ensure_id"]
            check.ob(rule, arm, "GroupFailureEvent arm does not allocate an id", not allocs,
                     "looks the id up with self._ids.get(...)" if not allocs else
                     "`self._ensure_id(group)` hands out a fresh id for a group that may never have been announced: the client gets "
                     "`completed` for an id it has not seen pending")
    # completed <-> delete pairing per branch
    fn = ci.methods()["_handle_work_queue_event"]
    n_blocks = 0
    for arm in walk_body(fn):
        if not isinstance(arm, ast.If):
            continue
        for block in (arm.body,):
            comp = [s for s in block if any(isinstance(c, ast.Call) and call_name(c) == "CompletedResult" for c in ast.walk(s))
                    and not isinstance(s, (ast.If, ast.For))]
            dels = [s for s in block if isinstance(s, ast.Delete) and "self._ids[" in unparse(s)]
            if not comp and not dels:
                continue
            n_blocks += 1
            ok = len(comp) == 1 and len(dels) == 1
            if ok:
                looked_up = {
                    a.targets[0].id: unparse(a.value.args[0]) for a in ast.walk(fn)
                    if isinstance(a, ast.Assign) and isinstance(a.targets[0], ast.Name) and isinstance(a.value, ast.Call)
                    and unparse(a.value.func) == "self._ids.get" and a.value.args
                }
                node_c = [unparse(c.args[0]) for c in ast.walk(comp[0]) if isinstance(c, ast.Call) and unparse(c.func) == "self._ensure_id"]
                for c in ast.walk(comp[0]):
                    if isinstance(c, ast.Call) and call_name(c) == "CompletedResult" and c.args and isinstance(c.args[0], ast.Name) \
                            and c.args[0].id in looked_up:
                        node_c.append(looked_up[c.args[0].id])
                node_d = unparse(dels[0].targets[0].slice)
                ok = node_c == [node_d] and block.index(comp[0]) < block.index(dels[0])
            check.ob(rule, arm, f"branch `{unparse(arm.test)[:50]}`: completed <-> id deleted", ok,
                     "one CompletedResult for the node, then its id is deleted" if ok else
                     f"{len(comp)} completions vs {len(dels)} id deletions in this branch")
    mod = repo.mod("execution.incremental.incremental_publisher")
    pend = [c for c in ast.walk(mod.tree) if isinstance(c, ast.Call) and call_name(c) == "PendingResult"]
    owners = {qualname_of(c) for c in pend}
    check.ob(rule, ci.node, "PendingResult constructed only in _to_pending_results", owners == {"IncrementalPublisher._to_pending_results"}, str(sorted(owners)))
    check.floor(rule, 7, "id lifecycle obligations")


def termination(check: Check, repo: Repo) -> None:
    rule = "TERMINATION"
    check.rule(
        rule,
        "has_next becomes False only in the branch for the termination event; the termination event is "
        "constructed at one site, guarded by 'no root groups and no root streams'; _subscribe returns "
        "after yielding a result whose has_next is false; the initial result is built with has_next=True",
    )
    mod = repo.mod("execution.incremental.incremental_publisher")
    fn = repo.func("execution.incremental.incremental_publisher", "IncrementalPublisher._handle_work_queue_event")
    sets = [s for s in ast.walk(mod.tree) if isinstance(s, ast.Assign) and isinstance(s.targets[0], ast.Attribute)
            and s.targets[0].attr == "has_next" and isinstance(s.value, ast.Constant) and s.value.value is False]
    ok = len(sets) == 1 and any(a is fn for a in ancestors(sets[0]))
    if ok:
        # the final else of the isinstance chain, or an explicit arm for the termination event
        p = parent(sets[0])
        ok = isinstance(p, ast.If) and (sets[0] in p.orelse or (
            sets[0] in p.body and isinstance(p.test, ast.Call) and call_name(p.test) == "isinstance"
            and unparse(p.test.args[1]).endswith("TerminationEvent")))
    check.ob(rule, sets[0] if sets else fn, "has_next = False only in the termination branch", ok, f"{len(sets)} assignment(s)")
    wq = repo.mod("execution.incremental.work_queue")
    cons = [c for c in ast.walk(wq.tree) if isinstance(c, ast.Call) and call_name(c) == "WorkQueueTerminationEvent"]
    ok = len(cons) == 1
    detail = f"{len(cons)} construction site(s)"
    if ok:
        guards = [a for a in ancestors(cons[0]) if isinstance(a, ast.If)]
        gtxt = " ".join(unparse(g.test) for g in guards)
        ok = "_root_groups" in gtxt and "_root_streams" in gtxt
        detail = f"guarded by: {gtxt[:100]}"
    check.ob(rule, cons[0] if cons else wq.tree.body[0], "termination event emitted only when no root work remains", ok, detail)
    sub = repo.func("execution.incremental.incremental_publisher", "IncrementalPublisher._subscribe")
    ys = [y for y in walk_body(sub) if isinstance(y, ast.Yield)]
    ok = len(ys) == 1
    if ok:
        ystmt = parent(ys[0])
        body = getattr(parent(ystmt), "body", [])
        nxt = body[body.index(ystmt) + 1] if ystmt in body and body.index(ystmt) + 1 < len(body) else None
        ok = isinstance(nxt, ast.If) and unparse(nxt.test) == f"not {unparse(ys[0].value)}.has_next" and isinstance(nxt.body[0], ast.Return)
    check.ob(rule, sub, "_subscribe returns after the payload with has_next false", ok, "")
    br = repo.func("execution.incremental.incremental_publisher", "IncrementalPublisher.build_response")
    init = [c for c in walk_body(br) if isinstance(c, ast.Call) and call_name(c) == "InitialIncrementalExecutionResult"]
    ok = len(init) == 1 and any(k.arg == "has_next" and getattr(k.value, "value", None) is True for k in init[0].keywords)
    check.ob(rule, br, "initial result has has_next=True", ok, "")


def root_set_pairing(check: Check, repo: Repo) -> None:
    rule = "ROOT-SET-PAIRING"
    check.rule(
        rule,
        "in the work queue every construction of a *SuccessEvent / *FailureEvent is in a function that "
        "also removes the same kind of node from the root set (`_root_groups` / `_root_streams`: pop / del "
        "/ discard / remove), and every such removal is in a function that constructs or returns a "
        "completion event or is a cancel/prune helper - an announced id is completed exactly once",
    )
    mod = repo.mod("execution.incremental.work_queue")
    n = 0
    for fn in mod.functions():
        evs = [c for c in walk_body(fn) if isinstance(c, ast.Call) and call_name(c) in (
            "GroupSuccessEvent", "GroupFailureEvent", "StreamSuccessEvent", "StreamFailureEvent")]
        if not evs:
            continue
        al = {}
        for a in walk_body(fn):
            if isinstance(a, ast.Assign) and len(a.targets) == 1 and isinstance(a.targets[0], ast.Name) \
                    and unparse(a.value) in ("self._root_groups", "self._root_streams"):
                al[a.targets[0].id] = unparse(a.value)
        sites = write_sites(fn, include_nested=False)
        for w in sites:
            if w.chain in al:
                w.target = ast.parse(al[w.chain], mode="eval").body
        removals = [w for w in sites if w.chain in ("self._root_groups", "self._root_streams")
                    and (w.kind == "del" or (w.kind == "mutator" and w.detail in ("pop", "discard", "remove", "__delitem__")))]
        calls_removal = [c for c in walk_body(fn) if isinstance(c, ast.Call) and last_attr(c) in ("_remove_group", "_remove_stream", "_finish_group_success")]
        for e in evs:
            kind = "_root_groups" if call_name(e).startswith("Group") else "_root_streams"
            ok = any(kind in w.chain for w in removals) or bool(calls_removal)
            n += 1
            check.ob(rule, e, f"{fn.name}: {call_name(e)}(...)", ok,
                     f"node removed from {kind} in the same function" if ok else f"event emitted but the node stays in {kind}")
    check.floor(rule, 4, "completion event constructions")


def cm_no_swallow(check: Check, repo: Repo, mods: list) -> None:
    rule = "CM-NO-SWALLOW"
    check.rule(
        rule,
        "the package's own context managers never swallow the in-flight exception by accident: "
        "__exit__/__aexit__ return nothing (or a constant); a value obtained from user code (e.g. the "
        "result of a source iterator's aclose()) must not become the return value, a truthy one would "
        "silently end the response stream instead of surfacing the source failure",
    )
    n = 0
    for mod in mods:
        for fn in mod.functions():
            if fn.name in ("__exit__", "__aexit__"):  # type: ignore[attr-defined]
                n += 1
                bad = [r for r in walk_body(fn) if isinstance(r, ast.Return) and r.value is not None and not isinstance(r.value, ast.Constant)]
                check.ob(rule, fn, f"{qualname_of(fn)} returns no computed value", not bad,
                         "no computed return" if not bad else f"`{unparse(bad[0])}` decides whether the exception is suppressed")
    check.floor(rule, 1, "context manager exits")


def stream_disabled(check: Check, repo: Repo) -> None:
    from sa.guards import FactFlow

    rule = "STREAM-DISABLED"
    check.rule(
        rule,
        "a @stream directive that is absent or disabled (`if: false`) has no effect: every raise in "
        "get_stream_usage is dominated by the false edge of the `not stream or stream.get('if') is False` "
        "test (must-facts: stream present, `if` not False)",
    )
    fn = repo.func("execution.executor", "Executor.get_stream_usage")
    flow = FactFlow(CFG(fn))
    raises = [r for r in walk_body(fn) if isinstance(r, ast.Raise)]
    for r in raises:
        facts = {(f.text, f.pol) for f in flow.facts_at(r)}
        ok = ("stream", True) in facts and ("stream.get('if') is False", False) in facts
        check.ob(rule, r, f"get_stream_usage: {node_text(r, 50)} (line +{r.lineno - fn.lineno})", ok,
                 "only reachable for a present, enabled directive" if ok else
                 "this error can be raised although the directive is absent or disabled with if: false")
    check.floor(rule, 2, "raises in get_stream_usage")


def stale_loop_var(check: Check, repo: Repo, mods: list, rule: str = "STALE-LOOP-VAR") -> None:
    check.rule(
        rule,
        "a statement after a `for` loop does not read a variable whose only bindings are inside that loop's "
        "body or target (it would see the leftovers of the last iteration - or be unbound for an empty "
        "sequence): per-item work that must happen for every item stays inside the loop. Bindings in the "
        "loop's `else` clause and lambda/comprehension parameters of the same name are not leftovers",
    )
    n_loops = 0
    for mod in mods:
        for fn in mod.functions():
            params = {a.arg for a in fn.args.args + fn.args.kwonlyargs + fn.args.posonlyargs}  # type: ignore[attr-defined]
            if fn.args.vararg:  # type: ignore[attr-defined]
                params.add(fn.args.vararg.arg)  # type: ignore[attr-defined]
            for owner in ast.walk(fn):
                if isinstance(owner, (ast.FunctionDef, ast.AsyncFunctionDef, ast.Lambda)) and owner is not fn:
                    continue
                for field in ("body", "orelse", "finalbody"):
                    blk = getattr(owner, field, None)
                    if not isinstance(blk, list):
                        continue
                    for i, s in enumerate(blk):
                        if not isinstance(s, (ast.For, ast.AsyncFor)):
                            continue
                        n_loops += 1
                        inner = [s.target, *s.body]
                        in_loop = {x.id for part in inner for x in ast.walk(part) if isinstance(x, ast.Name) and isinstance(x.ctx, ast.Store)}
                        else_bound = {x.id for part in s.orelse for x in ast.walk(part) if isinstance(x, ast.Name) and isinstance(x.ctx, ast.Store)}
                        outside = set()
                        for x in ast.walk(fn):
                            if isinstance(x, ast.Name) and isinstance(x.ctx, ast.Store) and not any(a is s for a in ancestors(x)):
                                outside.add(x.id)
                        only = in_loop - outside - params - else_bound
                        if not only:
                            continue
                        bad = []
                        for later in blk[i + 1:]:
                            for x in ast.walk(later):
                                if isinstance(x, ast.Name) and isinstance(x.ctx, ast.Load) and x.id in only:
                                    # shadowed by a lambda / comprehension parameter?
                                    shadow = False
                                    for a in ancestors(x):
                                        if a is later:
                                            break
                                        if isinstance(a, ast.Lambda) and x.id in {p.arg for p in a.args.args}:
                                            shadow = True
                                        if isinstance(a, (ast.ListComp, ast.SetComp, ast.DictComp, ast.GeneratorExp)) and any(
                                                x.id in {t.id for t in ast.walk(g.target) if isinstance(t, ast.Name)} for g in a.generators):
                                            shadow = True
                                    if not shadow:
                                        bad.append(x)
                        if bad:
                            for x in bad[:2]:
                                check.ob(rule, x, f"{qualname_of(x)}: `{x.id}` read after the loop at line {s.lineno}", False,
                                         f"`{x.id}` is bound only inside the loop over `{unparse(s.iter)[:40]}`; after the loop it holds the last "
                                         f"iteration's value (work for earlier items is skipped)")
                        else:
                            check.ob(rule, s, f"{qualname_of(s)}: loop over {unparse(s.iter)[:40]}", True,
                                     f"loop-local names {sorted(only)[:4]} are not read after the loop", nontrivial=True)
    check.note(loops_checked=n_loops)


def announce_cover(check: Check, repo: Repo) -> None:
    rule = "ANNOUNCE-COVER"
    check.rule(
        rule,
        "every work-queue event class that carries new_groups / new_streams has both handed to "
        "_to_pending_results in its branch of the publisher, under a guard that mentions both (or none): "
        "work that is started but never announced delivers data under an id the client has not seen",
    )
    wq = repo.mod("execution.incremental.work_queue")
    carriers = {}
    for c in wq.classes():
        fields = {s.target.id for s in c.body if isinstance(s, ast.AnnAssign) and isinstance(s.target, ast.Name)}
        if {"new_groups", "new_streams"} & fields:
            carriers[c.name] = fields & {"new_groups", "new_streams"}
    if len(carriers) < 2:
        raise AnalysisError(f"event classes carrying new work not recognised: {carriers}")
    fn = repo.func("execution.incremental.incremental_publisher", "IncrementalPublisher._handle_work_queue_event")
    for arm in walk_body(fn):
        if isinstance(arm, ast.If) and isinstance(arm.test, ast.Call) and call_name(arm.test) == "isinstance" and unparse(arm.test.args[0]) == "event":
            cls = unparse(arm.test.args[1])
            if cls not in carriers:
                continue
            # the branch itself, plus a method of the publisher it hands the event to (one level)
            scope: list[ast.stmt] = list(arm.body)
            pub = repo.cls("execution.incremental.incremental_publisher", "IncrementalPublisher")
            pmethods = {m.name: m for m in pub.body if isinstance(m, (ast.FunctionDef, ast.AsyncFunctionDef))}
            for s in arm.body:
                for c in ast.walk(s):
                    if isinstance(c, ast.Call) and isinstance(c.func, ast.Attribute) and unparse(c.func.value) == "self" and c.func.attr in pmethods \
                            and any(isinstance(a, ast.Name) and a.id == "event" for a in c.args) and c.func.attr != "_to_pending_results":
                        scope += pmethods[c.func.attr].body
            calls = [c for s in scope for c in ast.walk(s) if isinstance(c, ast.Call) and last_attr(c) == "_to_pending_results"]
            ok, why = False, "no _to_pending_results call in this branch"
            if calls:
                txt = unparse(calls[0])
                both = all(f"event.{f}" in txt or _alias_of(arm, f) in txt or _alias_in(scope, f) in txt for f in carriers[cls])
                guards = [a for a in ancestors(calls[0]) if isinstance(a, ast.If) and a is not arm and any(x is a for s in scope for x in ast.walk(s))]
                g_ok = all(all(f in unparse(g.test) for f in carriers[cls]) for g in guards)
                ok = both and g_ok
                why = ("both passed; guard mentions both" if ok else
                       f"passed: {txt[:80]}; guard(s): {[unparse(g.test) for g in guards]} - does not cover {sorted(carriers[cls])}")
            check.ob(rule, arm, f"branch {cls}: new work announced", ok, why)
    check.floor(rule, 2, "event classes carrying new work")


def _alias_in(scope: list[ast.stmt], field: str) -> str:
    """A local bound to `<event>.<field>` anywhere in the scope (single or tuple assignment)."""
    for s in scope:
        for a in ast.walk(s):
            if not (isinstance(a, ast.Assign) and len(a.targets) == 1):
                continue
            t, v = a.targets[0], a.value
            pairs = list(zip(t.elts, v.elts)) if isinstance(t, ast.Tuple) and isinstance(v, ast.Tuple) and len(t.elts) == len(v.elts) else [(t, v)]
            for tt, vv in pairs:
                if isinstance(tt, ast.Name) and isinstance(vv, ast.Attribute) and vv.attr == field and isinstance(vv.value, ast.Name):
                    return tt.id
    return "\0"


def _alias_of(arm: ast.If, field: str) -> str:
    for s in arm.body:
        for a in ast.walk(s):
            if isinstance(a, ast.Assign) and len(a.targets) == 1 and isinstance(a.targets[0], ast.Name) and f"event.{field}" in unparse(a.value):
                return a.targets[0].id
    return "\0"


# -- attributes derived from an attribute that a copy constructor overrides ---------------------------


def derived_state(check: Check, repo: Repo, rule: str = "DERIVED-STATE") -> None:
    check.rule(
        rule,
        "when a copy constructor of the executor (a method that does `x = copy(self)`) overrides an attribute "
        "A of the copy (root_value for a subscription event, collected_errors ...), every attribute whose "
        "__init__ value was computed from A's constructor argument (a tuple / dict / object capturing it) is "
        "re-derived for the copy as well; otherwise the copy answers partly from the original's A - "
        "info.root_value of a per-event execution would be the subscription's root value, not the event",
    )
    classes = ClassIndex(repo)
    base = classes.get("execution.executor", "Executor")
    n = 0
    for ci in [base, *classes.subclasses(base)]:
        mro = classes.mro(ci)
        param_attr: dict[str, str] = {}
        init_values: dict[str, ast.AST] = {}
        for c in reversed(mro):
            init = c.methods().get("__init__")
            if init is None:
                continue
            for s in walk_body(init):
                if isinstance(s, (ast.Assign, ast.AnnAssign)) and s.value is not None:
                    tg = s.targets[0] if isinstance(s, ast.Assign) else s.target
                    if isinstance(tg, ast.Attribute) and unparse(tg.value) == "self":
                        init_values[tg.attr] = s.value
                        if isinstance(s.value, ast.Name):
                            param_attr[s.value.id] = tg.attr
        derived: dict[str, set[str]] = {}  # attr A -> attrs computed from A's source
        for b, v in init_values.items():
            for x in ast.walk(v):
                a = None
                if isinstance(x, ast.Name) and x.id in param_attr and param_attr[x.id] != b and not isinstance(v, ast.Name):
                    a = param_attr[x.id]
                elif isinstance(x, ast.Attribute) and unparse(x.value) == "self" and x.attr in init_values and x.attr != b:
                    a = x.attr
                if a is not None:
                    derived.setdefault(a, set()).add(b)
        for m in ci.methods().values():
            copies = [s for s in walk_body(m) if isinstance(s, ast.Assign) and isinstance(s.value, ast.Call) and call_name(s.value) == "copy"
                      and [unparse(a) for a in s.value.args] == ["self"] and isinstance(s.targets[0], ast.Name)]
            if not copies:
                continue
            var = copies[0].targets[0].id
            assigned = {s.targets[0].attr for s in walk_body(m)
                        if isinstance(s, ast.Assign) and isinstance(s.targets[0], ast.Attribute) and unparse(s.targets[0].value) == var}
            for a in sorted(assigned):
                stale = sorted(derived.get(a, set()) - assigned)
                n += 1
                check.ob(rule, m, f"{ci.name}.{m.name}: {var}.{a} overridden", not stale,
                         f"no other attribute is computed from {a}" if not derived.get(a) else
                         (f"derived attribute(s) {sorted(derived[a])} re-assigned too" if not stale else
                          f"attribute(s) {stale} were computed in __init__ from `{a}` and are not re-derived for the copy: they still hold the original's value"))
    if n < 2:
        raise AnalysisError("DERIVED-STATE: copy constructors of the executor not found")


# -- "an ancestor is in the set" means *any* ancestor -------------------------------------------------

ANCESTOR_WALKS = [
    # (module, function, link attribute, set expression tested, root (None) must be tested too)
    ("execution.incremental.build_execution_plan", "get_filtered_defer_usage_set", "parent_defer_usage", False),
    ("execution.executor", "CollectedErrors.has_nulled_position", "prev", True),
]


def ancestor_walk(check: Check, repo: Repo, rule: str = "ANCESTOR-WALK") -> None:
    check.rule(
        rule,
        "where membership of an ancestor decides (a defer usage is dropped when an enclosing defer usage is in "
        "the set; an error is dropped when an enclosing position is already nulled), the test runs in a loop "
        "that follows the parent link to the end of the chain - `x = x.<link>` until None - and, for paths, "
        "the root position None is tested as well; testing the direct parent only lets a grand-child of an "
        "announced fragment be announced while the enclosing fragment is still pending",
    )
    for mn, q, link, root in ANCESTOR_WALKS:
        fn = repo.func(mn, q)
        # the walk may live in a module-level helper the function calls (`if has_ancestor_in(x, s): s.discard(x)`)
        mod_ = repo.mod(mn)
        scopes = [fn] + [h for h in (mod_.defs.get(c.func.id) for c in ast.walk(fn) if isinstance(c, ast.Call) and isinstance(c.func, ast.Name))
                         if isinstance(h, (ast.FunctionDef, ast.AsyncFunctionDef)) and h is not fn]
        tests = []
        for c in [x for sc in scopes for x in ast.walk(sc)]:
            if isinstance(c, ast.Compare) and len(c.ops) == 1 and isinstance(c.ops[0], (ast.In, ast.NotIn)):
                tests.append(c)
        walked = []
        for w in [x for sc in scopes for x in ast.walk(sc)]:
            if not isinstance(w, ast.While):
                continue
            adv = [s for s in ast.walk(w) if isinstance(s, ast.Assign) and len(s.targets) == 1 and isinstance(s.targets[0], ast.Name)
                   and isinstance(s.value, ast.Attribute) and s.value.attr == link and unparse(s.value.value) == s.targets[0].id]
            if not adv:
                continue
            var = adv[0].targets[0].id
            until_none = f"{var} is not None" in unparse(w.test) or unparse(w.test) == var
            inside = [t for t in tests if any(x is t for x in ast.walk(w)) and unparse(t.left) == var]
            walked.append((w, var, until_none, inside))
        ok = any(un and ins for _w, _v, un, ins in walked)
        direct = [t for t in tests if isinstance(t.left, ast.Attribute) and t.left.attr == link]
        check.ob(rule, fn, f"{q}: membership of an ancestor is tested along the whole `{link}` chain", ok and not direct,
                 f"while-loop over `{walked[0][1]} = {walked[0][1]}.{link}` until None with the membership test inside" if ok and not direct else
                 (f"`{unparse(direct[0])}` looks at the direct parent only" if direct else f"no loop that follows `.{link}` to the end with the membership test inside"))
        if root:
            rets = [r for r in walk_body(fn) if isinstance(r, ast.Return) and r.value is not None]
            last = rets[-1] if rets else None
            root_ok = last is not None and isinstance(last.value, ast.Compare) and unparse(last.value.left) == "None" and isinstance(last.value.ops[0], ast.In)
            check.ob(rule, last or fn, f"{q}: the root position (None) counts as an ancestor", root_ok,
                     "falls through to `None in <set>` after the chain ended" if root_ok else
                     "after the chain ended the root position None is not looked up")


# -- what is executed is what was collected for *this* operation -----------------------------------------


def collected_origin(check: Check, repo: Repo, rule: str = "COLLECTED-ORIGIN") -> None:
    from sa.effects import Origins

    check.rule(
        rule,
        "in Executor.execute_operation the grouped field set and the defer usages handed to "
        "execute_collected_root_fields come, on every path, from the collect_fields(...) call made for this "
        "operation in this function (reaching definitions through locals): a per-event executor that reuses a "
        "field set cached by someone else, or substitutes `()` for the defer usages, no longer answers an "
        "event the way a fresh execution of the same selection set would (a root-level @defer is no longer "
        "rejected)",
    )
    fn = repo.func("execution.executor", "Executor.execute_operation")
    calls = [c for c in walk_body(fn) if isinstance(c, ast.Call) and last_attr(c) == "execute_collected_root_fields"]
    if not calls:
        raise AnalysisError("execute_operation: execute_collected_root_fields call not found")
    org = Origins(fn)

    def from_collect(name: str, at: ast.AST, depth: int = 0) -> tuple[bool, str]:
        defs = org.reaching(name, at)
        if not defs:
            return False, f"`{name}` has no definition here"
        for d in defs:
            v = d.value
            if v is None:
                return False, f"`{name}` defined without a value (line {getattr(d.node, 'lineno', '?')})"
            if isinstance(v, ast.Call) and last_attr(v) == "collect_fields":
                continue
            if isinstance(v, ast.Name) and depth < 3:
                ok, why = from_collect(v.id, d.node, depth + 1)
                if ok:
                    continue
                return False, why
            return False, f"`{name} = {unparse(v)[:50]}` (line {getattr(d.node, 'lineno', '?')}) is not the result of collect_fields(...)"
        return True, "every reaching definition is (a component of) the collect_fields(...) result"

    for c in calls:
        for a in c.args:
            if isinstance(a, ast.Name) and a.id in ("grouped_field_set", "new_defer_usages"):
                ok, why = from_collect(a.id, c)
                check.ob(rule, c, f"execute_collected_root_fields(... {a.id} ...)", ok, why)


# -- the work queue's graph is edited by its owner routines only -----------------------------------------

GRAPH_OWNERS = {
    # attribute of WorkQueue -> methods that may delete entries from it (confirmed by reading work_queue.py)
    "_task_nodes": {"_remove_task", "_task_failure"},
    "_group_nodes": {"_remove_group", "_finish_group_success", "_prune_empty_groups"},
}


def graph_owners(check: Check, repo: Repo, rule: str = "GRAPH-OWNERS") -> None:
    check.rule(
        rule,
        "entries leave WorkQueue._task_nodes / _group_nodes only through their owner routines: a task node is "
        "deleted by _remove_task (which also detaches the task from every group that shares it) or by the "
        "failure handler, a group node by _remove_group / _finish_group_success / _prune_empty_groups; inside "
        "_remove_group the only key deleted directly is the group being removed - child groups are removed by "
        "the recursive call, so that the whole subtree (grand-children included) leaves the graph. A shortcut "
        "that pops a node elsewhere leaves a finished task attached to sibling groups (it is started and "
        "delivered again) or orphaned grand-children (completed for an id that was never announced)",
    )
    classes = ClassIndex(repo)
    ci = classes.get("execution.incremental.work_queue", "WorkQueue")
    n = 0
    for name, m in ci.methods().items():
        alias = {
            a.targets[0].id: a.value.attr for a in ast.walk(m)
            if isinstance(a, ast.Assign) and len(a.targets) == 1 and isinstance(a.targets[0], ast.Name)
            and isinstance(a.value, ast.Attribute) and unparse(a.value.value) == "self" and a.value.attr in GRAPH_OWNERS
        }

        def attr_of(e: ast.AST) -> str | None:
            if isinstance(e, ast.Attribute) and unparse(e.value) == "self" and e.attr in GRAPH_OWNERS:
                return e.attr
            if isinstance(e, ast.Name) and e.id in alias:
                return alias[e.id]
            return None

        for c in ast.walk(m):
            tgt = key = None
            if isinstance(c, ast.Call) and isinstance(c.func, ast.Attribute) and c.func.attr in ("pop", "popitem", "clear"):
                tgt, key = attr_of(c.func.value), (c.args[0] if c.args else None)
            elif isinstance(c, ast.Delete):
                for t in c.targets:
                    if isinstance(t, ast.Subscript) and attr_of(t.value):
                        tgt, key = attr_of(t.value), t.slice
            if not tgt:
                continue
            n += 1
            ok = name in GRAPH_OWNERS[tgt]
            why = f"{name} is an owner routine of {tgt}" if ok else f"{name} deletes from {tgt}; owners are {sorted(GRAPH_OWNERS[tgt])}"
            if ok and name == "_remove_group" and tgt == "_group_nodes":
                param = m.args.args[1].arg
                if key is None or unparse(key) != param:
                    ok, why = False, (f"_remove_group deletes `{unparse(key) if key is not None else '?'}` directly; only `{param}` itself may be deleted here, "
                                      "children go through the recursive call")
            check.ob(rule, c, f"WorkQueue.{name}: {node_text(c, 60)}", ok, why)
    rg = ci.methods().get("_remove_group")
    rec = rg is not None and any(isinstance(c, ast.Call) and call_name(c) == "self._remove_group" for c in ast.walk(rg))
    check.ob(rule, rg or ci.node, "_remove_group recurses into the child groups", rec,
             "self._remove_group(child_group, ...) inside the loop over child_groups" if rec else "no recursive removal of child groups")
    if n < 5:
        raise AnalysisError("GRAPH-OWNERS: deletions from the work queue graph not found")


# -- round 4 ------------------------------------------------------------------------------------------------


def error_keeps_items(check: Check, repo: Repo, rule: str = "ERROR-KEEPS-ITEMS") -> None:
    check.rule(
        rule,
        "StreamItemQueue._run: when the source of a stream fails, the items it yielded before the failure are still "
        "delivered, in order, ahead of the failure. The handler for the producer's exception therefore cancels nothing "
        "that is queued: no `.cancel()` call is reachable from it, directly or through the methods of the class it calls "
        "(_settle_pending cancels the pending item futures). A cancelled item raises CancelledError - not an Exception - in "
        "the consumer of the batches, the failure entry is never delivered, the announced stream id is never completed and "
        "no final payload with hasNext: false follows",
    )
    ci = ClassIndex(repo).get("execution.incremental.stream_item_queue", "StreamItemQueue")
    run = ci.methods().get("_run")
    if run is None:
        raise AnalysisError("StreamItemQueue._run not found")
    handlers = [h for t in walk_body(run) if isinstance(t, ast.Try) for h in t.handlers
                if any(isinstance(c, ast.Call) and "_ErrorEntry" in unparse(c) for s in h.body for c in ast.walk(s))]
    if len(handlers) != 1:
        raise AnalysisError("StreamItemQueue._run: handler that delivers the failure entry not found")
    h = handlers[0]
    bodies: list[tuple[str, list[ast.stmt]]] = [("_run handler", h.body)]
    seen = set()
    cancels = []
    while bodies:
        where, stmts = bodies.pop()
        for s in stmts:
            for c in ast.walk(s):
                if not isinstance(c, ast.Call) or not isinstance(c.func, ast.Attribute):
                    continue
                if c.func.attr == "cancel":
                    cancels.append((where, c))
                elif unparse(c.func.value) == "self" and c.func.attr in ci.methods() and c.func.attr not in seen:
                    seen.add(c.func.attr)
                    bodies.append((f"{where} -> {c.func.attr}", ci.methods()[c.func.attr].body))
    check.ob(rule, h, "StreamItemQueue._run: the failure handler cancels no queued item", not cancels,
             f"no .cancel() reachable (followed: {sorted(seen) or 'no helper'})" if not cancels else
             "; ".join(f"{w}: `{unparse(c)[:50]}` (line {c.lineno})" for w, c in cancels[:2]) + " cancels items that must still be delivered before the failure")


def field_lookup_by_name(check: Check, repo: Repo, rule: str = "FIELD-LOOKUP-NAME") -> None:
    from sa.tables import inline_locals

    check.rule(
        rule,
        "a field definition is looked up by the field's *name*, never by its response key: at every "
        "`<schema>.get_field(<parent type>, <x>)` of the execution package <x> - locals expanded - is read from a field "
        "node's `.name.value`. The grouped field set is keyed by response name (alias if there is one), so taking the "
        "key for the lookup works until a field is aliased: `subscription { latest: reading { ... } }` would answer 'The "
        "subscription field 'latest' is not defined.' for a valid operation",
    )
    n = 0
    for mod in repo.package_modules("execution"):
        for c in ast.walk(mod.tree):
            if not (isinstance(c, ast.Call) and isinstance(c.func, ast.Attribute) and c.func.attr == "get_field" and len(c.args) == 2):
                continue
            fn = enclosing_function(c)
            arg = inline_locals(c.args[1], fn) if fn is not None and not isinstance(fn, ast.Lambda) else c.args[1]
            n += 1
            ok = any(isinstance(a, ast.Attribute) and a.attr == "value" and isinstance(a.value, ast.Attribute) and a.value.attr == "name" for a in ast.walk(arg))
            check.ob(rule, c, f"{qualname_of(c)}: {unparse(c)[:60]}", ok,
                     f"`{unparse(arg)[:60]}`: the name of a field node" if ok else f"`{unparse(arg)[:60]}` is not a field node's name.value (a response key?)")
    if n < 2:
        raise AnalysisError("FIELD-LOOKUP-NAME: get_field calls not found")


def stream_predicate(check: Check, repo: Repo, rule: str = "STREAM-PREDICATE") -> None:
    check.rule(
        rule,
        "whether what the source resolver returned is an event stream is decided by one predicate: in subscribe() every "
        "conditional that selects map_source_to_response_event(...) tests `<executor>.is_async_iterable(<value>)` - the "
        "configurable predicate that assert_event_stream's default mirrors (an object with __aiter__). A narrower test "
        "(isinstance(x, AsyncIterator)) lets an async *iterable* that is not its own iterator through assert_event_stream "
        "and then returns the raw source: the consumer receives event payloads instead of one response per event",
    )
    fn = repo.func("execution.execute", "subscribe")
    sel = []
    for c in ast.walk(fn):
        if isinstance(c, ast.Call) and call_name(c).split(".")[-1] == "map_source_to_response_event":
            for a in ancestors(c):
                if isinstance(a, (*FuncDef, ast.Lambda)):
                    break
                if isinstance(a, (ast.IfExp, ast.If)):
                    sel.append(a)
                    break
    if not sel:
        raise AnalysisError("subscribe: selection of map_source_to_response_event not found")
    for x in sel:
        t = x.test
        ok = isinstance(t, ast.Call) and isinstance(t.func, ast.Attribute) and t.func.attr == "is_async_iterable"
        check.ob(rule, x, f"subscribe: mapped when `{unparse(t)[:60]}`", ok,
                 "the executor's stream predicate" if ok else "another test than <executor>.is_async_iterable(...) decides what counts as an event stream")


def per_event_pure(check: Check, repo: Repo, rule: str = "PER-EVENT-PURE") -> None:
    check.rule(
        rule,
        "an event payload is data: execute_subscription_event and the per-event callback of "
        "map_source_to_response_event contain no `raise` - whatever the source yields (an exception object included) "
        "becomes the root value of one execution and produces one response. Raising a payload ends the response stream "
        "and closes the source while it still has events: fewer responses than events",
    )
    sites = [("execution.execute", "execute_subscription_event")]
    fn2 = repo.func("execution.execute", "map_source_to_response_event")
    inner = [f for f in ast.walk(fn2) if isinstance(f, (ast.AsyncFunctionDef, ast.FunctionDef)) and f is not fn2]
    fns = [repo.func(*s) for s in sites] + inner
    for f in fns:
        raises = [r for r in walk_body(f) if isinstance(r, ast.Raise)]
        check.ob(rule, f, f"{qualname_of(f) or f.name}: no raise on the per-event path", not raises,
                 "none" if not raises else f"`{unparse(raises[0])[:50]}` (line {raises[0].lineno}): a payload / per-event condition ends the whole stream")


def pump_pacing(check: Check, repo: Repo, rule: str = "PUMP-PACING") -> None:
    from sa.cfg import CFG, no_exc

    check.rule(
        rule,
        "WorkQueue._start_stream.pump hands the consumer one batch at a time: after pushing a _StreamItems event it "
        "waits for that event's `handled` signal on *every* path before it asks the stream queue for the next batch or "
        "reports the stream as finished. The consumer relies on it when it peeks `queue.is_stopped()` while handling a "
        "batch (is this the last one? then complete the id). A pump that runs ahead - waiting only 'when the items carry "
        "work' - lets the first queued batch see a stopped queue: the stream id is completed and released, and the later "
        "batches are delivered under ids that were never announced",
    )
    ci = ClassIndex(repo).get("execution.incremental.work_queue", "WorkQueue")
    st = ci.methods().get("_start_stream")
    if st is None:
        raise AnalysisError("WorkQueue._start_stream not found")
    pump = next((f for f in ast.walk(st) if isinstance(f, ast.AsyncFunctionDef) and f.name == "pump"), None)
    if pump is None:
        raise AnalysisError("WorkQueue._start_stream: pump coroutine not found")
    cfg = CFG(pump)
    pushes = [c for c in walk_body(pump) if isinstance(c, ast.Call) and call_name(c).split(".")[-1] == "_push" and c.args and "_StreamItems" in unparse(c.args[0])]
    waits = [c for c in walk_body(pump) if isinstance(c, ast.Call) and isinstance(c.func, ast.Attribute) and c.func.attr == "wait" and "handled" in unparse(c.func.value)]
    if not pushes:
        raise AnalysisError("pump: push of _StreamItems not found")
    wait_nodes = {n for c in waits for n in cfg.node_for_expr(c)}
    loop = next((l for l in walk_body(pump) if isinstance(l, ast.AsyncFor)), None)
    if loop is None:
        raise AnalysisError("pump: `async for ... in stream.queue.batches()` not found")
    head = cfg.nodes_of(loop)[0]
    for p in pushes:
        start = cfg.node_for_expr(p)[0]
        path = cfg.find_path(start, lambda nd: nd is head or nd is cfg.exit, follow=no_exc, avoid=lambda nd: nd in wait_nodes)
        check.ob(rule, p, "pump: every pushed batch is awaited (`await handled.wait()`) before the next one is fetched", path is None,
                 "the wait is on every path back to the loop head" if path is None else "the pump can run ahead of the consumer: " + cfg.describe_path(path)[-200:])


def drain_guarded(check: Check, repo: Repo, rule: str = "DRAIN-GUARDED") -> None:
    check.rule(
        rule,
        "collect_iterator_awaitables drains a *user* iterator on an error path (a streamed source that has just failed; "
        "a list whose completion failed): the iteration is wrapped in `with suppress_exceptions` (or try/except Exception). "
        "An iterator that raises again while being drained - a lost connection does, a generator does not - would kill the "
        "producer task that is cleaning up: the stream's failure is never delivered, its id never completed, and no payload "
        "with hasNext: false arrives",
    )
    fn = repo.func("execution.executor", "collect_iterator_awaitables")
    p = fn.args.args[0].arg
    iters = [x for x in ast.walk(fn) if (isinstance(x, (ast.For, ast.comprehension)) and unparse(x.iter) == p)]
    if not iters:
        raise AnalysisError("collect_iterator_awaitables: iteration over the iterator not found")
    for it in iters:
        guarded = False
        for a in ancestors(it):
            if isinstance(a, (ast.With, ast.AsyncWith)) and any("suppress" in unparse(i.context_expr) for i in a.items):
                guarded = True
            if isinstance(a, ast.Try) and any(h.type is None or unparse(h.type) in ("Exception", "BaseException") for h in a.handlers):
                guarded = True
        check.ob(rule, it if isinstance(it, ast.For) else parent(it), f"collect_iterator_awaitables: iterates `{p}`", guarded,
                 "under suppress_exceptions / except Exception" if guarded else "a second failure of the source escapes from the clean-up")


def prune_undelivered(check: Check, repo: Repo, rule: str = "PRUNE-UNDELIVERED") -> None:
    from rules.language_rules import enclosing_conditions, norm_facts
    from sa.cfg import CFG
    from sa.guards import FactFlow

    check.rule(
        rule,
        "WorkQueue._prune_empty_groups discards a delivery group and promotes its child groups to root (they are then "
        "announced and started). A group node counts its unfinished tasks in `pending` and keeps the tasks whose values "
        "have not been *delivered* yet in `tasks` - a task shared with another, still pending group has succeeded "
        "(pending is 0) while its value is still held back. The discard-and-promote branch is therefore reached only under "
        "a fact about the group's undelivered `tasks` (or its lack of children) in addition to `not pending`. Promoting the "
        "children of a group whose data has not been delivered announces a nested fragment at a path that does not exist "
        "yet in the assembled data, and delivers its data there",
    )
    ci = ClassIndex(repo).get("execution.incremental.work_queue", "WorkQueue")
    fn = ci.methods().get("_prune_empty_groups")
    if fn is None:
        raise AnalysisError("WorkQueue._prune_empty_groups not found")
    dels = [d for d in walk_body(fn) if isinstance(d, ast.Delete)]
    promos = [c for c in walk_body(fn) if isinstance(c, ast.Call) and any("child_groups" in unparse(a) for a in c.args)]
    if not dels or not promos:
        raise AnalysisError("_prune_empty_groups: discard / promotion of child groups not found")
    flow = FactFlow(CFG(fn))
    for d in dels:
        facts = norm_facts(flow.facts_at(d)) | enclosing_conditions(d)
        about = sorted(t for t, _p in facts if ".pending" in t or ".tasks" in t or ".child_groups" in t)
        ok = any(".tasks" in t or ".child_groups" in t for t in about)
        check.ob(rule, d, "WorkQueue._prune_empty_groups: a group is discarded and its children promoted", ok,
                 f"under facts about {about}" if ok else
                 f"decided by {about or 'nothing'} alone: a group whose tasks succeeded but whose values are still held back by another pending group is treated as empty")
