"""ID-PIN: identity-keyed containers keep their keys alive (DESIGN.md §3.2).

`id(x)` is only unique among *live* objects.  A container keyed by id(x) is
sound only if x cannot be collected while the entry exists.  The rule accepts
  (1) local pin: the store `M[..id(x)..] = V` keeps x (or the collection x was
      taken from) inside V;
  (2) origin pin: every object reaching the id() call is - by interprocedural
      origin analysis bounded at depth 6 - the result of a function that stores
      that result in a dict passed alongside (a cache accessor), so the owner of
      the cache keeps it alive for as long as the identity map exists.
Lookups (`get`, `in`, `del`, subscript loads) in a class whose store method pins
are discharged by that method.
"""

from __future__ import annotations

import ast

from sa.effects import Origins
from sa.loader import (
    FuncDef, Module, Repo, call_name, enclosing_def, enclosing_function, last_attr, module_of,
    parent, qualname_of, unparse, walk_body,
)  # fmt: skip
from sa.report import Check, node_text
from sa.resolve import CallGraph, ClassIndex


def id_calls(scope: ast.AST) -> list[tuple[ast.AST, ast.AST]]:
    """(call node, expression whose identity is taken).  map(id, xs) -> elements of xs."""
    out = []
    for n in ast.walk(scope):
        if isinstance(n, ast.Call) and isinstance(n.func, ast.Name):
            if n.func.id == "id" and len(n.args) == 1:
                out.append((n, n.args[0]))
            elif n.func.id == "map" and len(n.args) == 2 and isinstance(n.args[0], ast.Name) and n.args[0].id == "id":
                out.append((n, n.args[1]))
    return out


def _root_name(e: ast.AST) -> str | None:
    while isinstance(e, (ast.Attribute, ast.Subscript, ast.Starred)):
        e = e.value
    return e.id if isinstance(e, ast.Name) else None


def _stores_in(fn: ast.AST) -> list[tuple[ast.Assign, ast.Subscript]]:
    out = []
    for n in walk_body(fn):
        if isinstance(n, ast.Assign):
            for t in n.targets:
                if isinstance(t, ast.Subscript):
                    out.append((n, t))
    return out


def _key_exprs_with_id(fn: ast.AST) -> dict[str, ast.AST]:
    """local names assigned from an expression containing an id() call."""
    out = {}
    for n in walk_body(fn):
        if isinstance(n, ast.Assign) and len(n.targets) == 1 and isinstance(n.targets[0], ast.Name):
            if id_calls(n.value):
                out[n.targets[0].id] = n.value
    return out


def _kept_names(value: ast.AST) -> set[str]:
    """Names whose objects are *kept* by the stored value: members of a tuple/list/dict/set display,
    or wrapped by tuple()/list()/frozenset(); a name that is merely an argument of some other call is
    consumed by that call, not kept."""
    out: set[str] = set()
    stack = [value]
    while stack:
        n = stack.pop()
        if isinstance(n, ast.Name):
            out.add(n.id)
        elif isinstance(n, (ast.Tuple, ast.List, ast.Set)):
            stack.extend(n.elts)
        elif isinstance(n, ast.Dict):
            stack.extend(v for v in n.values if v is not None)
            stack.extend(k for k in n.keys if k is not None)
        elif isinstance(n, ast.Starred):
            stack.append(n.value)
        elif isinstance(n, ast.Call) and isinstance(n.func, ast.Name) and n.func.id in ("tuple", "list", "frozenset", "set"):
            stack.extend(n.args)
        elif isinstance(n, ast.Subscript):
            stack.append(n.value)
    return out


def local_pin(fn: ast.AST, subject: ast.AST) -> tuple[bool, str] | None:
    """Is there a store keyed by id(subject) in fn, and does its value keep subject alive?
    None = no store in this function."""
    root = _root_name(subject)
    keyvars = _key_exprs_with_id(fn)
    verdict = None
    for stmt, tgt in _stores_in(fn):
        key = tgt.slice
        uses_id = bool(id_calls(key)) or (isinstance(key, ast.Name) and key.id in keyvars)
        if not uses_id:
            continue
        names = _kept_names(stmt.value)
        if root is not None and root in names:
            return True, f"store `{node_text(stmt, 70)}` keeps `{root}` in the entry"
        verdict = (False, f"store `{node_text(stmt, 70)}` does not reference `{root}`: the keyed object can be "
                          f"collected and its id reused while the entry exists")
    return verdict


def origin_pin(repo: Repo, cg_sites: dict[ast.AST, list[tuple[ast.Call, ast.AST]]], fn: ast.AST, param: str,
               accessors: set[str], depth: int = 6, seen: set | None = None) -> tuple[bool, str]:
    """Every value reaching parameter `param` of fn comes from a cache accessor."""
    seen = seen if seen is not None else set()
    if (fn, param) in seen:
        return True, "recursive"
    seen.add((fn, param))
    if depth == 0:
        return False, f"origin of `{param}` not resolved within the inlining bound"
    sites = cg_sites.get(fn, [])
    if not sites:
        return False, f"no call site of {getattr(fn, 'name', '?')} found"
    params = [a.arg for a in fn.args.posonlyargs + fn.args.args]  # type: ignore[attr-defined]
    if params and params[0] == "self":
        params = params[1:]
    idx = params.index(param) if param in params else None
    for call, caller in sites:
        arg = None
        if idx is not None and idx < len(call.args):
            arg = call.args[idx]
        for k in call.keywords:
            if k.arg == param:
                arg = k.value
        if arg is None:
            return False, f"call at line {call.lineno} does not pass `{param}` positionally"
        if not isinstance(arg, ast.Name):
            return False, f"call at line {call.lineno} passes `{unparse(arg)}`"
        ok, why = _name_origin(repo, cg_sites, caller, arg.id, call, accessors, depth, seen)
        if not ok:
            return False, why
    return True, f"all {len(sites)} call site(s) pass accessor results"


def _name_origin(repo, cg_sites, fn, name, at, accessors, depth, seen) -> tuple[bool, str]:
    defs = Origins(fn).reaching(name, at)
    if not defs:
        return False, f"`{name}` has no reaching definition in {getattr(fn, 'name', '?')}"
    for d in defs:
        if d.kind == "param":
            ok, why = origin_pin(repo, cg_sites, fn, name, accessors, depth - 1, seen)
            if not ok:
                return False, why
        elif d.kind in ("assign", "unpack") and isinstance(d.value, ast.Call) and call_name(d.value) in accessors:
            continue
        elif d.kind in ("assign", "unpack") and isinstance(d.value, ast.Name):
            ok, why = _name_origin(repo, cg_sites, fn, d.value.id, d.node, accessors, depth, seen)
            if not ok:
                return False, why
        else:
            return False, (f"`{name}` in {getattr(fn, 'name', '?')} (line {getattr(d.node, 'lineno', '?')}) is "
                           f"{d.kind} `{unparse(d.value)[:50] if d.value is not None else ''}`, not an accessor result")
    return True, "accessor results"


def _receiver_is(recv: ast.AST, fn: ast.AST, cls_name: str) -> bool:
    """The receiver expression is a parameter annotated with the class (or unannotated: assume yes)."""
    if isinstance(recv, ast.Name):
        for a in fn.args.posonlyargs + fn.args.args + fn.args.kwonlyargs:  # type: ignore[attr-defined]
            if a.arg == recv.id:
                return a.annotation is None or unparse(a.annotation) == cls_name
        return True
    return True


def storing_accessors(mod: Module) -> set[str]:
    """Functions returning a value they stored into a dict parameter / self attribute."""
    out = set()
    for fn in mod.functions():
        stored = set()
        for n in walk_body(fn):
            if isinstance(n, ast.Assign) and isinstance(n.value, ast.Name):
                for t in n.targets:
                    if isinstance(t, ast.Subscript):
                        stored.add(n.value.id)
        rets = [n for n in walk_body(fn) if isinstance(n, ast.Return) and n.value is not None]
        if stored and rets and all(
            (isinstance(r.value, ast.Name) and r.value.id in stored)
            or (isinstance(r.value, ast.Call) and call_name(r.value) in out | {fn.name})  # type: ignore[attr-defined]
            for r in rets
        ):
            out.add(fn.name)  # type: ignore[attr-defined]
    # functions all of whose returns are accessor results
    changed = True
    while changed:
        changed = False
        for fn in mod.functions():
            if fn.name in out:  # type: ignore[attr-defined]
                continue
            rets = [n for n in walk_body(fn) if isinstance(n, ast.Return) and n.value is not None]
            if not rets:
                continue
            ok = True
            for r in rets:
                v = r.value
                if isinstance(v, ast.Call) and call_name(v) in out:
                    continue
                if isinstance(v, ast.Name):
                    # a cache read: x = cache.get(k); if x: return x
                    srcs = [d for d in Origins(fn).reaching(v.id, r)]
                    if srcs and all(d.kind == "assign" and isinstance(d.value, ast.Call) and last_attr(d.value) == "get" for d in srcs):
                        continue
                ok = False
            if ok:
                out.add(fn.name)  # type: ignore[attr-defined]
                changed = True
    return out


def check_id_pin(check: Check, repo: Repo, mods: list[Module], rule: str = "ID-PIN") -> int:
    check.rule(
        rule,
        "every id(x) used as (part of) a container key is pinned: the entry stored under it keeps x "
        "(or the collection x was read from) alive, or every x reaching the call is - by "
        "interprocedural origin analysis (depth 6) - the stored result of a cache accessor",
    )
    classes = ClassIndex(repo)
    cg = CallGraph(repo, classes)
    n = 0
    for mod in mods:
        sites: dict[ast.AST, list[tuple[ast.Call, ast.AST]]] | None = None
        accessors: set[str] | None = None
        for call, subject in id_calls(mod.tree):
            fn = enclosing_function(call)
            if fn is None:
                continue
            n += 1
            root = _root_name(subject)
            # (1) local pin in this function
            lp = local_pin(fn, subject)
            if lp is not None and lp[0]:
                check.ob(rule, call, f"{unparse(call)} in {qualname_of(call)}", True, lp[1])
                continue
            # (1b) lookup in a class whose store method pins
            cls = enclosing_def(fn)
            if lp is None and isinstance(cls, ast.ClassDef):
                pinned = None
                for m in cls.body:
                    if isinstance(m, FuncDef) and m is not fn:
                        for c2, s2 in id_calls(m):
                            r = local_pin(m, s2)
                            if r is not None:
                                pinned = (m.name, r) if pinned is None or not r[0] else pinned
                if pinned is not None and pinned[1][0]:
                    check.ob(rule, call, f"{unparse(call)} in {qualname_of(call)}", True,
                             f"lookup only; {cls.name}.{pinned[0]} pins: {pinned[1][1]}", nontrivial=False)
                    continue
            # (2) origin pin through the call graph of this module
            if sites is None:
                sites = {}
                for g in mod.functions():
                    for c, t in cg.callees(g):
                        sites.setdefault(t, []).append((c, g))
                accessors = storing_accessors(mod)
            ok, why = False, lp[1] if lp else "no store found"
            params = [a.arg for a in fn.args.posonlyargs + fn.args.args]  # type: ignore[attr-defined]
            if root in params and isinstance(cls, ast.ClassDef):
                # methods of an identity-keyed class: callers are `<obj>.method(x, ...)` anywhere in the module
                msites = []
                for g in mod.functions():
                    for c in ast.walk(g):
                        if isinstance(c, ast.Call) and isinstance(c.func, ast.Attribute) and c.func.attr == fn.name \
                                and enclosing_function(c) is g and _receiver_is(c.func.value, g, cls.name):  # type: ignore[attr-defined]
                            msites.append((c, g))
                if msites:
                    local_sites = dict(sites)
                    local_sites[fn] = msites
                    ok, why2 = origin_pin(repo, local_sites, fn, root, accessors or set())
                    why = f"{why}; origin analysis: {why2}" if not ok else f"origin pin: {why2} ({sorted(accessors or [])})"
            check.ob(rule, call, f"{unparse(call)} in {qualname_of(call)}", ok, why)
    return n
