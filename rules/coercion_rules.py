"""C15 / C16: domain guards of the built-in scalar coercers, sibling agreement of the
input coercers / validators, typed returns, enum domain, null rejection."""

from __future__ import annotations

import ast

from sa.cfg import CFG, no_exc
from sa.guards import Fact, FactFlow, expr_context_facts
from sa.loader import (
    AnalysisError, FuncDef, Module, Repo, ancestors, call_name, last_attr, parent, qualname_of, unparse, walk_body,
)  # fmt: skip
from sa.report import Check, node_text
from sa.resolve import ClassIndex
from sa.tables import Evaluator, NotStatic, module_const, resolve_name

INT32 = (-(2**31), 2**31 - 1)


def scalar_coercers(repo: Repo, module: str = "type.scalars") -> dict[str, dict[str, ast.AST]]:
    """Scalar name -> {role: function} read from the GraphQLScalarType(...) constructions."""
    mod = repo.mod(module)
    out: dict[str, dict[str, ast.AST]] = {}
    for stmt in mod.tree.body:
        if isinstance(stmt, ast.Assign) and isinstance(stmt.value, ast.Call) and call_name(stmt.value) == "GraphQLScalarType":
            kw = {k.arg: k.value for k in stmt.value.keywords}
            name = kw.get("name")
            if not isinstance(name, ast.Constant):
                continue
            roles = {}
            for role in ("coerce_output_value", "coerce_input_value", "coerce_input_literal", "value_to_literal",
                         "serialize", "parse_value", "parse_literal"):
                v = kw.get(role)
                if isinstance(v, ast.Name) and v.id in mod.defs:
                    roles[role] = mod.defs[v.id]
            out[name.value] = roles
    if set(out) != {"Int", "Float", "String", "Boolean", "ID"}:
        raise AnalysisError(f"built-in scalar constructions not found: {sorted(out)}")
    return out


class DomainChecker:
    def __init__(self, repo: Repo, mod: Module) -> None:
        self.repo = repo
        self.mod = mod
        self._memo: dict[tuple[ast.AST, str], tuple[bool, list[tuple[ast.AST, str]]]] = {}
        self._flows: dict[ast.AST, FactFlow] = {}
        lo = module_const(repo, "type.scalars", "GRAPHQL_MIN_INT")
        hi = module_const(repo, "type.scalars", "GRAPHQL_MAX_INT")
        self.bounds_ok = (lo, hi) == INT32
        self.bounds = (lo, hi)

    def flow(self, fn: ast.AST) -> FactFlow:
        if fn not in self._flows:
            self._flows[fn] = FactFlow(CFG(fn))
        return self._flows[fn]

    def check_function(self, fn: ast.AST, domain: str, depth: int = 0) -> tuple[bool, list[tuple[ast.AST, str]]]:
        """(all return paths in domain?, [(return node, reason)] for the offending ones)."""
        key = (fn, domain)
        if key in self._memo:
            return self._memo[key]
        self._memo[key] = (True, [])  # recursion guard
        bad: list[tuple[ast.AST, str]] = []
        n_ret = 0
        for n in walk_body(fn):
            if isinstance(n, ast.Return):
                n_ret += 1
                if n.value is None:
                    bad.append((n, "returns None"))
                    continue
                ok, why = self.expr_ok(n.value, n, fn, domain, depth)
                if not ok:
                    bad.append((n, why))
        if n_ret == 0:
            bad.append((fn, "no return statement"))
        self._memo[key] = (not bad, bad)
        return self._memo[key]

    def expr_ok(self, e: ast.AST, at: ast.AST, fn: ast.AST, domain: str, depth: int) -> tuple[bool, str]:
        if isinstance(e, ast.IfExp):
            a, wa = self.expr_ok(e.body, at, fn, domain, depth)
            b, wb = self.expr_ok(e.orelse, at, fn, domain, depth)
            return a and b, wa if not a else wb
        if isinstance(e, ast.Constant):
            v = e.value
            if domain == "int32":
                return (isinstance(v, int) and not isinstance(v, bool) and INT32[0] <= v <= INT32[1]), f"constant {v!r}"
            if domain == "finite":
                return isinstance(v, (int, float)) and not isinstance(v, bool) and v == v and abs(v) != float("inf"), f"constant {v!r}"
        if isinstance(e, ast.UnaryOp) and isinstance(e.op, ast.USub) and isinstance(e.operand, ast.Constant):
            return self.expr_ok(ast.Constant(-e.operand.value), at, fn, domain, depth)
        # helper call whose every return path is in the domain
        if isinstance(e, ast.Call) and isinstance(e.func, ast.Name) and e.func.id not in ("int", "float"):
            r = resolve_name(self.repo, self.mod, e.func.id)
            if r is not None and isinstance(r[0].defs.get(r[1]), FuncDef) and depth < 6:
                ok, bad = self.check_function(r[0].defs[r[1]], domain, depth + 1)
                return ok, (f"helper {e.func.id}() stays in the domain" if ok else
                            f"helper {e.func.id}() has an unguarded return: {bad[0][1]}")
            return False, f"call of unresolved function {unparse(e.func)}"
        facts = self.flow(fn).facts_at(at)
        subject = e
        conv = None
        if isinstance(e, ast.Call) and isinstance(e.func, ast.Name) and e.func.id in ("int", "float") and len(e.args) == 1:
            subject, conv = e.args[0], e.func.id
        stext = unparse(subject)
        if domain == "int32":
            for f in facts:
                if f.kind == "cond" and f.pol and _is_range_fact(f.expr, stext):
                    if not self.bounds_ok:
                        return False, f"GRAPHQL_MIN_INT/MAX_INT are {self.bounds}, not the 32-bit range"
                    return True, f"dominated by {f.text}"
            from sa.guards import Constraints, Lin
            cons = Constraints(facts)
            lo = cons.prove_ge0(Lin({stext: 1, "GRAPHQL_MIN_INT": -1}))
            hi = cons.prove_ge0(Lin({"GRAPHQL_MAX_INT": 1, stext: -1}))
            if lo and hi:
                if not self.bounds_ok:
                    return False, f"GRAPHQL_MIN_INT/MAX_INT are {self.bounds}, not the 32-bit range"
                return True, f"dominated by {lo} and {hi}"
            return False, f"`{unparse(e)}` is returned without a dominating GRAPHQL_MIN_INT <= {stext} <= GRAPHQL_MAX_INT test"
        if domain == "finite":
            for f in facts:
                if f.kind == "cond" and f.pol and f.text == f"isfinite({stext})":
                    return True, f"dominated by isfinite({stext})"
            # n = float(v) with v: int  -> finite or OverflowError
            src = subject
            for f in facts:
                if f.kind == "eq" and f.name == stext:
                    src = f.expr
            if isinstance(src, ast.Call) and isinstance(src.func, ast.Name) and src.func.id == "float" and len(src.args) == 1:
                arg = src.args[0]
                if isinstance(arg, ast.Name) and _param_annotation(fn, arg.id) == "int":
                    return True, f"float({arg.id}) with {arg.id}: int is finite or raises OverflowError"
            return False, f"`{unparse(e)}` is returned without a dominating isfinite({stext}) test"
        return False, "unknown domain"


def _is_range_fact(expr: ast.AST, subject: str) -> bool:
    if isinstance(expr, ast.Compare) and len(expr.ops) == 2 and all(isinstance(o, ast.LtE) for o in expr.ops):
        return (unparse(expr.left) == "GRAPHQL_MIN_INT" and unparse(expr.comparators[0]) == subject
                and unparse(expr.comparators[1]) == "GRAPHQL_MAX_INT")
    return False


def _param_annotation(fn: ast.AST, name: str) -> str | None:
    for a in fn.args.posonlyargs + fn.args.args + fn.args.kwonlyargs:  # type: ignore[attr-defined]
        if a.arg == name and a.annotation is not None:
            return unparse(a.annotation)
    return None


def domain_guards(check: Check, repo: Repo, roles: tuple[str, ...], rule: str = "DOMAIN-GUARDS") -> None:
    check.rule(
        rule,
        "every return path of an Int coercer returns a constant in the 32-bit range, a helper all of "
        "whose return paths do, or a value dominated by GRAPHQL_MIN_INT <= v <= GRAPHQL_MAX_INT (the "
        "constants are folded and must be -2^31 and 2^31-1); every return path of a Float coercer "
        "returns a finite constant, such a helper, a value dominated by isfinite(v), or float(v) with "
        "v: int",
    )
    mod = repo.mod("type.scalars")
    sc = scalar_coercers(repo)
    dc = DomainChecker(repo, mod)
    seen: set[ast.AST] = set()
    for scalar, domain in (("Int", "int32"), ("Float", "finite")):
        for role in roles:
            fn = sc[scalar].get(role)
            if fn is None:
                raise AnalysisError(f"{scalar}.{role} is not a module-level function")
            ok, bad = dc.check_function(fn, domain)
            check.ob(rule, fn, f"{scalar}.{role} = {fn.name} stays in {domain}", ok,  # type: ignore[attr-defined]
                     "all return paths guarded" if ok else "; ".join(f"line {getattr(n, 'lineno', '?')}: {w}" for n, w in bad))
            seen.add(fn)
    # helpers reached
    for (fn, domain), (ok, bad) in list(dc._memo.items()):
        if fn not in seen:
            check.ob(rule, fn, f"helper {fn.name} stays in {domain}", ok,  # type: ignore[attr-defined]
                     "all return paths guarded" if ok else "; ".join(f"line {getattr(n, 'lineno', '?')}: {w}" for n, w in bad))


def bool_exclusion(check: Check, repo: Repo, funcs: list[ast.AST], rule: str = "BOOL-EXCLUSION") -> None:
    check.rule(
        rule,
        "bool is a subclass of int: every acceptance test isinstance(x, int | (int, float)) in a "
        "coercer is conjoined with `not isinstance(x, bool)` or dominated by an earlier "
        "isinstance(x, bool) branch that returns/raises",
    )
    flows: dict[ast.AST, FactFlow] = {}
    for fn in funcs:
        for n in walk_body(fn):
            if not (isinstance(n, ast.Call) and call_name(n) == "isinstance" and len(n.args) == 2):
                continue
            tnames = {x.id for x in ast.walk(n.args[1]) if isinstance(x, ast.Name)}
            if "int" not in tnames:
                continue
            x = unparse(n.args[0])
            want = f"isinstance({x}, bool)"
            p = parent(n)
            ok, why = False, ""
            if isinstance(p, ast.BoolOp) and isinstance(p.op, ast.And) and any(unparse(v) == f"not {want}" for v in p.values):
                ok, why = True, "conjoined with `not isinstance(.., bool)`"
            if isinstance(p, ast.UnaryOp) and isinstance(p.op, ast.Not):
                ok, why = True, "negated test (rejection side)"
            if not ok:
                if fn not in flows:
                    flows[fn] = FactFlow(CFG(fn))
                for f in flows[fn].facts_at(n):
                    if f.kind == "cond" and not f.pol and f.text == want:
                        ok, why = True, "dominated by the false edge of an earlier isinstance(.., bool) test"
            check.ob(rule, n, f"{unparse(n)} in {qualname_of(n)}", ok,
                     why or f"accepts True/False as a number: no `not {want}` conjunct and no dominating bool branch")


def typed_returns(check: Check, repo: Repo, rule: str = "TYPED-RETURNS") -> None:
    from rules.write_effect import top_heads
    from sa.mtypes import MTypes

    check.rule(
        rule,
        "mypy's inferred type of every return expression of the output coercers is within the "
        "scalar's JSON domain (str for String/ID, bool for Boolean, int for Int, int|float for Float) "
        "and never Any",
    )
    mt = MTypes.get(repo)
    sc = scalar_coercers(repo)
    want = {"String": {"builtins.str"}, "ID": {"builtins.str"}, "Boolean": {"builtins.bool"},
            "Int": {"builtins.int"}, "Float": {"builtins.int", "builtins.float"}}
    mod = repo.mod("type.scalars")
    for scalar, allowed in want.items():
        fn = sc[scalar].get("coerce_output_value")
        if fn is None:
            raise AnalysisError(f"{scalar}.coerce_output_value missing")
        todo = [fn]
        done: set[ast.AST] = set()
        while todo:
            f = todo.pop()
            if f in done:
                continue
            done.add(f)
            for n in walk_body(f):
                if isinstance(n, ast.Return) and n.value is not None:
                    v = n.value
                    if isinstance(v, ast.Call) and isinstance(v.func, ast.Name) and v.func.id in mod.defs \
                            and isinstance(mod.defs[v.func.id], FuncDef):
                        todo.append(mod.defs[v.func.id])
                    ty = mt.type_of(v)
                    if ty is None and isinstance(v, ast.Constant):
                        ty = f"builtins.{type(v.value).__name__}"
                    heads = top_heads(ty) if ty else set()
                    ok = bool(heads) and heads <= allowed
                    check.ob(rule, n, f"{scalar}: return {node_text(v, 50)} in {f.name}", ok,  # type: ignore[attr-defined]
                             f"mypy type {ty}" if ok else f"mypy type {ty or 'Any/unknown'} is outside {sorted(allowed)}")
    check.floor(rule, 20, "return expressions of output coercers")


def enum_domain(check: Check, repo: Repo, rule: str = "ENUM-DOMAIN") -> None:
    check.rule(
        rule,
        "GraphQLEnumType.coerce_output_value returns only value names: _value_lookup is filled only "
        "with `name` keys of self.values; the unhashable scan returns the enum_name of the iteration "
        "whose value compared equal; every other path raises",
    )
    fn = repo.func("type.definition", "GraphQLEnumType.coerce_output_value")
    rets = [n for n in walk_body(fn) if isinstance(n, ast.Return)]
    for r in rets:
        txt = unparse(r.value) if r.value is not None else "None"
        ok = False
        why = ""
        lookups = ("self._value_lookup[output_value]", "self._value_lookup.get(output_value)")
        if txt in lookups:
            ok, why = True, "lookup value (checked below to hold names only)"
        elif isinstance(r.value, ast.Name) and [unparse(d.value) for d in walk_body(fn) if isinstance(d, ast.Assign)
                                                and any(isinstance(t, ast.Name) and t.id == r.value.id for t in d.targets)] in ([lookups[0]], [lookups[1]]):
            facts = {(f.text, f.pol) for f in FactFlow(CFG(fn)).facts_at(r) if f.kind == "cond"}
            name = r.value.id
            nonnull = (f"{name} is not None", True) in facts or (f"{name} is None", False) in facts or (name, True) in facts
            ok = txt != "" and (lookups[0] in [unparse(d.value) for d in walk_body(fn) if isinstance(d, ast.Assign)] or nonnull)
            why = "local bound to the lookup value" + (" and known not to be None" if nonnull else "") if ok else "a missing entry (None) would be returned as a name"
        elif isinstance(r.value, ast.Name):
            # must be the key variable of a loop over self.values.items() guarded by an equality test on the value
            loop = next((a for a in _ancestors(r) if isinstance(a, ast.For)), None)
            if loop is not None and unparse(loop.iter) == "self.values.items()" and isinstance(loop.target, ast.Tuple) \
                    and isinstance(loop.target.elts[0], ast.Name) and loop.target.elts[0].id == r.value.id:
                g = parent(r)
                if isinstance(g, ast.If) and "== output_value" in unparse(g.test):
                    ok, why = True, "name of the entry whose value equals the output value"
        check.ob(rule, r, f"return {txt}", ok, why or "returns something that is not a value name")
    lk = repo.func("type.definition", "GraphQLEnumType._value_lookup")
    stores = [n for n in walk_body(lk) if isinstance(n, ast.Assign) and isinstance(n.targets[0], ast.Subscript)
              and unparse(n.targets[0].value) == "lookup"]
    loop = next((n for n in walk_body(lk) if isinstance(n, ast.For)), None)
    ok = bool(stores) and loop is not None and unparse(loop.iter) == "self.values.items()" and all(
        isinstance(s.value, ast.Name) and isinstance(loop.target, ast.Tuple) and s.value.id == unparse(loop.target.elts[0])
        for s in stores)
    check.ob(rule, lk, "_value_lookup maps values to names of self.values", ok, f"{[unparse(s) for s in stores]}")
    # falls through to raise
    cfg = CFG(fn)
    last = fn.body[-1]
    check.ob(rule, fn, "no match raises GraphQLError", isinstance(last, ast.Raise) and "GraphQLError" in unparse(last), unparse(last)[:60])


def _ancestors(n: ast.AST):
    p = parent(n)
    while p is not None:
        yield p
        p = parent(p)


def null_reject(check: Check, repo: Repo, rule: str = "NULL-REJECT") -> None:
    check.rule(rule, "complete_leaf_value raises when the coerced value is None or Undefined, before its only return; "
                     "the value returned is the coerced one")
    fn = repo.func("execution.executor", "Executor.complete_leaf_value")
    rets = [n for n in walk_body(fn) if isinstance(n, ast.Return)]
    flow = FactFlow(CFG(fn))
    ok = len(rets) == 1 and isinstance(rets[0].value, ast.Name)
    why = "single return of a name"
    if ok:
        nm = rets[0].value.id
        facts = {(f.text, f.pol) for f in flow.facts_at(rets[0])}
        ok = (f"{nm} is Undefined", False) in facts and (f"{nm} is None", False) in facts
        why = f"facts at return: {sorted(t for t, p in facts if not p)}"
        src = [f for f in flow.facts_at(rets[0]) if f.kind == "eq" and f.name == nm]
        ok = ok and any("coerce_output_value" in f.text for f in src) if src else ok
    check.ob(rule, rets[0] if rets else fn, "coerced leaf value is neither None nor Undefined at the return", ok, why)


# -- SIBLING-ATOMS -------------------------------------------------------------------------------

REJECT_CALLS = ("report_invalid_value", "report_invalid_literal")


def _branch(fn: ast.AST, pred: str) -> ast.If | None:
    for n in walk_body(fn):
        if isinstance(n, ast.If) and isinstance(n.test, ast.Call) and call_name(n.test) == pred and n.test.args \
                and unparse(n.test.args[0]) == "type_":
            # top-level kind dispatch only (not nested under a VariableNode test etc.)
            p = parent(n)
            if p is fn or (isinstance(p, ast.If) and n in p.orelse):
                return n
    return None


def _has(nodes, pred) -> bool:
    for s in nodes:
        for n in ast.walk(s):
            if pred(n):
                return True
    return False


def coercion_atoms(fn: ast.AST) -> dict[str, bool]:
    name = fn.name  # type: ignore[attr-defined]
    nn = _branch(fn, "is_non_null_type")
    li = _branch(fn, "is_list_type")
    ob = _branch(fn, "is_input_object_type")
    atoms: dict[str, bool] = {}

    def is_null_test(n: ast.AST) -> bool:
        if isinstance(n, ast.Compare) and len(n.ops) == 1 and isinstance(n.ops[0], ast.Is):
            return unparse(n.comparators[0]) in ("None", "Undefined")
        return isinstance(n, ast.Call) and call_name(n) == "isinstance" and len(n.args) == 2 and unparse(n.args[1]) == "NullValueNode"

    def recursion(n: ast.AST) -> bool:
        return isinstance(n, ast.Call) and call_name(n) == name

    atoms["nonnull.branch"] = nn is not None
    atoms["nonnull.null-rejected"] = nn is not None and _has(nn.body, lambda n: isinstance(n, ast.If) and _has([n.test], is_null_test))
    atoms["nonnull.recurse"] = nn is not None and _has(nn.body, recursion)
    atoms["list.branch"] = li is not None
    atoms["list.singleton"] = li is not None and _has(li.body, lambda n: isinstance(n, ast.If) and isinstance(n.test, ast.UnaryOp)
                                                      and isinstance(n.test.op, ast.Not) and (
                                                          "is_iterable(" in unparse(n.test) or "ListValueNode" in unparse(n.test)))
    atoms["list.recurse-both"] = li is not None and sum(1 for s in li.body for n in ast.walk(s) if recursion(n)) >= 2
    atoms["object.branch"] = ob is not None
    body = ob.body if ob is not None else []
    atoms["object.not-an-object"] = _has(body, lambda n: isinstance(n, ast.If) and isinstance(n.test, ast.UnaryOp)
                                         and isinstance(n.test.op, ast.Not) and "isinstance(" in unparse(n.test))
    # `name not in field_defs` -> report, or `if name in field_defs: ... else: report`
    atoms["object.unknown-field"] = _has(body, lambda n: isinstance(n, ast.Compare) and isinstance(n.ops[0], ast.NotIn)
                                         and unparse(n.comparators[0]) in ("fields", "field_defs")) or _has(
        body, lambda n: isinstance(n, ast.If) and isinstance(n.test, ast.Compare) and isinstance(n.test.ops[0], ast.In)
        and unparse(n.test.comparators[0]) in ("fields", "field_defs") and bool(n.orelse)
        and any(isinstance(x, (ast.Call, ast.Return)) for s_ in n.orelse for x in ast.walk(s_)))
    atoms["object.required-field"] = _has(body, lambda n: isinstance(n, ast.Call) and call_name(n) == "is_required_input_field")
    atoms["object.default-applied"] = _has(body, lambda n: isinstance(n, ast.Call) and call_name(n) == "coerce_default_value")
    atoms["object.recurse"] = _has(body, recursion)
    # `if type_.is_one_of:` with the conditions in its body, or `if type_.is_one_of and (<conditions>):`
    one_ofs = [n for s in body for n in ast.walk(s) if isinstance(n, ast.If) and (parent(n) is ob) and (
        unparse(n.test) == "type_.is_one_of" or (
            isinstance(n.test, ast.BoolOp) and isinstance(n.test.op, ast.And) and any(unparse(v) == "type_.is_one_of" for v in n.test.values)))]
    atoms["oneof.branch"] = bool(one_ofs)
    ob_body = [s for o in one_ofs for s in o.body] + [o.test for o in one_ofs]
    # `len(keys) != 1` -> reject, or the positive spelling `len(keys) == 1` held in a flag that is then negated
    atoms["oneof.count-is-one"] = _has(ob_body, lambda n: isinstance(n, ast.Compare) and isinstance(n.ops[0], (ast.NotEq, ast.Eq))
                                       and unparse(n.comparators[0]) == "1" and "len(" in unparse(n.left))
    atoms["oneof.null-rejected"] = _has(ob_body, is_null_test)
    tries = [n for n in walk_body(fn) if isinstance(n, ast.Try) and _has(n.body, lambda c: isinstance(c, ast.Call) and last_attr(c) in (
        "coerce_input_value", "coerce_input_literal", "parse_literal", "parse_value"))]
    atoms["leaf.try-except-Exception"] = any(any(h.type is not None and unparse(h.type) == "Exception" for h in t.handlers) for t in tries)
    atoms["leaf.assert-leaf"] = _has(fn.body, lambda n: isinstance(n, ast.Call) and call_name(n) == "assert_leaf_type")  # type: ignore[attr-defined]
    return atoms


def sibling_atoms(check: Check, repo: Repo, rule: str = "SIBLING-ATOMS") -> None:
    check.rule(
        rule,
        "feature-presence matrix over the sibling implementations of input coercion/validation "
        "(coerce_input_value, validate_input_value_impl | coerce_input_literal, "
        "validate_input_literal_impl): each rejection atom (null under non-null, list singleton + "
        "item recursion, not-an-object, unknown field, missing required field, OneOf count != 1, OneOf "
        "null, leaf call under try/except Exception) is present in every sibling; defaults are applied "
        "by the coercers only",
    )
    fams = {
        "value": [("utilities.coerce_input_value", "coerce_input_value"), ("utilities.validate_input_value", "validate_input_value_impl")],
        "literal": [("utilities.coerce_input_value", "coerce_input_literal"), ("utilities.validate_input_value", "validate_input_literal_impl")],
    }
    for fam, members in fams.items():
        rows = {}
        for mn, fnname in members:
            fn = repo.func(mn, fnname)
            rows[fnname] = (fn, coercion_atoms(fn))
        atoms = sorted(next(iter(rows.values()))[1])
        for a in atoms:
            for fnname, (fn, row) in rows.items():
                if a == "object.default-applied":
                    want = fnname.startswith("coerce_")
                    ok = row[a] == want
                    why = "defaults are applied by coercers only" if ok else (
                        "coercer does not apply field defaults" if want else "validator applies defaults")
                else:
                    ok = row[a]
                    others = [o for o, (_, r) in rows.items() if o != fnname and r[a]]
                    why = "present" if ok else f"atom missing here but handled by sibling(s) {others}: they disagree on inputs exercising it" if others else "atom missing in the whole family"
                check.ob(rule, fn, f"{fam} family: {fnname} / {a}", ok, why)
    check.floor(rule, 60, "matrix cells")


def regex_fullmatch(check: Check, repo: Repo, modules: list[str], rule: str = "REGEX-ANCHOR") -> None:
    """A `$`-anchored pattern used with .match() to classify a whole string also accepts a
    trailing newline (Python's `$` matches before a final LF; JavaScript's does not)."""
    check.rule(
        rule,
        "a regular expression used to classify a whole string value (re.match with ^...$) must not "
        "accept a trailing newline: it ends with \\Z (or is applied with fullmatch), because Python's `$` "
        "also matches before a final line feed",
    )
    for mn in modules:
        mod = repo.mod(mn)
        for stmt in mod.tree.body:
            if isinstance(stmt, ast.Assign) and isinstance(stmt.value, ast.Call) and call_name(stmt.value) in ("re.compile", "compile"):
                try:
                    pat = Evaluator(repo, mod).eval(stmt.value.args[0])
                except NotStatic:
                    continue
                name = unparse(stmt.targets[0])
                if not (isinstance(pat, str) and pat.startswith("^")):
                    continue
                uses = [n for n in ast.walk(mod.tree) if isinstance(n, ast.Call) and isinstance(n.func, ast.Attribute)
                        and unparse(n.func.value) == name]
                for u in uses:
                    meth = u.func.attr  # type: ignore[attr-defined]
                    ok = meth == "fullmatch" or pat.endswith("\\Z") or not pat.endswith("$")
                    check.ob(rule, u, f"{name}.{meth}(...) with {pat!r} in {qualname_of(u)}", ok,
                             "whole-string match" if ok else f"pattern {pat!r} with .{meth}() also accepts the string followed by a line feed")


# -- further sibling agreement (added after seeded changes C15-1..3 were missed) -----------------


def sibling_details(check: Check, repo: Repo, rule: str = "SIBLING-DETAILS") -> None:
    check.rule(
        rule,
        "beyond presence of the atoms, siblings agree on their parameters: (a) the class tested in the "
        "'not an object' rejection is the same in coerce_input_value and validate_input_value_impl "
        "(dict vs dict) and in the literal pair (ObjectValueNode); (b) the sentinel that means 'field "
        "absent' in the input-object branch is exactly Undefined in every value-family sibling incl. "
        "value_to_literal (None is a provided null); (c) coercion and validation select the fragment "
        "variable scope by membership in the same attribute of fragment_variable_values",
    )
    fams = {
        "value": [("utilities.coerce_input_value", "coerce_input_value"),
                  ("utilities.validate_input_value", "validate_input_value_impl")],
        "literal": [("utilities.coerce_input_value", "coerce_input_literal"),
                    ("utilities.validate_input_value", "validate_input_literal_impl")],
    }
    # (a)
    for fam, members in fams.items():
        seen = {}
        for mn, fnname in members:
            fn = repo.func(mn, fnname)
            ob = _branch(fn, "is_input_object_type")
            classes = set()
            if ob is not None:
                for n in ob.body:
                    if isinstance(n, ast.If) and isinstance(n.test, ast.UnaryOp) and isinstance(n.test.op, ast.Not) \
                            and isinstance(n.test.operand, ast.Call) and call_name(n.test.operand) == "isinstance":
                        classes.add(unparse(n.test.operand.args[1]))
            seen[fnname] = (fn, classes)
        allc = [c for _, c in seen.values()]
        agree = all(c == allc[0] and len(c) == 1 for c in allc)
        for fnname, (fn, classes) in seen.items():
            check.ob(rule, fn, f"{fam} family: object class tested by {fnname}", agree,
                     f"{sorted(classes)}" if agree else f"siblings test different classes: { {k: sorted(v[1]) for k, v in seen.items()} }")
    # (b)
    vfam = fams["value"] + [("utilities.value_to_literal", "value_to_literal")]
    for mn, fnname in vfam:
        fn = repo.func(mn, fnname)
        ob = _branch(fn, "is_input_object_type")
        sentinels: set[str] = set()
        if ob is not None:
            for s in ob.body:
                for n in ast.walk(s):
                    if isinstance(n, ast.If):
                        for c in ast.walk(n.test):
                            if isinstance(c, ast.Compare) and len(c.ops) == 1 and isinstance(c.ops[0], ast.Is) \
                                    and unparse(c.left) == "field_value":
                                sentinels.add(unparse(c.comparators[0]))
        ok = sentinels == {"Undefined"}
        check.ob(rule, fn, f"value family: {fnname} treats exactly Undefined as an absent field", ok,
                 f"`field_value is X` tests with X in {sorted(sentinels)}")
    # (c)
    coer = repo.func("utilities.coerce_input_value", "get_coerced_variable_value")
    vali = repo.func("utilities.validate_input_value", "get_scoped_variable_values")

    def scope_attr(fn: ast.AST) -> set[str]:
        out = set()
        for n in walk_body(fn):
            if isinstance(n, ast.Compare) and len(n.ops) == 1 and isinstance(n.ops[0], ast.In):
                r = n.comparators[0]
                if isinstance(r, ast.Attribute) and unparse(r.value) == "fragment_variable_values":
                    out.add(r.attr)
        return out

    a, b = scope_attr(coer), scope_attr(vali)
    ok = a == b and len(a) == 1
    for fn in (coer, vali):
        check.ob(rule, fn, f"fragment variable scope chosen by membership in fragment_variable_values.<attr> ({fn.name})", ok,  # type: ignore[attr-defined]
                 f"coercion uses {sorted(a)}, validation uses {sorted(b)}")


# -- integers never travel through a float ------------------------------------------------------


def exact_int(check: Check, repo: Repo, rule: str = "EXACT-INT") -> None:
    check.rule(
        rule,
        "in type/scalars.py a function that produces an integer (return annotation int) or the digits of "
        "one (the ID coercers, annotation str) never computes its result from `float(<argument>)`: Python "
        "ints are unbounded and float() rounds above 2**53, so an ID such as 9007199254740993 would be "
        "emitted as a different number without any error",
    )
    mod = repo.mod("type.scalars")
    n = 0
    for fn in mod.functions():
        if parent(fn) is not mod.tree:
            continue
        ret = unparse(fn.returns) if fn.returns is not None else ""
        is_int = ret == "int"
        is_id = ret == "str" and "id" in fn.name.split("_")
        if not (is_int or is_id):
            continue
        params = {a.arg: (unparse(a.annotation) if a.annotation is not None else "") for a in fn.args.args}
        tainted: set[str] = set()

        def lossy(e: ast.AST) -> ast.Call | None:
            for c in ast.walk(e):
                if isinstance(c, ast.Call) and isinstance(c.func, ast.Name) and c.func.id == "float" and c.args:
                    src = {x.id for x in ast.walk(c.args[0]) if isinstance(x, ast.Name)}
                    if any(s in tainted or (s in params and params[s] != "str") for s in src):
                        return c
            return None

        changed = True
        while changed:
            changed = False
            for s in walk_body(fn):
                if isinstance(s, ast.Assign) and len(s.targets) == 1 and isinstance(s.targets[0], ast.Name):
                    names = {x.id for x in ast.walk(s.value) if isinstance(x, ast.Name)}
                    if (lossy(s.value) is not None or names & tainted) and s.targets[0].id not in tainted:
                        tainted.add(s.targets[0].id)
                        changed = True
        rets = [r for r in walk_body(fn) if isinstance(r, ast.Return) and r.value is not None]
        bad = []
        for r in rets:
            names = {x.id for x in ast.walk(r.value) if isinstance(x, ast.Name)}
            if lossy(r.value) is not None or names & tainted:
                bad.append(r)
        n += 1
        check.ob(rule, fn, f"{fn.name} -> {ret}", not bad,
                 "result computed from the argument itself" if not bad else
                 f"`{node_text(bad[0], 60)}` depends on float(<argument>) ({sorted(tainted)}): integers above 2**53 are silently rounded")
    check.floor(rule, 6, "integer / ID producing functions in type/scalars.py")


# -- requiredness of an input field is decided in one way --------------------------------------------

OBJECT_SIBLINGS = [
    ("utilities.coerce_input_value", "coerce_input_value"),
    ("utilities.coerce_input_value", "coerce_input_literal"),
    ("utilities.validate_input_value", "validate_input_value_impl"),
    ("utilities.validate_input_value", "validate_input_literal_impl"),
    ("utilities.value_to_literal", "value_to_literal"),
]


def field_requiredness(check: Check, repo: Repo, rule: str = "FIELD-REQUIREDNESS") -> None:
    check.rule(
        rule,
        "the five sibling walks over input object fields (coerce value / coerce literal / validate value / "
        "validate literal / value_to_literal) decide what to do with a field that is not provided - or whose "
        "variable is not provided - by is_required_input_field(field) and by nothing else: a test of "
        "is_non_null_type(field.type) ignores the field's default, so a non-null field with a default is "
        "rejected (or loses its default) in one sibling and accepted in the others",
    )
    for mn, fname in OBJECT_SIBLINGS:
        fn = repo.func(mn, fname)
        uses = [c for c in walk_body(fn) if isinstance(c, ast.Call) and call_name(c) == "is_required_input_field"]
        check.ob(rule, fn, f"{fname}: omitted field decided by is_required_input_field", bool(uses),
                 f"{len(uses)} test(s)" if uses else "no is_required_input_field test: the omitted-field decision is made some other way than in the siblings")
        other = [
            c for c in walk_body(fn)
            if isinstance(c, ast.Call) and call_name(c) in ("is_non_null_type", "is_nullable_type") and c.args
            and isinstance(c.args[0], ast.Attribute) and c.args[0].attr == "type" and isinstance(c.args[0].value, ast.Name)
            and c.args[0].value.id in ("field", "field_def", "input_field")
        ]
        check.ob(rule, fn, f"{fname}: no nullability test of field.type", not other,
                 "none" if not other else f"`{unparse(other[0])}` decides on the field's nullability alone (line {other[0].lineno}); siblings use is_required_input_field, which also looks at the default")
        # ... nor of one of the two spellings of its default alone (`default=` and the deprecated `default_value=`)
        own_default = [
            a for t in walk_body(fn) if isinstance(t, (ast.If, ast.IfExp, ast.While))
            for a in ast.walk(t.test) if isinstance(a, ast.Attribute) and a.attr in ("default", "default_value")
            and isinstance(a.value, ast.Name) and a.value.id in ("field", "field_def", "input_field")
        ]
        check.ob(rule, fn, f"{fname}: no test of field.default / field.default_value", not own_default,
                 "none" if not own_default else f"`{unparse(own_default[0])}` is tested directly (line {own_default[0].lineno}): a default given in the other spelling "
                 "(default= vs. default_value=) is missed; is_required_input_field looks at both")


def variable_arm(check: Check, repo: Repo, rule: str = "VARIABLE-ARM") -> None:
    check.rule(
        rule,
        "in coerce_input_literal the runtime value of a variable enters the result only through the arm "
        "`isinstance(value_node, VariableNode)` on the function's own node parameter - the arm that rejects "
        "null under a non-null type; nested positions reach it by recursion. A second place that fetches "
        "get_coerced_variable_value for an item or a field bypasses that check (null under non-null)",
    )
    fn = repo.func("utilities.coerce_input_value", "coerce_input_literal")
    node_param = fn.args.args[0].arg
    calls = [c for c in walk_body(fn) if isinstance(c, ast.Call) and call_name(c) == "get_coerced_variable_value"]
    if not calls:
        raise AnalysisError("coerce_input_literal: get_coerced_variable_value is not called")
    for c in calls:
        guards = [a for a in ancestors(c) if isinstance(a, ast.If)]
        top = guards[-1] if guards else None
        ok = top is not None and parent(top) is fn and unparse(top.test) == f"isinstance({node_param}, VariableNode)"
        check.ob(rule, c, f"coerce_input_literal: {node_text(c, 60)}", ok,
                 f"inside the top-level arm `isinstance({node_param}, VariableNode)`" if ok else
                 f"variable value fetched under `{unparse(guards[0].test) if guards else 'no test'}`: this position is not covered by the null-under-non-null rejection of the variable arm")
    arm = next((s for s in fn.body if isinstance(s, ast.If) and unparse(s.test) == f"isinstance({node_param}, VariableNode)"), None)
    has_null_check = arm is not None and any(
        isinstance(c, ast.Call) and call_name(c) == "is_non_null_type" for c in ast.walk(arm)
    ) and any(isinstance(c, ast.Compare) and "None" in unparse(c) for c in ast.walk(arm))
    check.ob(rule, arm or fn, "variable arm rejects null for a non-null type", has_null_check,
             "tests `is None` together with is_non_null_type" if has_null_check else "the variable arm lacks the null / non-null test")


def int_atoms(check: Check, repo: Repo, rule: str = "INT-ATOMS") -> None:
    check.rule(
        rule,
        "the three value-side functions of Int (result coercion, input value coercion, value -> literal) "
        "accept the same values: each of them - in its own body or in the helpers it calls - excludes bool, "
        "decides integrality of a float by comparing int(x) with x (or x.is_integer()), requires finiteness "
        "and tests the 32-bit range. A sibling without the integrality test cannot accept 5.0 where the "
        "others do, so a value accepted by input coercion has no literal (round trip fails)",
    )
    sc = scalar_coercers(repo)
    mod = repo.mod("type.scalars")
    roles = ("coerce_output_value", "coerce_input_value", "value_to_literal")
    for role in roles:
        fn = sc["Int"].get(role)
        if fn is None:
            raise AnalysisError(f"Int.{role} is not a module-level function")
        bodies = [fn]
        for _ in range(2):
            for b in list(bodies):
                for c in walk_body(b):
                    if isinstance(c, ast.Call) and isinstance(c.func, ast.Name):
                        r = resolve_name(repo, module_of_fn(repo, b), c.func.id)
                        if r is not None and isinstance(r[0].defs.get(r[1]), FuncDef) and r[0].defs[r[1]] not in bodies:
                            bodies.append(r[0].defs[r[1]])
        text_nodes = [n for b in bodies for n in walk_body(b)]
        atoms = {
            "excludes bool": any(isinstance(n, ast.Call) and call_name(n) == "isinstance" and len(n.args) == 2 and "bool" in unparse(n.args[1]) for n in text_nodes),
            "integrality (int(x) vs x)": any(
                (isinstance(n, ast.Compare) and any(isinstance(x, ast.Call) and call_name(x) == "int" for x in [n.left, *n.comparators])
                 and isinstance(n.ops[0], (ast.Eq, ast.NotEq)))
                or (isinstance(n, ast.Call) and isinstance(n.func, ast.Attribute) and n.func.attr == "is_integer")
                for n in text_nodes),
            "finiteness": any(isinstance(n, ast.Call) and call_name(n) in ("isfinite", "math.isfinite") for n in text_nodes)
            or any(isinstance(n, ast.Call) and isinstance(n.func, ast.Attribute) and n.func.attr == "is_integer" for n in text_nodes),
            "32-bit range": any(isinstance(n, ast.Compare) and "GRAPHQL_MIN_INT" in unparse(n) and "GRAPHQL_MAX_INT" in unparse(n) for n in text_nodes),
        }
        for a, ok in atoms.items():
            check.ob(rule, fn, f"Int.{role} = {fn.name}: {a}", ok,
                     f"present (in {[b.name for b in bodies][:4]})" if ok else
                     f"neither {fn.name} nor its helpers {[b.name for b in bodies[1:]][:4]} contain this test; the sibling roles do")


def module_of_fn(repo: Repo, fn: ast.AST) -> Module:
    from sa.loader import module_of

    return module_of(fn)


def digit_class(check: Check, repo: Repo, modules: list[str], rule: str = "DIGIT-CLASS") -> None:
    check.rule(
        rule,
        "whether a string is an integer literal is decided by the anchored pattern -?(0|[1-9][0-9]*) only: "
        "str.isdigit / isdecimal / isnumeric are not used in the scalar and literal modules - they accept "
        "leading zeros ('007' is not an IntValue and does not re-parse) and non-ASCII digits",
    )
    n = 0
    for mn in modules:
        mod = repo.mod(mn)
        bad = [c for c in ast.walk(mod.tree) if isinstance(c, ast.Call) and isinstance(c.func, ast.Attribute) and c.func.attr in ("isdigit", "isdecimal", "isnumeric")]
        for c in bad:
            check.ob(rule, c, f"{node_text(c, 60)} in {qualname_of(c)}", False, f"str.{c.func.attr}() accepts '007', '٣' and '²'")
            n += 1
        if not bad:
            check.ob(rule, (mod.rel, 0, "<module>"), f"{mn}: no Unicode digit predicate", True, "none", nontrivial=False)
            n += 1
    # the pattern that is used instead
    for mn in ("type.scalars",):
        mod = repo.mod(mn)
        pat = mod.toplevel_assign("_re_integer_string")
        if pat is None:
            continue  # the pattern is an implementation choice; only its misuse is a finding
        try:
            text = Evaluator(repo, mod).eval(pat.args[0])  # type: ignore[attr-defined]
        except NotStatic:
            text = None
        ok = isinstance(text, str) and text.startswith("^") and text.endswith("\\Z") and "[1-9]" in text
        check.ob(rule, pat, f"_re_integer_string = {text!r}", ok, "canonical integer, anchored" if ok else "pattern no longer excludes leading zeros / trailing text")


def undefined_never_completes(check: Check, repo: Repo, rule: str = "UNDEFINED-RAISES") -> None:
    check.rule(
        rule,
        "execution.values.coerce_argument: once coerce_input_literal has answered Undefined (the literal is not "
        "a value of the argument's type) no path reaches the normal end of the function - every path ends in a "
        "raise (the explicit one after validate_input_literal: the validator is a *different* walk and may "
        "report nothing where the coercer refused). Falling off the end would return argument values that "
        "silently lack a required argument",
    )
    fn = repo.func("execution.values", "coerce_argument")
    cfg = CFG(fn)
    tests = [nd for nd in cfg.nodes if nd.kind == "test" and nd.ast is not None and "coerced_value" in unparse(nd.ast) and "Undefined" in unparse(nd.ast)]
    if not tests:
        raise AnalysisError("coerce_argument: test of coerced_value against Undefined not found")
    n = 0
    for t in tests:
        txt = unparse(t.ast)
        undefined_when = not (" is not " in txt or "!=" in txt)
        for m, label in cfg.succ.get(t, []):
            if not (label and label[0] == "cond" and label[2] == undefined_when):
                continue
            n += 1
            reach = cfg.reachable([m], follow=no_exc)
            ok = cfg.exit not in reach
            check.ob(rule, t.ast, f"coerce_argument: branch `{txt}` ({'true' if undefined_when else 'false'} edge)", ok,
                     "every path from here ends in a raise" if ok else
                     "the function can complete normally although the argument could not be coerced")
    if n == 0:
        raise AnalysisError("coerce_argument: Undefined branch not found in the CFG")


# -- round 4 ------------------------------------------------------------------------------------------------


def enum_input_classes(check: Check, repo: Repo, rule: str = "ENUM-INPUT-CLASSES") -> None:
    from sa.loader import class_tests

    check.rule(
        rule,
        "GraphQLEnumType: the two directions between external values and literals dispatch on the same Python classes - "
        "coerce_input_value (value -> internal value) and value_to_literal (value -> EnumValueNode) test their argument "
        "against the same class set ({str}: an enum input is the *name*). A class accepted by one side only (a Python Enum "
        "member mapped to its name in coerce_input_value) gives a value that validates and coerces but cannot be written "
        "as a literal: a default of that kind passes schema validation and print_schema raises",
    )
    ci = ClassIndex(repo).get("type.definition", "GraphQLEnumType")
    sides = {}
    for m in ("coerce_input_value", "value_to_literal"):
        fn = ci.methods().get(m)
        if fn is None:
            raise AnalysisError(f"GraphQLEnumType.{m} not found")
        subject = fn.args.args[1].arg
        sides[m] = (fn, class_tests(fn, subject))
    a, b = sides["coerce_input_value"], sides["value_to_literal"]
    for m, (fn, cls) in sides.items():
        other = b[1] if m == "coerce_input_value" else a[1]
        check.ob(rule, fn, f"GraphQLEnumType.{m}: classes of external values {sorted(cls)}", cls == other and bool(cls),
                 "same class set as the sibling" if cls == other and cls else f"the sibling dispatches on {sorted(other)}")


def literal_rule_delegates(check: Check, repo: Repo, rule: str = "LITERAL-RULE-DELEGATES") -> None:
    check.rule(
        rule,
        "ValuesOfCorrectTypeRule gives no verdict of its own: in is_valid_value_node, once an input type is known, every "
        "normal path to the return passes the call of validate_input_literal - the same routine whose clauses are kept in "
        "agreement with coerce_input_literal (SIBLING-ATOMS). A shortcut that accepts 'obviously fine' literals (a Float "
        "literal for Float) skips the checks that depend on the value (1e999 is not finite) and validation passes a "
        "document whose execution fails",
    )
    fn = repo.func("validation.rules.values_of_correct_type", "ValuesOfCorrectTypeRule.is_valid_value_node")
    calls = [c for c in walk_body(fn) if isinstance(c, ast.Call) and call_name(c) == "validate_input_literal"]
    if not calls:
        check.ob(rule, fn, "is_valid_value_node delegates to validate_input_literal", False, "validate_input_literal is never called")
        return
    pname = fn.args.args[2].arg
    cfg = CFG(fn)
    call_nodes = {n for c in calls for n in cfg.node_for_expr(c)}

    def follow(a, b, label) -> bool:
        if not no_exc(a, b, label):
            return False
        if label and label[0] == "cond":
            t, pol = unparse(label[1]), label[2]
            if (t == pname and not pol) or (t == f"{pname} is None" and pol) or (t == f"{pname} is not None" and not pol):
                return False  # the arm without an input type: nothing to validate against
        return True

    path = cfg.find_path(cfg.entry, lambda nd: nd is cfg.exit, follow=follow, avoid=lambda nd: nd in call_nodes)
    check.ob(rule, calls[0], "is_valid_value_node: every literal with a known input type goes through validate_input_literal", path is None,
             "the call is on every normal path of the typed arm" if path is None else "a verdict is returned without it: " + cfg.describe_path(path)[-200:])
    # all literal kinds enter through this method
    ci = ClassIndex(repo).get("validation.rules.values_of_correct_type", "ValuesOfCorrectTypeRule")
    leaf_handlers = [m for n, m in ci.methods().items() if n in ("enter_enum_value", "enter_int_value", "enter_float_value", "enter_string_value", "enter_boolean_value")]
    for m in leaf_handlers:
        ok = any(isinstance(c, ast.Call) and call_name(c).split(".")[-1] == "is_valid_value_node" for c in walk_body(m))
        check.ob(rule, m, f"{m.name} delegates to is_valid_value_node", ok, "calls is_valid_value_node" if ok else "decides without is_valid_value_node")
    if len(leaf_handlers) < 5:
        raise AnalysisError("ValuesOfCorrectTypeRule: leaf literal handlers not found")


def float_exact(check: Check, repo: Repo, rule: str = "FLOAT-EXACT") -> None:
    check.rule(
        rule,
        "in type/scalars.py a function that returns a float and converts an *exact* number with float(<parameter>) - the "
        "parameter is not annotated str (text is parsed to the nearest double by definition) or float (already a double) - "
        "compares the converted number with the original before returning it (`int(num) != value`, `num != value` ...), so "
        "that a value a double cannot hold is refused instead of rounded: Float must not emit 9007199254740992.0 for "
        "9007199254740993, whichever exact type (int, Decimal, Fraction) carried it",
    )
    mod = repo.mod("type.scalars")
    n = 0
    for fn in mod.functions():
        if parent(fn) is not mod.tree or (unparse(fn.returns) if fn.returns is not None else "") != "float":
            continue
        params = {a.arg: (unparse(a.annotation) if a.annotation is not None else "") for a in fn.args.args}
        for c in walk_body(fn):
            if not (isinstance(c, ast.Call) and isinstance(c.func, ast.Name) and c.func.id == "float" and len(c.args) == 1
                    and isinstance(c.args[0], ast.Name) and c.args[0].id in params):
                continue
            p = c.args[0].id
            if params[p] in ("str", "float"):
                continue
            n += 1
            asg = parent(c)
            res = asg.targets[0].id if isinstance(asg, ast.Assign) and isinstance(asg.targets[0], ast.Name) else None
            cmps = [k for k in walk_body(fn) if isinstance(k, ast.Compare) and any(isinstance(o, (ast.Eq, ast.NotEq)) for o in k.ops)
                    and res is not None and {res, p} <= {x.id for x in ast.walk(k) if isinstance(x, ast.Name)} and k.lineno > c.lineno]
            check.ob(rule, c, f"{fn.name}: float({p}) with `{p}: {params[p] or 'unannotated'}`", bool(cmps),
                     f"checked by `{unparse(cmps[0])}`" if cmps else
                     f"the converted value is never compared with `{p}`: an exact {params[p] or 'number'} beyond 2**53 is rounded silently")
    if n < 1:
        raise AnalysisError("FLOAT-EXACT: no exact-number conversion found (coerce_float_from_int expected)")


LIST_VALUE_SITES = [
    # (module, function, the external value it inspects)
    ("utilities.coerce_input_value", "coerce_input_value", "input_value"),
    ("utilities.validate_input_value", "validate_input_value_impl", "input_value"),
    ("utilities.value_to_literal", "value_to_literal", "value"),
    ("utilities.value_to_literal", "default_scalar_value_to_literal", "value"),
    ("utilities.ast_from_value", "ast_from_value", "value"),
    ("type.validate", "uncoerce_default_value", "value"),
    ("type.validate", "InputObjectDefaultValueCircularRefsValidator.detect_value_default_value_cycle", "default_value"),
]
_COLLECTION_CLASSES = {"list", "tuple", "set", "frozenset", "Sequence", "Iterable", "Collection", "List", "Tuple"}


def list_value_predicate(check: Check, repo: Repo, rule: str = "LIST-VALUE-PREDICATE") -> None:
    from sa.loader import class_tests

    check.rule(
        rule,
        "every routine that walks an external (Python) input value decides 'this is a list value' with the same "
        "predicate, pyutils.is_iterable: value coercion, value validation, the value -> literal writers, the default-value "
        "uncoercion and the default-value cycle detector of schema validation. A routine that narrows it to "
        "isinstance(<value>, list) disagrees on tuples: a tuple default is coerced and validated as a list, but a cycle "
        "running through it is not detected and the schema passes validation",
    )
    for mn, q, p in LIST_VALUE_SITES:
        fn = repo.func(mn, q)
        uses = [c for c in walk_body(fn) if isinstance(c, ast.Call) and call_name(c) == "is_iterable" and c.args and unparse(c.args[0]) == p]
        narrow = class_tests(fn, p) & _COLLECTION_CLASSES
        ok = bool(uses) and not narrow
        check.ob(rule, fn, f"{q}: list values of `{p}`", ok,
                 f"is_iterable({p})" if ok else (f"tests `{p}` against {sorted(narrow)}" if narrow else f"no is_iterable({p}) test") + " - the siblings use is_iterable")


def int_range_table(check: Check, repo: Repo, rule: str = "INT-RANGE-TABLE") -> None:
    check.rule(
        rule,
        "every test of the 32-bit range in the Int coercers of type/scalars.py (result coercion, value coercion, literal "
        "coercion, value -> literal and their helpers) is folded over the boundary values MIN-1, MIN, MIN+1, -1, 0, 1, "
        "MAX-1, MAX, MAX+1 of its variable: its truth vector is the in-range predicate [MIN, MAX] or its negation. The "
        "range is not symmetric (-2**31 is in, 2**31 is out): `abs(num) > MAX` rejects the literal -2147483648 that the "
        "value side accepts, so a default of exactly -2**31 is printed and then refused when the SDL is built again",
    )
    mod = repo.mod("type.scalars")
    lo = module_const(repo, "type.scalars", "GRAPHQL_MIN_INT")
    hi = module_const(repo, "type.scalars", "GRAPHQL_MAX_INT")
    if not (isinstance(lo, int) and isinstance(hi, int)):
        raise AnalysisError("GRAPHQL_MIN_INT / GRAPHQL_MAX_INT are not static")
    points = [lo - 1, lo, lo + 1, -1, 0, 1, hi - 1, hi, hi + 1]
    want = [lo <= p <= hi for p in points]
    n = 0
    for fn in mod.functions():
        if parent(fn) is not mod.tree:
            continue
        for t in walk_body(fn):
            if not (isinstance(t, (ast.If, ast.IfExp)) or (isinstance(t, ast.Return) and t.value is not None)):
                continue
            test = t.test if isinstance(t, (ast.If, ast.IfExp)) else t.value
            if "GRAPHQL_MAX_INT" not in unparse(test):
                continue
            # the smallest conjunct / operand that carries the range test
            parts = [test]
            while True:
                e = parts[0]
                if isinstance(e, ast.BoolOp):
                    sub = [v for v in e.values if "GRAPHQL_MAX_INT" in unparse(v) or "GRAPHQL_MIN_INT" in unparse(v)]
                    if len(sub) == 1:
                        parts = sub
                        continue
                elif isinstance(e, ast.UnaryOp) and isinstance(e.op, ast.Not):
                    parts = [e.operand]
                    continue
                break
            r = parts[0]
            names = sorted({x.id for x in ast.walk(r) if isinstance(x, ast.Name)} - {"GRAPHQL_MIN_INT", "GRAPHQL_MAX_INT", "abs", "int", "float"})
            if len(names) != 1 or any(isinstance(x, (ast.Attribute, ast.Subscript)) for x in ast.walk(r)):
                continue  # not a test of a plain number variable (e.g. the digits of a literal node)
            vec = []
            try:
                for p in points:
                    vec.append(bool(Evaluator(repo, mod, {names[0]: p}).eval(r)))
            except NotStatic:
                continue  # not foldable over integers: nothing to say
            n += 1
            ok = vec == want or vec == [not w for w in want]
            wrong: list[int] = []
            if not ok:
                # describe against the closer of the two admissible vectors
                neg = [not w for w in want]
                ref = want if sum(a == b for a, b in zip(vec, want)) >= sum(a == b for a, b in zip(vec, neg)) else neg
                wrong = [p for p, v, w in zip(points, vec, ref) if v != w]
            check.ob(rule, t, f"{fn.name}: `{unparse(r)[:60]}`", ok,
                     "the interval [GRAPHQL_MIN_INT, GRAPHQL_MAX_INT]" if ok else f"decides {wrong} differently from the 32-bit range")
    if n < 1:
        raise AnalysisError("INT-RANGE-TABLE: no range test found (that each Int role has one is INT-ATOMS / DOMAIN-GUARDS)")


FLOAT_REPRESENTATIVES = [0.0, 1.0, -1.0, 1.5, -0.5, 100.0, 120.0, 1e16, 1e20, 1.5e20, 1e22, 1.25e100, 2.5e-10, 1e-07, 1.5e-05, 123456789.125, 1.7976931348623157e308, 5e-324]


def float_text(check: Check, repo: Repo, rule: str = "FLOAT-TEXT") -> None:
    import re as _re

    check.rule(
        rule,
        "ast_from_value turns a finite float into the text of a Float literal with a few string operations on str(x): "
        "those statements are folded for representative doubles covering every shape str() produces - integral ('1.0', "
        "'120.0'), fractional, exponent with and without fraction ('1e+20', '1.5e+20', '2.5e-10', '1e-07'), the largest and "
        "the smallest double. The resulting text is a GraphQL number (IntValue/FloatValue grammar) and reads back as the "
        "same double. Stripping zeros from the *end of the text* instead of a '.0' suffix turns 1.5e+20 into 1.5e+2",
    )
    mod = repo.mod("utilities.ast_from_value")
    fn = repo.func("utilities.ast_from_value", "ast_from_value")
    arm = next((i for i in walk_body(fn) if isinstance(i, ast.If) and "float" in unparse(i.test) and any(
        isinstance(c, ast.Call) and call_name(c) == "FloatValueNode" for s in i.body for c in ast.walk(s))), None)
    if arm is None:
        raise AnalysisError("ast_from_value: float arm not found")
    subject = next((unparse(c.args[0]) for c in ast.walk(arm.test) if isinstance(c, ast.Call) and call_name(c) == "isinstance" and "float" in unparse(c.args[1])), None)
    if subject is None:
        raise AnalysisError("ast_from_value: isinstance(<x>, float) not found")
    grammar = _re.compile(r"-?(0|[1-9][0-9]*)(\.[0-9]+)?([eE][+-]?[0-9]+)?")
    bad = []
    for x in FLOAT_REPRESENTATIVES:
        ev = Evaluator(repo, mod, {subject: x, "FloatValueNode": lambda value: ("Float", value), "IntValueNode": lambda value: ("Int", value)})
        # statements of the arm, with AugAssign-free straight-line / if code
        try:
            r = ev._exec_block(_desugar_ifs(arm.body))
        except NotStatic as ex:
            raise AnalysisError(f"ast_from_value: float arm is no longer foldable: {ex}") from ex
        if r is Evaluator._NoReturn:
            # single-exit form: the literal is bound to a local that is returned after the if/elif chain
            tgt = next((t.id for s_ in arm.body if isinstance(s_, ast.Assign) and isinstance(s_.value, ast.Call) and call_name(s_.value) == "FloatValueNode"
                        for t in s_.targets if isinstance(t, ast.Name)), None)
            if tgt is not None:
                r = ev.env.get(tgt)
        if not (isinstance(r, tuple) and len(r) == 2 and isinstance(r[1], str)):
            bad.append(f"{x!r}: no literal produced")
            continue
        text = r[1]
        if not grammar.fullmatch(text):
            bad.append(f"{x!r} -> {text!r} is not a GraphQL number")
        elif float(text) != x:
            bad.append(f"{x!r} -> {text!r}, which reads back as {float(text)!r}")
    check.ob(rule, arm, f"ast_from_value: float text for {len(FLOAT_REPRESENTATIVES)} representative doubles", not bad,
             "every text is a GraphQL number and reads back as the same double" if not bad else "; ".join(bad[:3]))


def _desugar_ifs(stmts: list[ast.stmt]) -> list[ast.stmt]:
    """`if c: <assignments>` without else, followed by more statements, in the shape the block evaluator executes."""
    return stmts


def enum_direction(check: Check, repo: Repo, rule: str = "ENUM-DIRECTION") -> None:
    check.rule(
        rule,
        "GraphQLEnumType keeps two tables: `values` (name -> definition, the *external* side: names are what variables, "
        "literals and results carry) and `_value_lookup` (internal value -> name, needed only to turn a resolver result "
        "into a name). The reverse table is read by coerce_output_value alone; the input-side methods (coerce_input_value, "
        "coerce_input_literal, value_to_literal, parse_*) look names up in `values`. An input-side method that consults "
        "the reverse table treats an internal value as if it were external: with {ASC: 'DESC', DESC: 'ASC'} the literal "
        "written for the external value 'ASC' coerces back to another value than the value itself",
    )
    ci = ClassIndex(repo).get("type.definition", "GraphQLEnumType")
    readers = sorted(name for name, m in ci.methods().items() if name != "_value_lookup" and any(
        isinstance(a, ast.Attribute) and a.attr == "_value_lookup" for a in walk_body(m)))
    allowed = {"coerce_output_value"}
    for name in readers:
        check.ob(rule, ci.methods()[name], f"GraphQLEnumType.{name} reads _value_lookup", name in allowed,
                 "the output side" if name in allowed else "an input-side method reads the internal-value table: internal values are mistaken for external ones")
    if "coerce_output_value" not in readers:
        raise AnalysisError("GraphQLEnumType.coerce_output_value no longer reads _value_lookup")
    for name in ("coerce_input_value", "coerce_input_literal", "value_to_literal"):
        m = ci.methods().get(name)
        if m is None:
            raise AnalysisError(f"GraphQLEnumType.{name} not found")
        uses = any(isinstance(a, ast.Attribute) and a.attr == "values" and unparse(a.value) == "self" for a in walk_body(m))
        check.ob(rule, m, f"GraphQLEnumType.{name} resolves names through self.values", uses, "reads self.values" if uses else "does not consult self.values")


def str_verbatim(check: Check, repo: Repo, rule: str = "STR-VERBATIM") -> None:
    from rules.language_rules import norm_facts, pattern_facts

    check.rule(
        rule,
        "String and ID, value side (result coercion and input value coercion): a value that already is a str is handed "
        "back as it is. At every return that is reached under the must-fact isinstance(<arg>, str) the returned expression "
        "is the argument itself, and no raise is reached under that fact. So what result coercion emits is accepted back "
        "unchanged by input coercion - an ID '007' stays '007' (not '7'), a String with a lone surrogate that was emitted "
        "is not refused on the way in",
    )
    sc = scalar_coercers(repo)
    n = 0
    for scalar in ("String", "ID"):
        for role in ("coerce_output_value", "coerce_input_value"):
            fn = sc[scalar].get(role)
            if fn is None:
                raise AnalysisError(f"{scalar}.{role} is not a module-level function")
            p = fn.args.args[0].arg
            flow = FactFlow(CFG(fn))
            key = (f"isinstance({p}, str)", True)
            seen = False
            for x in walk_body(fn):
                if not isinstance(x, (ast.Return, ast.Raise)):
                    continue
                if key not in (norm_facts(flow.facts_at(x)) | pattern_facts(x)):
                    continue
                seen = True
                n += 1
                if isinstance(x, ast.Raise):
                    check.ob(rule, x, f"{scalar}.{role} = {fn.name}: raise under isinstance({p}, str)", False,
                             f"a str is refused (`{unparse(x)[:60]}`): the sibling direction accepts / emits every str")
                else:
                    ok = isinstance(x.value, ast.Name) and x.value.id == p
                    check.ob(rule, x, f"{scalar}.{role} = {fn.name}: return for a str argument", ok,
                             "the argument itself" if ok else f"returns `{unparse(x.value)[:50]}`: the str is rewritten on the way")
            if not seen:
                check.ob(rule, fn, f"{scalar}.{role} = {fn.name}: has a str arm", False, f"no return under isinstance({p}, str)")
    check.floor(rule, 4, "str arms of the String/ID value coercers")


def validator_no_early_return(check: Check, repo: Repo, rule: str = "VALIDATOR-EXHAUSTIVE") -> None:
    check.rule(
        rule,
        "the input validators report *every* problem of a value: in validate_input_value_impl and "
        "validate_input_literal_impl no `return` sits inside a `for` loop - elements of a list and fields of an input "
        "object are checked independently (the coercers may stop at the first invalid element, they only need a verdict). A "
        "`return` in the per-field loop ('a variable cannot produce errors yet') ends the check of all remaining fields: "
        "later ill-typed constants, missing required fields, unknown fields and the OneOf count are never looked at, and a "
        "document that validation accepted fails at execution",
    )
    for q in ("validate_input_value_impl", "validate_input_literal_impl"):
        fn = repo.func("utilities.validate_input_value", q)
        loops = [l for l in walk_body(fn) if isinstance(l, ast.For)]
        if not loops:
            raise AnalysisError(f"{q}: loops not found")
        bad = [r for l in loops for s in l.body for r in ast.walk(s) if isinstance(r, ast.Return)]
        check.ob(rule, fn, f"{q}: {len(loops)} loops over elements / fields", not bad,
                 "no return inside a loop" if not bad else f"`{unparse(bad[0])[:40]}` at line {bad[0].lineno} ends the validation of the remaining elements")
