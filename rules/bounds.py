"""GUARDED-OP, subscript instance: every index read is dominated by its bound.

For a non-slice subscript `base[idx]` in load context the rule requires one of
  (i)  facts on every path entail  idx < len(base)  (and idx >= 0 syntactically:
       a sum of position variables and non-negative constants, or the constant -1
       with len(base) >= 1);
  (ii) an enclosing `try` whose handler covers IndexError.
"""

from __future__ import annotations

import ast
from typing import Iterable

from sa.cfg import CFG, handler_types
from sa.guards import Constraints, FactFlow, Lin, linear
from sa.loader import FuncDef, ancestors, enclosing_function, parent, unparse
from sa.report import Check, node_text

INDEX_CATCHERS = {"IndexError", "LookupError", "Exception", "BaseException"}


def is_annotation(node: ast.AST) -> bool:
    p = node
    while parent(p) is not None:
        pp = parent(p)
        if isinstance(pp, ast.AnnAssign) and pp.annotation is p:
            return True
        if isinstance(pp, ast.arg):
            return True
        if isinstance(pp, FuncDef) and pp.returns is p:
            return True
        if isinstance(pp, ast.Call) and isinstance(pp.func, ast.Name) and pp.func.id == "cast" and pp.args and pp.args[0] is p:
            return True
        if isinstance(pp, ast.ClassDef) and p in pp.bases:
            return True
        p = pp
    return False


def index_reads(scope: ast.AST) -> list[ast.Subscript]:
    out = []
    for n in ast.walk(scope):
        if (
            isinstance(n, ast.Subscript)
            and not isinstance(n.slice, ast.Slice)
            and isinstance(n.ctx, ast.Load)
            and not is_annotation(n)
        ):
            out.append(n)
    return sorted(out, key=lambda n: (n.lineno, n.col_offset))


def covered_by_try(node: ast.AST, classes: set[str]) -> ast.Try | None:
    child = node
    for a in ancestors(node):
        if isinstance(a, (*FuncDef, ast.Lambda)):
            return None
        if isinstance(a, ast.Try) and child in a.body:
            for h in a.handlers:
                if set(handler_types(h)) & classes:
                    return a
        child = a
    return None


class FlowCache:
    def __init__(self) -> None:
        self._flows: dict[ast.AST, FactFlow] = {}

    def flow(self, func: ast.AST) -> FactFlow:
        if func not in self._flows:
            self._flows[func] = FactFlow(CFG(func))
        return self._flows[func]


def prove_index(sub: ast.Subscript, flows: FlowCache) -> tuple[bool, str]:
    """Is `sub` in range on every path that evaluates it?"""
    t = covered_by_try(sub, INDEX_CATCHERS)
    if t is not None:
        return True, f"inside try/except covering IndexError (line {t.lineno})"
    func = enclosing_function(sub)
    if func is None or isinstance(func, ast.Lambda):
        return False, "module-level or lambda read: no guard analysis"
    flow = flows.flow(func)
    facts = flow.facts_at(sub)
    cons = Constraints(facts)
    idx = linear(sub.slice)
    if idx is None:
        return False, f"index {unparse(sub.slice)} is not linear"
    base_len = Lin({f"len({unparse(sub.value)})": 1})
    if idx.is_const() and idx.const < 0:
        # base[-k]: needs len(base) >= k
        why = cons.prove_ge0(base_len + idx)
        if why:
            return True, f"len >= {-idx.const} by: {why}"
        return False, f"no fact entails len({unparse(sub.value)}) >= {-idx.const}"
    if any(v < 0 for v in idx.terms.values()) or idx.const < 0:
        lo = cons.prove_ge0(idx)
        if not lo:
            return False, f"lower bound: cannot show {unparse(sub.slice)} >= 0"
    why = cons.prove_ge0(base_len - idx - Lin({}, 1))
    if why:
        return True, f"{unparse(sub.slice)} < len({unparse(sub.value)}) by: {why}"
    have = "; ".join(sorted(repr(f) for f in facts)) or "none"
    return False, (
        f"no dominating fact entails {unparse(sub.slice)} < len({unparse(sub.value)})"
        f" (facts here: {have[:200]})"
    )


def check_subscripts(
    check: Check,
    rule: str,
    subs: Iterable[ast.Subscript],
    flows: FlowCache | None = None,
) -> int:
    flows = flows or FlowCache()
    n = 0
    for sub in subs:
        ok, why = prove_index(sub, flows)
        check.ob(rule, sub, node_text(sub), ok, why)
        n += 1
    return n
