"""C10: locations - accounting in the lexer, single source of locations, total rendering."""

from __future__ import annotations

import ast

from rules import bounds
from rules.lt_agree import ORACLE, _regex_defs
from sa.cfg import CFG, no_exc
from sa.loader import (
    AnalysisError, Repo, call_name, enclosing_function, last_attr, parent, qualname_of,
    unparse, walk_body,
)  # fmt: skip
from sa.report import Check, node_text
from sa.tables import regex_language


def _const_strs(e: ast.AST) -> set[str]:
    return {c.value for c in ast.walk(e) if isinstance(c, ast.Constant) and isinstance(c.value, str)}


def lexer_accounting(check: Check, repo: Repo) -> None:
    rule = "LEXER-ACCOUNTING"
    check.rule(
        rule,
        "in the lexer every branch that has established that the current character is LF or CR "
        "reaches the next loop iteration only through (a) an advance of `position` over the "
        "terminator (CR LF as one), (b) the line-count update and (c) an assignment of the "
        "line start from `position` made after the last advance; read_block_string folds its "
        "local count into self.line / self.line_start after the token has been created",
    )
    # -- read_next_token ------------------------------------------------------
    fn = repo.func("language.lexer", "Lexer.read_next_token")
    cfg = CFG(fn)
    branches = []
    for n in walk_body(fn):
        if isinstance(n, ast.If) and isinstance(n.test, ast.Compare) and unparse(n.test.left) == "char":
            consts = _const_strs(n.test)
            if consts and all(set(c) <= {"\n", "\r"} for c in consts) and isinstance(n.test.ops[0], (ast.Eq, ast.In)):
                branches.append(n)
    covered = set("".join(c for b in branches for c in _const_strs(b.test)))
    if not branches or covered != {"\n", "\r"}:
        raise AnalysisError("read_next_token: LF/CR branches not found")
    for br in branches:
        _branch_paths(check, rule, cfg, br, line_inc="self.line += 1", start_assign="self.line_start = position",
                      what=f"read_next_token branch `{unparse(br.test)}`")
    # -- read_block_string ----------------------------------------------------
    fn = repo.func("language.lexer", "Lexer.read_block_string")
    cfg = CFG(fn)
    brs = []
    for n in walk_body(fn):
        if isinstance(n, ast.If) and isinstance(n.test, ast.Compare) and unparse(n.test.left) == "char":
            consts = _const_strs(n.test)
            if consts and all(set(c) <= {"\n", "\r"} for c in consts) and set("".join(consts)) == {"\n", "\r"}:
                brs.append(n)
    if len(brs) != 1:
        raise AnalysisError(f"read_block_string: expected one LF/CR branch, found {len(brs)}")
    _branch_paths(check, rule, cfg, brs[0], line_inc="block_lines.append(",
                  start_assign=("chunk_start = line_start = position", "line_start = position"),
                  what="read_block_string branch `char in CR LF`")
    # fold at the closing quotes
    stmts = [s for s in walk_body(fn) if isinstance(s, ast.stmt)]
    by_txt = {unparse(s): s for s in stmts}
    tok = next((s for s in stmts if isinstance(s, ast.Assign) and isinstance(s.value, ast.Call)
                and call_name(s.value) == "self.create_token"), None)
    fold = by_txt.get("self.line += len(block_lines) - 1")
    ls = by_txt.get("self.line_start = line_start")
    ok = bool(tok and fold and ls and tok.lineno < fold.lineno and tok.lineno < ls.lineno
              and parent(tok) is parent(fold) is parent(ls))
    check.ob(rule, fold or fn, "fold of block_lines into self.line after token creation", ok,
             "token created with the starting line, then self.line += len(block_lines) - 1 and "
             "self.line_start = line_start" if ok else "fold statements missing or ordered before create_token")
    init = by_txt.get("line_start = self.line_start")
    check.ob(rule, init or fn, "block string starts from the lexer's line_start", init is not None,
             "line_start = self.line_start" if init else "local line_start not initialised from self.line_start")
    # -- create_token -----------------------------------------------------------
    ct = repo.func("language.lexer", "Lexer.create_token")
    txt = {unparse(s) for s in walk_body(ct) if isinstance(s, ast.stmt)}
    ok = "col = 1 + start - self.line_start" in txt and "line = self.line" in txt
    check.ob(rule, ct, "token line/column from the bookkeeping", ok,
             "line = self.line; col = 1 + start - self.line_start" if ok else f"statements: {sorted(txt)}")


def _branch_paths(check: Check, rule: str, cfg: CFG, br: ast.If, line_inc: str, start_assign, what: str) -> None:
    if isinstance(start_assign, str):
        start_assign = (start_assign,)
    # entry nodes of the branch body
    first = br.body[0]
    starts = cfg.nodes_of(first) or cfg.node_for_expr(first)
    if not starts:
        # first statement is compound: its test node
        starts = [n for n in cfg.nodes if n.ast is not None and getattr(n.ast, "lineno", -1) == first.lineno]
    loop = next((a for a in _ancestors(br) if isinstance(a, ast.While)), None)
    if loop is None:
        raise AnalysisError("LF/CR branch not inside the scanning loop")
    head = [n for n in cfg.nodes_of(loop) if n.kind == "join"]
    in_branch = lambda n: n.ast is not None and _inside(n.ast, br.body)  # noqa: E731

    def _canon(stmt: ast.AST) -> str:
        # `x = x + k` and `x += k` are the same statement
        if isinstance(stmt, ast.Assign) and len(stmt.targets) == 1 and isinstance(stmt.value, ast.BinOp) \
                and isinstance(stmt.value.op, ast.Add) and unparse(stmt.value.left) == unparse(stmt.targets[0]):
            return f"{unparse(stmt.targets[0])} += {unparse(stmt.value.right)}"
        return unparse(stmt)

    def is_stmt(txts):
        # a text ending in "(" is a prefix: `block_lines.append(` matches whatever is appended
        return lambda n: n.kind == "stmt" and n.ast is not None and (
            _canon(n.ast) in txts or any(t.endswith("(") and _canon(n.ast).startswith(t) for t in txts))

    def avoid_path(avoid) -> bool:
        """exists a path from branch start to the loop head / function exit avoiding `avoid`?"""
        for s in starts:
            if avoid(s):
                continue
            reach = cfg.reachable([s], follow=no_exc, avoid=lambda n: avoid(n) or (not in_branch(n) and n not in head and n is not cfg.exit))
            if any(h in reach for h in head) or cfg.exit in reach:
                return True
        return False

    advance = lambda n: n.kind == "stmt" and isinstance(n.ast, ast.AugAssign) and unparse(n.ast.target) == "position"  # noqa: E731
    checks = [
        ("advance of position", advance),
        (f"`{line_inc}`", is_stmt((line_inc,))),
        (f"`{start_assign[-1]}`", is_stmt(start_assign)),
    ]
    for label, pred in checks:
        bad = avoid_path(pred)
        check.ob(rule, br, f"{what}: every path passes {label}", not bad,
                 "must-pass-through holds on the branch CFG" if not bad else f"a path reaches the next iteration without {label}")
    # ordering: no advance after the start assignment
    sa_nodes = [n for n in cfg.nodes if is_stmt(start_assign)(n) and in_branch(n)]
    late = False
    for n in sa_nodes:
        reach = cfg.reachable([n], follow=no_exc, avoid=lambda m: not in_branch(m) and m is not n)
        late |= any(advance(m) for m in reach if m is not n)
    check.ob(rule, br, f"{what}: line start assigned after the last advance", bool(sa_nodes) and not late,
             "no `position +=` reachable after the line-start assignment inside the branch" if not late else
             "position is advanced after the line start was recorded")
    # CR LF consumed as one terminator
    consts = "".join(_const_strs(br.test))
    if "\r" in consts:
        two = [s for s in ast.walk(br) if isinstance(s, ast.AugAssign) and unparse(s) == "position += 2"]
        ok = False
        for s in two:
            p = parent(s)
            if isinstance(p, ast.If) and "\n" in _const_strs(p.test) and "position + 1" in unparse(p.test):
                ok = True
        if not ok:
            # the conditional-expression spelling: position += 2 if <next is LF> else 1 (the test possibly held in a local)
            from sa.loader import enclosing_function
            from sa.tables import inline_locals

            for s in ast.walk(br):
                if isinstance(s, ast.AugAssign) and unparse(s.target) == "position" and isinstance(s.op, ast.Add) and isinstance(s.value, ast.IfExp) \
                        and unparse(s.value.body) == "2" and unparse(s.value.orelse) == "1":
                    f_ = enclosing_function(s)
                    t_ = inline_locals(s.value.test, f_) if f_ is not None else s.value.test
                    if "\n" in _const_strs(t_) and "position + 1" in unparse(t_):
                        ok = True
        check.ob(rule, br, f"{what}: CR LF consumed as one terminator", ok,
                 "position += 2 under a test that the next character is LF" if ok else "no two-character advance for CR LF")


def _ancestors(n: ast.AST):
    p = parent(n)
    while p is not None:
        yield p
        p = parent(p)


def _inside(node: ast.AST, body: list[ast.stmt]) -> bool:
    cur: ast.AST | None = node
    while cur is not None:
        if cur in body:
            return True
        cur = parent(cur)
    return False


def loc_single_source(check: Check, repo: Repo) -> None:
    rule = "LOC-SINGLE-SOURCE"
    check.rule(
        rule,
        "a SourceLocation with computed line/column is constructed only in Source.get_location; "
        "GraphQLError.__init__, print_location and location.get_location obtain locations only "
        "through it",
    )
    n_sites = 0
    for mod in repo.modules.values():
        for n in ast.walk(mod.tree):
            if isinstance(n, ast.Call) and last_attr(n) in ("SourceLocation", "_make") and (
                last_attr(n) == "SourceLocation" or "SourceLocation" in unparse(n.func)
            ):
                owner = qualname_of(n)
                const_args = all(isinstance(a, ast.Constant) for a in n.args) and not n.keywords
                ok = (
                    (mod.name == "graphql.language.source" and owner == "Source.get_location")
                    or const_args
                    or (mod.name == "graphql.language.source" and owner == "Source.__init__" and last_attr(n) == "_make")
                )
                check.ob(rule, n, f"{unparse(n.func)}(...) in {owner}", ok,
                         "the single computing site / a constant / normalisation of a user-supplied offset" if ok else
                         "second place that computes line/column: not covered by LT-AGREE")
                n_sites += 1
    # consumers call get_location
    init = repo.func("error.graphql_error", "GraphQLError.__init__")
    calls = [n for n in walk_body(init) if isinstance(n, ast.Call) and last_attr(n) == "get_location"]
    assigns = [n for n in walk_body(init) if isinstance(n, (ast.Assign, ast.AnnAssign))
               and unparse(n.targets[0] if isinstance(n, ast.Assign) else n.target) in ("locations", "self.locations")]
    ok = len(calls) >= 2
    for a in assigns:
        v = a.value
        if v is None:
            continue
        if unparse(v) in ("locations or None",):
            continue
        ok = ok and any(isinstance(c, ast.Call) and last_attr(c) == "get_location" for c in ast.walk(v))
    check.ob(rule, init, "GraphQLError.locations come from Source.get_location", ok,
             f"{len(calls)} get_location calls; assignments {[unparse(a)[:60] for a in assigns]}")
    gl = repo.func("language.location", "get_location")
    rets = [n for n in walk_body(gl) if isinstance(n, ast.Return)]
    ok = len(rets) == 1 and rets[0].value is not None and unparse(rets[0].value) == "source.get_location(position)"
    check.ob(rule, gl, "location.get_location delegates", ok, unparse(rets[0]) if rets else "no return")
    pl = repo.func("language.print_location", "print_location")
    ok = any(isinstance(n, ast.Call) and last_attr(n) == "get_location" for n in walk_body(pl))
    check.ob(rule, pl, "print_location derives the location through get_location", ok, "")
    check.floor(rule, 5, "location construction/consumer sites")


def get_location_regex(check: Check, repo: Repo) -> None:
    rule = "LOC-RENDER-AGREE"
    check.rule(
        rule,
        "the line counter of Source.get_location and the line splitter of print_source_location "
        "denote the same language (both = the LineTerminator regex language), so "
        "lines[line - 1] names the line the location means",
    )
    langs = {}
    for modname, fname in (("language.source", "Source.get_location"), ("language.print_location", "print_source_location")):
        mod = repo.mod(modname)
        fn = repo.func(modname, fname)
        regexes = _regex_defs(repo, mod)
        used = None
        for n in walk_body(fn):
            if isinstance(n, ast.Call) and isinstance(n.func, ast.Attribute) and isinstance(n.func.value, ast.Name):
                if n.func.value.id in regexes and n.func.attr in ("split", "finditer", "findall"):
                    used = (n, regex_language(regexes[n.func.value.id][1]))
                if n.func.attr == "splitlines":
                    used = (n, None)
        if used is None:
            for n in walk_body(fn):
                if isinstance(n, ast.Call) and last_attr(n) == "splitlines":
                    used = (n, None)
        if used is None:
            check.ob(rule, fn, f"line splitter of {fname}", False, "no recognisable line-splitting construct")
            continue
        langs[fname] = used
    if len(langs) == 2:
        (n1, l1), (n2, l2) = langs.values()
        ok = l1 is not None and l1 == l2 == ORACLE
        check.ob(rule, n1, "get_location and print_source_location split on the same terminators", ok,
                 f"languages: {sorted(l1) if l1 else 'splitlines()'} vs {sorted(l2) if l2 else 'splitlines()'}")


def render_total(check: Check, repo: Repo, agree_ok: bool = True) -> None:
    rule = "RENDER-TOTAL"
    check.rule(
        rule,
        "risky operations (index reads, max() of a possibly empty iterable) in GraphQLError.__str__, "
        ".formatted, print_location, print_source_location, print_prefixed_lines are each discharged "
        "by a dominating guard, by LOC-RENDER-AGREE, by a fixed-size tuple annotation, or by one of "
        "two lemmas (non-empty chunk list under len > c; max over a call-site tuple with a statically "
        "non-None member)",
    )
    flows = bounds.FlowCache()
    funcs = [
        repo.func("language.print_location", "print_location"),
        repo.func("language.print_location", "print_source_location"),
        repo.func("language.print_location", "print_prefixed_lines"),
        repo.func("error.graphql_error", "GraphQLError.__str__"),
        repo.func("error.graphql_error", "GraphQLError.formatted"),
    ]
    for fn in funcs:
        for sub in bounds.index_reads(fn):
            base = unparse(sub.value)
            ok, why = bounds.prove_index(sub, flows)
            if not ok:
                ok, why = _render_lemmas(sub, fn, repo)
            check.ob(rule, sub, node_text(sub), ok, why)
        for n in walk_body(fn):
            if isinstance(n, ast.Call) and isinstance(n.func, ast.Name) and n.func.id in ("max", "min") and len(n.args) == 1 \
                    and not any(k.arg == "default" for k in n.keywords):
                ok, why = _max_lemma(n, fn, repo)
                check.ob(rule, n, node_text(n), ok, why)
    check.floor(rule, 6, "risky operations in the rendering functions")


def _render_lemmas(sub: ast.Subscript, fn: ast.AST, repo: Repo) -> tuple[bool, str]:
    base = sub.value
    # (a) element of a fixed-size tuple parameter: `*lines: tuple[str, str | None]`, line[0]/line[1]
    if isinstance(base, ast.Name) and isinstance(sub.slice, ast.Constant) and isinstance(sub.slice.value, int):
        size = _tuple_size_of(base.id, sub, fn)
        if size is not None and -size <= sub.slice.value < size:
            return True, f"element {sub.slice.value} of a {size}-tuple (annotation)"
    # (b) lines[line_index] where lines = <LT regex>.split(...) and line_index = source_location.line - 1
    if isinstance(base, ast.Name):
        src = _assigned_value(fn, base.id)
        if isinstance(src, ast.Call) and last_attr(src) == "split" and unparse(sub.slice) == "line_index":
            li = _assigned_value(fn, "line_index")
            if li is not None and unparse(li) == "source_location.line - 1":
                return True, "named obligation LOC-RENDER-AGREE: the location's line counts the same terminators the splitter splits on"
        # (c) chunks[0] of [x[i:i+k] for i in range(0, len(x), k)] under len(x) > c
        if isinstance(src, ast.ListComp) and isinstance(sub.slice, ast.Constant) and sub.slice.value == 0:
            g = src.generators[0]
            if isinstance(g.iter, ast.Call) and call_name(g.iter) == "range" and len(g.iter.args) == 3:
                a0, a1, _ = g.iter.args
                if isinstance(a0, ast.Constant) and a0.value == 0 and isinstance(a1, ast.Call) and call_name(a1) == "len":
                    x = unparse(a1.args[0])
                    flow = bounds.FlowCache().flow(fn)
                    for f in flow.facts_at(sub):
                        if f.kind == "cond" and f.pol and f.text.startswith(f"len({x}) >"):
                            return True, f"lemma: non-empty chunk list because {f.text}"
        # (c') the same chunk list built by a loop: xs = []; for i in range(0, len(x), k): xs.append(x[i:i+k])
        if isinstance(src, ast.List) and not src.elts and isinstance(sub.slice, ast.Constant) and sub.slice.value == 0:
            for lp in walk_body(fn):
                if isinstance(lp, ast.For) and isinstance(lp.iter, ast.Call) and call_name(lp.iter) == "range" and len(lp.iter.args) == 3 \
                        and lp.lineno < sub.lineno and any(
                            isinstance(c, ast.Call) and isinstance(c.func, ast.Attribute) and c.func.attr == "append" and unparse(c.func.value) == base.id
                            for st in lp.body[:1] for c in ast.walk(st)) and isinstance(lp.body[0], ast.Expr):
                    a0, a1, _ = lp.iter.args
                    if isinstance(a0, ast.Constant) and a0.value == 0 and isinstance(a1, ast.Call) and call_name(a1) == "len":
                        x = unparse(a1.args[0])
                        flow = bounds.FlowCache().flow(fn)
                        for f in flow.facts_at(sub):
                            if f.kind == "cond" and f.pol and f.text.startswith(f"len({x}) >"):
                                return True, f"lemma: the loop appends at least one chunk because {f.text}"
    return False, "no guard, annotation or lemma discharges this read"


def _assigned_value(fn: ast.AST, name: str) -> ast.AST | None:
    vals = [n.value for n in walk_body(fn) if isinstance(n, ast.Assign) and len(n.targets) == 1
            and isinstance(n.targets[0], ast.Name) and n.targets[0].id == name]
    return vals[0] if len(vals) == 1 else None


def _tuple_size_of(name: str, at: ast.AST, fn: ast.AST) -> int | None:
    """Size of the tuple type of loop/comprehension variable `name` iterating over a *vararg."""
    va = fn.args.vararg  # type: ignore[attr-defined]
    if va is None or va.annotation is None:
        return None
    ann = va.annotation
    if not (isinstance(ann, ast.Subscript) and unparse(ann.value) == "tuple" and isinstance(ann.slice, ast.Tuple)):
        return None
    if any(isinstance(e, ast.Constant) and e.value is Ellipsis for e in ann.slice.elts):
        return None
    size = len(ann.slice.elts)
    # `name` must be bound by iteration over the vararg (or over a list derived element-wise from it)
    derived = {va.arg}
    changed = True
    while changed:
        changed = False
        for n in walk_body(fn):
            if isinstance(n, ast.Assign) and len(n.targets) == 1 and isinstance(n.targets[0], ast.Name) \
                    and isinstance(n.value, ast.ListComp) and len(n.value.generators) == 1:
                g = n.value.generators[0]
                elt = n.value.elt
                if isinstance(elt, ast.Call) and call_name(elt) == "cast" and len(elt.args) == 2:
                    elt = elt.args[1]
                if isinstance(g.iter, ast.Name) and g.iter.id in derived and isinstance(g.target, ast.Name) \
                        and isinstance(elt, ast.Name) and elt.id == g.target.id and n.targets[0].id not in derived:
                    derived.add(n.targets[0].id)
                    changed = True
    p = parent(at)
    while p is not None and p is not fn:
        if isinstance(p, (ast.ListComp, ast.GeneratorExp, ast.SetComp)):
            for g in p.generators:
                if isinstance(g.target, ast.Name) and g.target.id == name and isinstance(g.iter, ast.Name) and g.iter.id in derived:
                    return size
        p = parent(p)
    return None


def _max_lemma(call: ast.Call, fn: ast.AST, repo: Repo) -> tuple[bool, str]:
    arg = call.args[0]
    if not isinstance(arg, ast.GeneratorExp):
        return False, "max() of an arbitrary iterable"
    it = arg.generators[0].iter
    if not isinstance(it, ast.Name):
        return False, "max() over a non-name iterable"
    src = _assigned_value(fn, it.id)
    va = fn.args.vararg  # type: ignore[attr-defined]
    # existing_lines = [cast(...) for line in lines if line[1] is not None]
    if not (isinstance(src, ast.ListComp) and va is not None and isinstance(src.generators[0].iter, ast.Name)
            and src.generators[0].iter.id == va.arg and len(src.generators[0].ifs) == 1
            and unparse(src.generators[0].ifs[0]) == f"{unparse(src.generators[0].target)}[1] is not None"):
        return False, "iterable is not the filtered vararg list"
    # every call site passes a tuple literal whose second element is statically a str
    mod = fn.module  # type: ignore[attr-defined]
    sites = [n for n in ast.walk(mod.tree) if isinstance(n, ast.Call) and isinstance(n.func, ast.Name) and n.func.id == fn.name]  # type: ignore[attr-defined]
    if not sites:
        return False, "no call sites"
    for s in sites:
        good = False
        for a in s.args:
            if isinstance(a, ast.Tuple) and len(a.elts) == 2 and _static_str(a.elts[1], s):
                good = True
        if not good:
            return False, f"call at line {s.lineno} passes no tuple with a statically non-None second element"
    return True, f"lemma: all {len(sites)} call sites pass a tuple whose second element is statically a str, so the filtered list is non-empty"


def _static_str(e: ast.AST, at: ast.AST) -> bool:
    if isinstance(e, ast.JoinedStr) or (isinstance(e, ast.Constant) and isinstance(e.value, str)):
        return True
    if isinstance(e, ast.Call) and isinstance(e.func, ast.Attribute) and _static_str(e.func.value, at) \
            and e.func.attr in ("rjust", "ljust", "join", "format", "strip"):
        return True
    if isinstance(e, ast.Name):
        fn = enclosing_function(at)
        v = _assigned_value(fn, e.id) if fn is not None else None
        # element of a list of str: lines[i] / sub_lines[i]
        if isinstance(v, ast.Subscript) and not isinstance(v.slice, ast.Slice):
            return True
    if isinstance(e, ast.Subscript) and not isinstance(e.slice, ast.Slice):
        return True
    return False


def loc_prefix(check: Check, repo: Repo) -> None:
    rule = "LOC-PREFIX"
    check.rule(
        rule,
        "Source.get_location counts line terminators *before* the offset: the line-terminator regex "
        "is applied to the prefix body[:position] (a slice of the body whose upper bound is the "
        "offset parameter), never to text extending past the offset - a CR LF pair straddling the "
        "offset would otherwise be counted as one terminator behind it",
    )
    fn = repo.func("language.source", "Source.get_location")
    mod = repo.mod("language.source")
    regexes = _regex_defs(repo, mod)
    params = [a.arg for a in fn.args.args]  # type: ignore[attr-defined]
    pos = params[1] if len(params) > 1 else None
    uses = [n for n in walk_body(fn) if isinstance(n, ast.Call) and isinstance(n.func, ast.Attribute)
            and isinstance(n.func.value, ast.Name) and n.func.value.id in regexes]
    if not uses:
        check.ob(rule, fn, "line regex applied in get_location", False, "no application of a line regex found")
        return
    for u in uses:
        arg = u.args[0] if u.args else None
        src = arg
        if isinstance(arg, ast.Name):
            src = _assigned_value(fn, arg.id)
        ok = (
            isinstance(src, ast.Subscript) and isinstance(src.slice, ast.Slice) and src.slice.lower is None
            and src.slice.upper is not None and unparse(src.slice.upper) == pos and unparse(src.value) in ("self.body", "body")
        )
        check.ob(rule, u, f"{unparse(u.func)}({unparse(arg) if arg is not None else ''})", ok,
                 f"applied to the prefix up to `{pos}`" if ok else
                 f"the regex is applied to `{unparse(arg) if arg is not None else '?'}`, not to the prefix body[:{pos}]")


def loc_offset(check: Check, repo: Repo) -> None:
    from sa.cfg import CFG as _CFG
    from sa.guards import Constraints, FactFlow, Lin, linear

    rule = "LOC-OFFSET"
    check.rule(
        rule,
        "print_source_location applies the configured location offset by the documented formula, "
        "checked on linear normal forms (assignments substituted): line_num = location.line + "
        "offset.line - 1; the first-line column shift offset.column - 1 is added exactly when "
        "location.line == 1 (the source's own first line); the excerpted body is shifted by the same "
        "amount",
    )
    fn = repo.func("language.print_location", "print_source_location")
    for anchor in ("line_num", "column_offset", "column_num", "body", "line_index"):
        if _assigned_value(fn, anchor) is None:
            raise AnalysisError(f"anchor missing: local `{anchor}` of print_source_location (renamed?)")
    flow = FactFlow(_CFG(fn))
    rets = [n for n in walk_body(fn) if isinstance(n, ast.Return)]
    facts = flow.facts_at(rets[-1]) if rets else []
    cons = Constraints(facts)

    def norm(e: ast.AST) -> Lin | None:
        l = linear(e)
        return cons.norm(l) if l is not None else None

    def same(a: Lin | None, b: Lin | None) -> bool:
        if a is None or b is None:
            return False
        d = a - b
        return d.is_const() and d.const == 0

    LINE = Lin({"source_location.line": 1})
    want_line = LINE + Lin({"source.location_offset.line": 1}, -1)
    line_num = norm(ast.Name(id="line_num", ctx=ast.Load()))
    check.ob(rule, fn, "line_num = location.line + offset.line - 1", same(line_num, want_line), f"normal form: {line_num}")
    co = _assigned_value(fn, "column_offset")
    ok = False
    detail = "column_offset is not a conditional expression"
    if isinstance(co, ast.IfExp) and isinstance(co.test, ast.Compare) and len(co.test.ops) == 1 and isinstance(co.test.ops[0], ast.Eq):
        lhs, rhs = norm(co.test.left), norm(co.test.comparators[0])
        body, orelse = norm(co.body), norm(co.orelse)
        want_shift = Lin({"source.location_offset.column": 1}, -1)
        t_ok = (same(lhs, LINE) and same(rhs, Lin({}, 1))) or (same(rhs, LINE) and same(lhs, Lin({}, 1)))
        ok = t_ok and same(body, want_shift) and same(orelse, Lin({}, 0))
        detail = f"test {lhs} == {rhs}; shift {body} else {orelse}"
    check.ob(rule, co if co is not None else fn, "first-line column shift applied iff location.line == 1", ok, detail)
    cn = norm(ast.Name(id="column_num", ctx=ast.Load()))
    want_cn = Lin({"source_location.column": 1, "column_offset": 1})
    check.ob(rule, fn, "column_num = location.column + column_offset", same(cn, want_cn), f"normal form: {cn}")
    body = _assigned_value(fn, "body")
    ok = isinstance(body, ast.BinOp) and isinstance(body.op, ast.Add) and unparse(body.right) == "source.body" \
        and isinstance(body.left, ast.Call) and last_attr(body.left) == "rjust" and body.left.args \
        and same(norm(body.left.args[0]), Lin({"source.location_offset.column": 1}, -1))
    check.ob(rule, body if body is not None else fn, "excerpt body shifted by offset.column - 1", ok,
             unparse(body)[:80] if body is not None else "no body assignment")
    li = norm(ast.Name(id="line_index", ctx=ast.Load()))
    check.ob(rule, fn, "line_index = location.line - 1", same(li, LINE + Lin({}, -1)), f"normal form: {li}")


# -- line bookkeeping is written by its owners only, and only forwards ----------------


def line_owners(check: Check, repo: Repo, rule: str = "LINE-OWNERS") -> None:
    from sa.effects import write_sites
    from sa.resolve import ClassIndex

    check.rule(
        rule,
        "Lexer.line / Lexer.line_start are written only by __init__ and by the two routines that consume "
        "line terminators (read_next_token, read_block_string), and outside __init__ the line counter "
        "only grows (`self.line += ...`): tokens are lexed once and then cached on the token chain, so a "
        "routine that saves and restores the counters (look-ahead) leaves them stale for every token "
        "served from the cache afterwards",
    )
    owners = {"__init__", "read_next_token", "read_block_string"}
    classes = ClassIndex(repo)
    lex = classes.get("graphql.language.lexer", "Lexer")
    n = 0
    for ci in [lex, *classes.subclasses(lex)]:
        for name, fn in ci.methods().items():
            for w in write_sites(fn):
                if w.kind not in ("attr-store", "setattr", "del") or w.detail not in ("line", "line_start") or unparse(w.target) != "self":
                    continue
                n += 1
                in_owner = name in owners
                grows = name == "__init__" or w.detail != "line" or (isinstance(w.node, ast.AugAssign) and isinstance(w.node.op, ast.Add)) or (
                    isinstance(w.node, ast.Assign) and isinstance(w.node.value, ast.BinOp) and isinstance(w.node.value.op, ast.Add)
                    and unparse(w.node.value.left) == "self.line")
                ok = in_owner and grows
                check.ob(rule, w.node, f"{ci.name}.{name}: {node_text(w.node, 60)}", ok,
                         "owner routine, counter only grows" if ok else
                         (f"`self.{w.detail}` is written outside {sorted(owners)}" if not in_owner else "the line counter is assigned, not advanced"))
    check.floor(rule, 5, "writes to Lexer.line / line_start")


# -- objects tested for presence must not have a length ---------------------------------


def object_truthiness(check: Check, repo: Repo, modules: list[str], rule: str = "OBJECT-TRUTHINESS") -> None:
    from rules.write_effect import top_heads
    from sa.mtypes import MTypes
    from sa.resolve import ClassIndex

    check.rule(
        rule,
        "where a value typed `C | None` (C a class of the package) is tested by bare truthiness - "
        "`if self.source and ...`, `if node.loc` - the test means 'is present'; it keeps that meaning only "
        "while neither C nor a base of C defines __bool__ or __len__ (a Source with an empty body, a "
        "Location of width 0 would otherwise count as absent and its errors lose their locations)",
    )
    mt = MTypes.get(repo)
    classes = ClassIndex(repo)
    n = 0
    for mn in modules:
        mod = repo.mod(mn)
        for node in ast.walk(mod.tree):
            tests: list[ast.AST] = []
            if isinstance(node, (ast.If, ast.While, ast.IfExp)):
                tests = [node.test]
            elif isinstance(node, ast.BoolOp):
                tests = list(node.values)
            elif isinstance(node, ast.UnaryOp) and isinstance(node.op, ast.Not):
                tests = [node.operand]
            elif isinstance(node, ast.comprehension):
                tests = list(node.ifs)
            for t in tests:
                if not isinstance(t, (ast.Name, ast.Attribute)):
                    continue
                ty = mt.type_of(t)
                heads = top_heads(ty) if ty else set()
                if "None" not in heads:
                    continue
                for h in heads - {"None"}:
                    if not h.startswith("graphql."):
                        continue
                    modname, _, cname = h.rpartition(".")
                    ci = classes.by_full.get(h)
                    if ci is None:
                        continue
                    sized = [
                        f"{c.name}.{m}" for c in classes.mro(ci) for m in ("__bool__", "__len__") if m in c.methods()
                    ]
                    n += 1
                    check.ob(rule, t, f"truthiness of `{unparse(t)}` ({cname} | None) in {qualname_of(t)}", not sized,
                             f"{cname} defines neither __bool__ nor __len__: truthiness == presence" if not sized else
                             f"{', '.join(sized)} makes an existing {cname} falsy: the presence test also rejects it")
    check.note(presence_tests=n)


# -- round 5 ------------------------------------------------------------------------------------------------

_TEXT_REWRITERS = {"strip", "rstrip", "lstrip", "replace", "expandtabs", "translate", "lower", "upper", "casefold", "title", "capitalize", "swapcase", "removeprefix", "removesuffix"}


def excerpt_verbatim(check: Check, repo: Repo, rule: str = "EXCERPT-VERBATIM") -> None:
    check.rule(
        rule,
        "the excerpt shown for a location is the source line itself: language/print_location.py pads and prefixes "
        "(rjust, ljust, concatenation, slicing by position) but applies no str method that rewrites text - strip / "
        "rstrip / lstrip / replace / expandtabs / translate / case mappings. `f'{prefix} {line}'.rstrip()` also removes "
        "the trailing blank, tab, form feed or U+2028 that belongs to the line the location names, so the excerpt is not "
        "that line any more (and a caret under such a column points past the end of what is shown)",
    )
    mod = repo.mod("language.print_location")
    calls = [c for c in ast.walk(mod.tree) if isinstance(c, ast.Call) and isinstance(c.func, ast.Attribute) and c.func.attr in _TEXT_REWRITERS]
    for c in calls:
        check.ob(rule, c, f"{qualname_of(c)}: {unparse(c)[:60]}", False, f"str.{c.func.attr}() rewrites the text of the excerpt")
    n = sum(1 for c in ast.walk(mod.tree) if isinstance(c, ast.Call))
    check.ob(rule, mod.tree, f"print_location.py: {n} calls, none rewrites text", not calls, "only padding, slicing and concatenation" if not calls else "see above", nontrivial=False)
    if n < 10:
        raise AnalysisError("print_location.py: calls not found")


OFFSET_READERS = {"language/source.py", "language/print_location.py"}


def offset_owners(check: Check, repo: Repo, rule: str = "OFFSET-OWNERS") -> None:
    check.rule(
        rule,
        "Source.location_offset says where the body sits in an enclosing file and is applied in exactly one place, the "
        "rendering of a location (print_location.py); positions everywhere else - Token.line / Token.column, "
        "Source.get_location, error.locations - are relative to the body. Only language/source.py (which stores and "
        "validates it) and language/print_location.py read the attribute, and the lexer starts counting at line 1, "
        "line start 0. A lexer that starts at the offset makes token positions disagree with get_location() of the same "
        "token's start and with the locations of errors",
    )
    n = 0
    for mod in repo.modules.values():
        for a in ast.walk(mod.tree):
            if isinstance(a, ast.Attribute) and a.attr == "location_offset" and isinstance(a.ctx, ast.Load):
                n += 1
                ok = any(mod.rel.endswith(r) for r in OFFSET_READERS)
                check.ob(rule, a, f"{mod.rel.split('graphql/')[-1]}: reads `{unparse(a)}` in {qualname_of(a)}", ok,
                         "an owner of the offset" if ok else "the offset leaks into body-relative positions")
    init = repo.func("language.lexer", "Lexer.__init__")
    vals = {}
    for s in walk_body(init):
        if isinstance(s, ast.Assign):
            for t in s.targets:
                tt = list(t.elts) if isinstance(t, ast.Tuple) else [t]
                vv = list(s.value.elts) if isinstance(s.value, ast.Tuple) and isinstance(t, ast.Tuple) and len(s.value.elts) == len(tt) else [s.value] * len(tt)
                for x, v in zip(tt, vv):
                    if unparse(x) in ("self.line", "self.line_start"):
                        vals[unparse(x)] = v
    for name, want in (("self.line", 1), ("self.line_start", 0)):
        v = vals.get(name)
        ok = isinstance(v, ast.Constant) and v.value == want
        check.ob(rule, v if v is not None else init, f"Lexer.__init__: {name} = {unparse(v) if v is not None else '?'}", ok,
                 f"starts at {want}" if ok else f"expected the constant {want}: token positions are relative to the body")
    if n < 2:
        raise AnalysisError("OFFSET-OWNERS: reads of location_offset not found")
