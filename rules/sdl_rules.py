"""C17 / C18 / C19: attribute-coverage matrices printer <-> SDL builder <-> introspection <-> client builder."""

from __future__ import annotations

import ast

from rules.write_effect import top_heads
from sa.loader import (
    AnalysisError, FuncDef, Module, Repo, ancestors, call_name, enclosing_function, last_attr, parent, qualname_of,
    unparse, walk_body,
)  # fmt: skip
from sa.mtypes import MTypes
from sa.report import Check, node_text
from sa.resolve import ClassIndex
from sa.tables import Evaluator, NotStatic

ELEMENT_CLASSES = {
    "GraphQLScalarType": "type.definition", "GraphQLObjectType": "type.definition",
    "GraphQLInterfaceType": "type.definition", "GraphQLUnionType": "type.definition",
    "GraphQLEnumType": "type.definition", "GraphQLInputObjectType": "type.definition",
    "GraphQLField": "type.definition", "GraphQLArgument": "type.definition",
    "GraphQLInputField": "type.definition", "GraphQLEnumValue": "type.definition",
    "GraphQLDirective": "type.directives", "GraphQLSchema": "type.schema",
}  # fmt: skip

# one explicit classification of every to_kwargs key: is it part of the SDL / introspection surface?
NOT_SDL = {
    "extensions", "ast_node", "extension_ast_nodes", "resolve", "subscribe", "out_name", "is_type_of",
    "resolve_type", "serialize", "parse_value", "parse_literal", "coerce_output_value", "coerce_input_value",
    "coerce_input_literal", "value_to_literal", "names_as_values", "out_type", "assume_valid",
    "default_value",  # deprecated internal default; the SDL-visible default is `default`
    "value",  # internal value of an enum value; the SDL shows its name (the map key)
}  # fmt: skip
SDL_VISIBLE = {
    "name", "description", "specified_by_url", "type_", "args", "deprecation_reason", "fields", "interfaces",
    "types", "values", "is_one_of", "default", "locations", "is_repeatable", "query", "mutation",
    "subscription", "directives",
}  # fmt: skip
KEY_TO_ATTR = {"type_": "type"}


def kwargs_keys(repo: Repo) -> dict[str, list[str]]:
    """Element class -> keys of its to_kwargs() TypedDict (inherited keys included)."""
    out: dict[str, list[str]] = {}
    for cls, mn in ELEMENT_CLASSES.items():
        mod = repo.mod(mn)
        td = mod.defs.get(cls + "Kwargs")
        if not isinstance(td, ast.ClassDef):
            raise AnalysisError(f"anchor missing: {mn}.{cls}Kwargs")
        keys: list[str] = []
        seen = set()
        stack = [td]
        while stack:
            c = stack.pop()
            for s in c.body:
                if isinstance(s, ast.AnnAssign) and isinstance(s.target, ast.Name) and s.target.id not in seen:
                    seen.add(s.target.id)
                    keys.append(s.target.id)
            for b in c.bases:
                if isinstance(b, ast.Name) and isinstance(mod.defs.get(b.id), ast.ClassDef) and b.id.endswith("Kwargs"):
                    stack.append(mod.defs[b.id])
        unknown = [k for k in keys if k not in NOT_SDL and k not in SDL_VISIBLE]
        if unknown:
            raise AnalysisError(f"{cls}Kwargs has unclassified key(s) {unknown}: classify them in rules/sdl_rules.py")
        out[cls] = keys
    return out


ELEMENT_OF = {
    (frozenset({"GraphQLObjectType", "GraphQLInterfaceType"}), "fields"): "GraphQLField",
    (frozenset({"GraphQLObjectType"}), "fields"): "GraphQLField",
    (frozenset({"GraphQLInterfaceType"}), "fields"): "GraphQLField",
    (frozenset({"GraphQLInputObjectType"}), "fields"): "GraphQLInputField",
    (frozenset({"GraphQLEnumType"}), "values"): "GraphQLEnumValue",
    (frozenset({"GraphQLField"}), "args"): "GraphQLArgument",
    (frozenset({"GraphQLDirective"}), "args"): "GraphQLArgument",
}


def typed_reads(repo: Repo, mods: list[Module]) -> set[tuple[str, str]]:
    """(class name, attribute) pairs read in the modules, receiver typed by mypy; f"{x}" / str(x) of an
    element counts as reading its name."""
    mt = MTypes.get(repo)
    out: set[tuple[str, str]] = set()
    for mod in mods:
        # element variables bound by iterating a map of a typed element (mypy sees the cached_property maps as Any)
        elem_vars: dict[tuple[int, str], str] = {}
        for n in ast.walk(mod.tree):
            gens = []
            if isinstance(n, (ast.ListComp, ast.GeneratorExp, ast.SetComp, ast.DictComp)):
                gens = [(g.target, g.iter, n) for g in n.generators]
            elif isinstance(n, (ast.For, ast.AsyncFor)):
                gens = [(n.target, n.iter, n)]
            for target, it, scope in gens:
                src = it
                if isinstance(src, ast.Call) and call_name(src) == "enumerate" and src.args:
                    src = src.args[0]
                    target = target.elts[1] if isinstance(target, ast.Tuple) and len(target.elts) == 2 else target
                if not (isinstance(src, ast.Call) and isinstance(src.func, ast.Attribute) and src.func.attr in ("items", "values")):
                    continue
                m = src.func.value  # e.g. type_.fields
                if not (isinstance(m, ast.Attribute) and hasattr(m.value, "lineno")):
                    continue
                ty = mt.type_of(m.value, mod) or ""
                heads = {h.rsplit(".", 1)[-1] for h in top_heads(ty)}
                elem = None
                for (owners, attr), cls in ELEMENT_OF.items():
                    if m.attr == attr and heads and heads <= owners:
                        elem = cls
                if elem is None:
                    continue
                var = target.elts[1] if src.func.attr == "items" and isinstance(target, ast.Tuple) and len(target.elts) == 2 else target
                if isinstance(var, ast.Name):
                    for x in ast.walk(scope):
                        if isinstance(x, ast.Name) and x.id == var.id:
                            elem_vars[(id(x), var.id)] = elem
        for n in ast.walk(mod.tree):
            recv, attr = None, None
            if isinstance(n, ast.Attribute) and isinstance(n.ctx, ast.Load):
                recv, attr = n.value, n.attr
            elif isinstance(n, ast.FormattedValue):
                recv, attr = n.value, "name"
            elif isinstance(n, ast.Call) and isinstance(n.func, ast.Name) and n.func.id in ("str", "get_default_value_ast") and n.args:
                recv, attr = n.args[0], "name" if n.func.id == "str" else "default"
            if recv is None or not hasattr(recv, "lineno"):
                continue
            for cls in _classes_of(recv, mod, mt, elem_vars):
                out.add((cls, attr))
        # one level interprocedural: an element passed to a module-local helper is read there
        for n in ast.walk(mod.tree):
            if isinstance(n, ast.Call) and isinstance(n.func, ast.Name) and isinstance(mod.defs.get(n.func.id), FuncDef):
                callee = mod.defs[n.func.id]
                params = [a.arg for a in callee.args.args]
                for i, a in enumerate(n.args):
                    if i >= len(params):
                        break
                    classes = _classes_of(a, mod, mt, elem_vars)
                    if not classes:
                        continue
                    for x in ast.walk(callee):
                        if isinstance(x, ast.Attribute) and isinstance(x.value, ast.Name) and x.value.id == params[i] and isinstance(x.ctx, ast.Load):
                            for cls in classes:
                                out.add((cls, x.attr))
    return out


def _classes_of(recv: ast.AST, mod: Module, mt: MTypes, elem_vars: dict) -> set[str]:
    if isinstance(recv, ast.Name) and (id(recv), recv.id) in elem_vars:
        return {elem_vars[(id(recv), recv.id)]}
    ty = mt.type_of(recv, mod) if hasattr(recv, "lineno") else None
    out: set[str] = set()
    if ty:
        for h in top_heads(ty):
            cls = h.rsplit(".", 1)[-1]
            if cls in ELEMENT_CLASSES or cls == "GraphQLNamedType":
                out.add(cls)
    if not out and isinstance(recv, ast.Name):
        # inside f-strings mypy's positions differ: fall back to the parameter annotation
        fn = enclosing_function(recv)
        while fn is not None:
            if isinstance(fn, FuncDef):
                for a in fn.args.posonlyargs + fn.args.args + fn.args.kwonlyargs:
                    if a.arg == recv.id and a.annotation is not None:
                        for nm in {x.id for x in ast.walk(a.annotation) if isinstance(x, ast.Name)}:
                            if nm in ELEMENT_CLASSES or nm == "GraphQLNamedType":
                                out.add(nm)
                        return out
            fn = enclosing_function(fn)
    return out


def constructor_kwargs(repo: Repo, mod: Module) -> dict[str, set[str]]:
    """Element class -> parameter names passed (by keyword or position) in constructor calls of `mod`."""
    classes = ClassIndex(repo)
    out: dict[str, set[str]] = {}
    for c in ast.walk(mod.tree):
        if isinstance(c, ast.Call) and isinstance(c.func, ast.Name) and c.func.id in ELEMENT_CLASSES:
            if any(k.arg is None for k in c.keywords):
                continue
            names = {k.arg for k in c.keywords if k.arg}
            if c.args:
                ci = classes.get(ELEMENT_CLASSES[c.func.id], c.func.id)
                init = classes.find_method(ci, "__init__")
                if init:
                    params = [a.arg for a in init[1].args.args][1:]
                    names |= set(params[: len(c.args)])
            out.setdefault(c.func.id, set()).update(names)
    return out


def print_matrix(check: Check, repo: Repo) -> None:
    rule = "ATTR-MATRIX-PRINT"
    check.rule(
        rule,
        "for every schema element class and every SDL-visible key of its to_kwargs() (one explicit "
        "classification table; an unclassified key is an analysis error): print_schema.py (with "
        "get_default_value_ast.py) reads that attribute on a value mypy types as that class - state the "
        "printer never reads cannot survive printing",
    )
    keys = kwargs_keys(repo)
    reads = typed_reads(repo, [repo.mod("utilities.print_schema"), repo.mod("utilities.get_default_value_ast")])
    subclass_of_named = {"GraphQLScalarType", "GraphQLObjectType", "GraphQLInterfaceType", "GraphQLUnionType",
                         "GraphQLEnumType", "GraphQLInputObjectType"}
    fn_anchor = repo.func("utilities.print_schema", "print_type")
    for cls, ks in sorted(keys.items()):
        for k in ks:
            if k in NOT_SDL:
                continue
            attr = KEY_TO_ATTR.get(k, k)
            if cls == "GraphQLSchema" and k in ("query", "mutation", "subscription"):
                attr = f"{k}_type"
            if cls == "GraphQLSchema" and k == "types":
                attr = "type_map"
            ok = (cls, attr) in reads or (cls in subclass_of_named and ("GraphQLNamedType", attr) in reads)
            # the name of fields / arguments / enum values is the key of the owning map
            if not ok and k == "name" and cls in ("GraphQLField", "GraphQLArgument", "GraphQLInputField", "GraphQLEnumValue"):
                continue
            if cls == "GraphQLInputField" and not ok:
                ok = ("GraphQLArgument", attr) in reads  # printed through print_input_value(name, arg)
            check.ob(rule, fn_anchor, f"{cls}.{attr} is printed", ok,
                     "read by the printer" if ok else f"print_schema never reads `{attr}` of a {cls}: it is lost in the SDL")
    check.floor(rule, 30, "visible (class, key) cells")


def build_matrix(check: Check, repo: Repo) -> None:
    rule = "ATTR-MATRIX-BUILD"
    check.rule(
        rule,
        "for every SDL-visible key: extend_schema.py passes that keyword when it constructs the class "
        "from SDL nodes (GraphQLX(key=...)); a key the builder never passes is dropped on rebuild",
    )
    mod = repo.mod("utilities.extend_schema")
    passed = constructor_kwargs(repo, mod)
    keys = kwargs_keys(repo)
    anchor = mod.tree.body[0]
    for cls, ks in sorted(keys.items()):
        if cls == "GraphQLSchema":
            continue
        for k in ks:
            if k in NOT_SDL:
                continue
            if k == "name" and cls in ("GraphQLField", "GraphQLArgument", "GraphQLInputField", "GraphQLEnumValue"):
                continue
            ok = k in passed.get(cls, set())
            check.ob(rule, anchor, f"{cls}({k}=...) passed by the SDL builder", ok,
                     "passed" if ok else f"extend_schema.py never passes `{k}` when building a {cls} from SDL")
    check.floor(rule, 25, "visible (class, key) cells")


def type_dispatch(check: Check, repo: Repo) -> None:
    from rules.schema_rules import NAMED_TYPES

    rule = "DISPATCH-EXH"
    check.rule(rule, "every member of a closed class family has a handling arm in the dispatch")
    pt = repo.func("utilities.print_schema", "print_type")
    cases = {unparse(c.pattern.cls) for m in walk_body(pt) if isinstance(m, ast.Match) for c in m.cases
             if isinstance(c.pattern, ast.MatchClass)}
    for cls in sorted(NAMED_TYPES):
        check.ob(rule, pt, f"print_type: case {cls}()", cls in cases, "has a case" if cls in cases else "no case: the type is not printed")
    es = repo.mod("utilities.extend_schema")
    bn = next((f for f in es.functions() if f.name == "build_named_type"), None)
    if bn is None:
        raise AnalysisError("extend_schema.build_named_type missing")
    from rules.astmodel import AstModel

    model = AstModel(repo)
    fam = {c.name for c in model.subclasses("TypeDefinitionNode")}
    cases = {unparse(c.pattern.cls) for m in walk_body(bn) if isinstance(m, ast.Match) for c in m.cases
             if isinstance(c.pattern, ast.MatchClass)}
    for cls in sorted(fam):
        check.ob(rule, bn, f"build_named_type: case {cls}()", cls in cases, "has a case" if cls in cases else "no case: definitions of this kind cannot be rebuilt")


def block_guard(check: Check, repo: Repo) -> None:
    rule = "BLOCK-GUARD"
    check.rule(
        rule,
        "in print_schema.py every StringValueNode(..., block=E) has E false/absent or E = "
        "is_printable_as_block_string(<the same value>): arbitrary description text takes the block form "
        "only when the predicate allows it",
    )
    mod = repo.mod("utilities.print_schema")
    n = 0
    for c in ast.walk(mod.tree):
        if isinstance(c, ast.Call) and call_name(c) == "StringValueNode":
            kw = {k.arg: k.value for k in c.keywords}
            b = kw.get("block")
            v = kw.get("value")
            ok = b is None or (isinstance(b, ast.Constant) and not b.value) or (
                isinstance(b, ast.Call) and call_name(b) == "is_printable_as_block_string" and v is not None
                and [unparse(a) for a in b.args] == [unparse(v)])
            n += 1
            check.ob(rule, c, f"{node_text(c, 70)} in {qualname_of(c)}", ok,
                     "quoted form, or block form guarded by the predicate on the same value" if ok else "block form not guarded by is_printable_as_block_string(value)")
    check.floor(rule, 3, "StringValueNode constructions")


PART_OF_CALL = {
    "print_description": "description", "print_implemented_interfaces": "interfaces", "print_fields": "fields",
    "print_args": "arguments", "print_deprecated": "directives", "print_specified_by_url": "directives",
}
PART_OF_ATTR = {"is_repeatable": "repeatable", "locations": "locations", "is_one_of": "directives", "type": "type"}
PART_OF_LOCAL = {"values": "values", "fields": "fields", "possible_types": "types", "default_value_ast": "default_value"}
PARSER_LOCAL = {"args": "arguments", "types": "types"}


def print_order(check: Check, repo: Repo) -> None:
    rule = "PRINT-ORDER"
    check.rule(
        rule,
        "the parts of a printed definition appear in the order in which the parser method for that "
        "definition consumes them (description, name, interfaces/arguments, type, default, directives, "
        "repeatable, locations, body): a printer that emits two parts in the other order produces SDL "
        "the parser rejects or reads differently",
    )
    pairs = [
        ("print_directive", "parse_directive_definition"),
        ("print_scalar", "parse_scalar_type_definition"),
        ("print_object", "parse_object_type_definition"),
        ("print_interface", "parse_interface_type_definition"),
        ("print_union", "parse_union_type_definition"),
        ("print_enum", "parse_enum_type_definition"),
        ("print_input_object", "parse_input_object_type_definition"),
        ("print_input_value", "parse_input_value_def"),
    ]
    pmod = repo.mod("language.parser")
    for pf, parse in pairs:
        fn = repo.func("utilities.print_schema", pf)
        pm = repo.func("language.parser", f"Parser.{parse}")
        params = [a.arg for a in fn.args.args]
        elem = params[-1] if pf == "print_input_value" else params[0]
        rets = [r for r in walk_body(fn) if isinstance(r, ast.Return) and r.value is not None]
        if not rets:
            raise AnalysisError(f"{pf}: no return")
        printed = _parts_in_order(rets[-1].value, elem, fn)
        # parser order: first assignment of each local
        order = []
        for s in pm.body:
            if isinstance(s, ast.Assign) and isinstance(s.targets[0], ast.Name):
                nm = PARSER_LOCAL.get(s.targets[0].id, s.targets[0].id)
                if nm not in order and nm != "start":
                    order.append(nm)
        rank = {p: i for i, p in enumerate(order)}
        seq = [p for p in printed if p in rank]
        ok = seq == sorted(seq, key=lambda p: rank[p]) and len(seq) >= 2
        check.ob(rule, fn, f"{pf} vs Parser.{parse}", ok,
                 f"printed parts {seq} follow parser order {order}" if ok else
                 f"printed parts {seq} do not follow the parser's order {order}")


def _parts_in_order(expr: ast.AST, elem: str, fn: ast.AST) -> list[str]:
    """SDL parts contributed by the leaves of `expr`, left to right."""
    out: list[str] = []

    def visit(e: ast.AST) -> None:
        if isinstance(e, ast.BinOp):
            visit(e.left)
            visit(e.right)
            return
        if isinstance(e, ast.IfExp):
            for sub in (e.test, e.body, e.orelse):
                visit(sub)
            return
        if isinstance(e, ast.JoinedStr):
            for v in e.values:
                visit(v)
            return
        if isinstance(e, ast.FormattedValue):
            if isinstance(e.value, ast.Name) and e.value.id in (elem, "name"):
                out.append("name")
            else:
                visit(e.value)
            return
        if isinstance(e, ast.Call):
            cn = call_name(e)
            if cn in PART_OF_CALL:
                out.append(PART_OF_CALL[cn])
                return
            if cn == "print_block" and e.args and isinstance(e.args[0], ast.Name):
                out.append(PART_OF_LOCAL.get(e.args[0].id, e.args[0].id))
                return
            for a in e.args:
                visit(a)
            if isinstance(e.func, ast.Attribute):
                visit(e.func.value)
            return
        if isinstance(e, ast.Attribute):
            if isinstance(e.value, ast.Name) and e.value.id == elem:
                if e.attr == "name":
                    out.append("name")
                elif e.attr in PART_OF_ATTR:
                    out.append(PART_OF_ATTR[e.attr])
            else:
                visit(e.value)
            return
        if isinstance(e, ast.Name):
            if e.id in PART_OF_LOCAL:
                out.append(PART_OF_LOCAL[e.id])
            elif e.id == "arg_decl":
                # print_input_value builds the declaration incrementally
                for s in walk_body(fn):
                    if isinstance(s, ast.Assign) and unparse(s.targets[0]) == "arg_decl":
                        visit(s.value)
                    if isinstance(s, ast.AugAssign) and unparse(s.target) == "arg_decl":
                        out.append("default_value")
            return
        if isinstance(e, (ast.GeneratorExp, ast.ListComp)):
            visit(e.generators[0].iter)
            return
        for c in ast.iter_child_nodes(e):
            visit(c)

    visit(expr)
    # collapse repeats
    res: list[str] = []
    for p in out:
        if not res or res[-1] != p:
            res.append(p)
    return res


def description_verbatim(check: Check, repo: Repo) -> None:
    rule = "DESC-VERBATIM"
    check.rule(
        rule,
        "print_description passes the description text to the string printer unchanged and post-processes "
        "the printed literal only by prefixing line breaks with the indentation (`.replace('\\n', '\\n' + "
        "indentation)`): no regex substitution / strip on the literal, which would alter block string "
        "content (white-space-only lines are content)",
    )
    fn = repo.func("utilities.print_schema", "print_description")
    calls = [c for c in walk_body(fn) if isinstance(c, ast.Call)]
    bad = [c for c in calls if (isinstance(c.func, ast.Attribute) and c.func.attr in ("sub", "subn", "strip", "rstrip", "lstrip", "splitlines", "expandtabs"))]
    repl = [c for c in calls if isinstance(c.func, ast.Attribute) and c.func.attr == "replace"]
    ok = not bad and all(len(c.args) == 2 and unparse(c.args[0]) == "'\\n'" and unparse(c.args[1]).startswith("'\\n' +") for c in repl)
    sv = [c for c in calls if call_name(c) == "StringValueNode"]
    ok = ok and len(sv) == 1 and any(k.arg == "value" and unparse(k.value) == "description" for k in sv[0].keywords)
    check.ob(rule, fn, "description printed verbatim, only re-indented", ok,
             "only the indentation replace is applied" if ok else f"extra text processing: {[unparse(c)[:60] for c in bad or repl]}")
    # the same as a who-may-touch rule: the printed literal (the result of print_ast(StringValueNode(...)) and every local
    # computed from it) is handed to no function at all and receives no method call other than that `.replace`
    lit = {t.id for s_ in walk_body(fn) if isinstance(s_, ast.Assign) and any(isinstance(x, ast.Call) and call_name(x) == "print_ast" for x in ast.walk(s_.value))
           for t in s_.targets if isinstance(t, ast.Name)}
    grew = True
    while grew:
        grew = False
        for s_ in walk_body(fn):
            if isinstance(s_, ast.Assign) and any(isinstance(x, ast.Name) and x.id in lit for x in ast.walk(s_.value)):
                for t in s_.targets:
                    if isinstance(t, ast.Name) and t.id not in lit:
                        lit.add(t.id)
                        grew = True
    touched = []
    for c in calls:
        if isinstance(c.func, ast.Attribute) and isinstance(c.func.value, ast.Name) and c.func.value.id in lit and c.func.attr != "replace":
            touched.append(c)
        if any(isinstance(x, ast.Name) and x.id in lit for a in list(c.args) + [k.value for k in c.keywords] for x in ast.walk(a)):
            touched.append(c)
    check.ob(rule, touched[0] if touched else fn, "the printed literal is handed to no other function", bool(lit) and not touched,
             f"locals holding the literal: {sorted(lit)}; only concatenated and re-indented" if lit and not touched else
             f"the literal is processed by {[unparse(c)[:60] for c in touched]}: block string content may change (white-space-only lines, "
             "characters str.splitlines() treats as line ends)" if lit else "the local holding print_ast(...) was not found")


# -- C18 ------------------------------------------------------------------------------------------


def introspection_fields(repo: Repo) -> dict[str, set[str]]:
    """__X type name -> field names, read from the field dict literals of type/introspection.py."""
    mod = repo.mod("type.introspection")
    out: dict[str, set[str]] = {}
    for c in mod.classes():
        # classes like TypeFields / FieldFields hold the field maps in a `fields`-building method
        pass
    for stmt in ast.walk(mod.tree):
        if isinstance(stmt, ast.Call) and call_name(stmt) == "GraphQLObjectType":
            kw = {k.arg: k.value for k in stmt.keywords}
            nm = kw.get("name")
            fs = kw.get("fields")
            if isinstance(nm, ast.Constant) and fs is not None:
                names = _field_names(repo, mod, fs)
                if names:
                    out[nm.value] = names
    return out


def _field_names(repo: Repo, mod: Module, e: ast.AST) -> set[str]:
    if isinstance(e, ast.Lambda):
        return _field_names(repo, mod, e.body)
    if isinstance(e, ast.Dict):
        return {k.value for k in e.keys if isinstance(k, ast.Constant)}
    if isinstance(e, ast.Name) and isinstance(mod.defs.get(e.id), ast.ClassDef):
        # fields=SchemaFields: a mapping class whose __new__ returns the dict literal
        for m in mod.defs[e.id].body:
            if isinstance(m, FuncDef) and m.name == "__new__":
                for r in ast.walk(m):
                    if isinstance(r, ast.Return) and isinstance(r.value, ast.Dict):
                        return {k.value for k in r.value.keys if isinstance(k, ast.Constant)}
    # `fields=TypeFields.fields` / `fields=lambda: {...}` / attribute of a helper class whose method returns a dict
    if isinstance(e, ast.Attribute) and isinstance(e.value, ast.Name):
        cls = mod.defs.get(e.value.id)
        if isinstance(cls, ast.ClassDef):
            for m in cls.body:
                if isinstance(m, FuncDef) and m.name == e.attr:
                    for r in ast.walk(m):
                        if isinstance(r, ast.Return) and isinstance(r.value, ast.Dict):
                            return {k.value for k in r.value.keys if isinstance(k, ast.Constant)}
    if isinstance(e, ast.Call):
        for a in e.args:
            n = _field_names(repo, mod, a)
            if n:
                return n
    return set()


def query_selections(repo: Repo) -> dict[str, set[str]]:
    """Fields selected by the introspection query template with every option on, grouped by the
    introspection type of the enclosing selection (reconstructed statically)."""
    mod = repo.mod("utilities.get_introspection_query")
    fn = repo.func("utilities.get_introspection_query", "get_introspection_query")
    env = _all_on(fn)
    text = _template_text(repo, mod, fn, env)
    return _selections_by_type(text), text  # type: ignore[return-value]


def _all_on(fn: ast.AST) -> dict:
    """Every boolean option switched on; other options keep a small concrete value."""
    env: dict = {}
    for a in fn.args.args + fn.args.kwonlyargs:  # type: ignore[attr-defined]
        ann = unparse(a.annotation) if a.annotation is not None else ""
        env[a.arg] = True if ann == "bool" else 2
    return env


def _template_text(repo: Repo, mod: Module, fn: ast.AST, env: dict) -> str:
    """Evaluate the function body far enough to get the returned template string."""
    local_funcs = {s.name: s for s in fn.body if isinstance(s, FuncDef)}  # type: ignore[attr-defined]

    class Ev(Evaluator):
        def _call(self, e: ast.Call):  # type: ignore[override]
            if isinstance(e.func, ast.Name) and e.func.id in local_funcs:
                f = local_funcs[e.func.id]
                ps = [a.arg for a in f.args.args]
                sub_env = dict(self.env)
                for p, a in zip(ps, e.args):
                    sub_env[p] = self.eval(a)
                defaults = f.args.defaults
                for p, d in zip(ps[len(ps) - len(defaults):], defaults):
                    sub_env.setdefault(p, self.eval(d))
                sub = Ev(self.repo, self.mod, sub_env)
                return sub._exec_block(f.body)
            if isinstance(e.func, ast.Name) and e.func.id == "dedent":
                return self.eval(e.args[0])
            return super()._call(e)

    ev = Ev(repo, mod, dict(env))
    try:
        v = ev._exec_block(fn.body)  # type: ignore[attr-defined]
    except NotStatic as e:
        raise AnalysisError(f"introspection query template not static: {e}") from e
    if not isinstance(v, str):
        raise AnalysisError("get_introspection_query: the folded body does not return a string")
    return v


def _selections_by_type(text: str) -> dict[str, set[str]]:
    """Tiny selection-set reader: returns {context label: field names} where the context label is the
    chain of the parent field / fragment type condition."""
    import re as _re

    toks = _re.findall(r"\.\.\.|[A-Za-z_][A-Za-z0-9_]*|[{}()$:@!\[\]]|\"[^\"]*\"", text)
    frag_types: dict[str, str] = {}
    out: dict[str, set[str]] = {}
    stack: list[str] = []
    i = 0
    pending: str | None = None
    paren = 0
    while i < len(toks):
        t = toks[i]
        if t == "(":
            paren += 1
        elif t == ")":
            paren -= 1
        elif paren:
            pass
        elif t == "query" and not stack:
            pending = "__Query"
            # skip name
        elif t == "fragment" and not stack:
            name, typ = toks[i + 1], toks[i + 3]
            frag_types[name] = typ
            pending = typ
            i += 3
        elif t == "{":
            stack.append(pending or "?")
            pending = None
        elif t == "}":
            stack.pop()
        elif t == "...":
            if toks[i + 1] == "on":
                pending = toks[i + 2]
                i += 2
            else:
                i += 1  # fragment spread name
        elif t == "@":
            i += 1
        elif _re.match(r"[A-Za-z_]", t) and stack:
            ctx = stack[-1]
            out.setdefault(ctx, set()).add(t)
            pending = f"{ctx}.{t}"
        i += 1
    return out


FIELD_RESULT_TYPE = {
    # parent context . field -> introspection type of the sub-selection
    "__Query.__schema": "__Schema",
    "__Schema.queryType": "__Type", "__Schema.mutationType": "__Type", "__Schema.subscriptionType": "__Type",
    "__Schema.types": "__Type", "__Schema.directives": "__Directive",
    "__Type.fields": "__Field", "__Type.inputFields": "__InputValue", "__Type.interfaces": "__Type",
    "__Type.enumValues": "__EnumValue", "__Type.possibleTypes": "__Type", "__Type.ofType": "__Type",
    "__Field.args": "__InputValue", "__Field.type": "__Type", "__InputValue.type": "__Type",
    "__Directive.args": "__InputValue",
}


def three_way(check: Check, repo: Repo) -> None:
    rule = "THREE-WAY"
    check.rule(
        rule,
        "(a) the field names of each __X introspection type, (b) the fields the introspection query "
        "template selects per type with every option switched on (reconstructed statically from the "
        "f-string and folded through the selection structure) and (c) the keys build_client_schema reads "
        "from the corresponding introspection dicts agree: (b) is a subset of (a), and every key read in "
        "(c) is selected in (b)",
    )
    a = introspection_fields(repo)
    if len(a) < 6:
        raise AnalysisError(f"introspection types not recognised: {sorted(a)}")
    sel, text = query_selections(repo)
    # resolve contexts to types
    by_type: dict[str, set[str]] = {}
    for ctx, names in sel.items():
        typ = _resolve_ctx(ctx)
        if typ:
            by_type.setdefault(typ, set()).update(names)
    anchor = repo.func("utilities.get_introspection_query", "get_introspection_query")
    for typ, names in sorted(by_type.items()):
        if typ == "__Query":
            continue
        known = a.get(typ)
        if known is None:
            check.ob(rule, anchor, f"query selects on {typ}", False, "no such introspection type")
            continue
        for nm in sorted(names):
            ok = nm in known or nm == "__typename"
            check.ob(rule, anchor, f"query: {typ}.{nm}", ok, "defined by the introspection type" if ok else f"{typ} has no field `{nm}`: the standard query does not validate")
    # (c) keys read by build_client_schema
    bc = repo.mod("utilities.build_client_schema")
    mt = MTypes.get(repo)
    td_to_type = {"IntrospectionSchema": "__Schema", "IntrospectionType": "__Type", "IntrospectionField": "__Field",
                  "IntrospectionInputValue": "__InputValue", "IntrospectionEnumValue": "__EnumValue",
                  "IntrospectionDirective": "__Directive"}
    n_reads = 0
    for n in ast.walk(bc.tree):
        key = None
        recv = None
        if isinstance(n, ast.Subscript) and isinstance(n.slice, ast.Constant) and isinstance(n.slice.value, str) and isinstance(n.ctx, ast.Load):
            key, recv = n.slice.value, n.value
        elif isinstance(n, ast.Call) and isinstance(n.func, ast.Attribute) and n.func.attr == "get" and n.args and isinstance(n.args[0], ast.Constant) \
                and isinstance(n.args[0].value, str):
            key, recv = n.args[0].value, n.func.value
        if key is None or not hasattr(recv, "lineno"):
            continue
        ty = mt.type_of(recv, bc) or ""
        import re as _re2
        names = {x.rsplit(".", 1)[-1] for x in _re2.findall(r"TypedDict\('([\w.]+)'", ty)}
        typs = set()
        for nm in names:
            if nm in td_to_type:
                typs.add(td_to_type[nm])
            elif nm == "IntrospectionQuery":
                typs.add("__Query")
            elif nm.startswith("Introspection") and nm.endswith(("Type", "TypeRef")):
                typs.add("__Type")
        if len(typs) != 1:
            continue
        typ = next(iter(typs))
        n_reads += 1
        selected = by_type.get(typ, set())
        ok = key in selected
        check.ob(rule, n, f"client reads {typ}[{key!r}] in {qualname_of(n)}", ok,
                 "selected by the standard query" if ok else f"`{key}` is read from a {typ} result but the standard query never selects it")
    check.note(introspection_types=len(a), query_contexts=len(by_type), client_reads=n_reads)
    check.floor(rule, 40, "query selections + client reads")


def _resolve_ctx(ctx: str) -> str | None:
    parts = ctx.split(".")
    cur = parts[0]
    if not cur.startswith("__"):
        return None
    for p in parts[1:]:
        nxt = FIELD_RESULT_TYPE.get(f"{cur}.{p}")
        if nxt is None:
            return None
        cur = nxt
    return cur


def option_map(check: Check, repo: Repo) -> None:
    rule = "OPTION-MAP"
    check.rule(
        rule,
        "each option of get_introspection_query controls exactly the field/argument it is named for: "
        "the query text with one option off, compared with the all-on text (both reconstructed "
        "statically), differs exactly by the expected tokens",
    )
    mod = repo.mod("utilities.get_introspection_query")
    fn = repo.func("utilities.get_introspection_query", "get_introspection_query")
    all_on = _all_on(fn)
    params = [p for p, v in all_on.items() if v is True]
    import re as _re

    def toks(t: str) -> list[str]:
        return _re.findall(r"\.\.\.|[A-Za-z_][A-Za-z0-9_]*|[{}()$:@!\[\]]", t)

    base = toks(_template_text(repo, mod, fn, dict(all_on)))
    expect = {
        "descriptions": {"description"},
        "specified_by_url": {"specifiedByURL"},
        "directive_is_repeatable": {"isRepeatable"},
        "schema_description": {"description"},
        "input_value_deprecation": {"includeDeprecated", "true", "isDeprecated", "deprecationReason"},
        "experimental_directive_deprecation": {"isDeprecated", "deprecationReason", "includeDeprecated", "true"},
        "one_of": {"isOneOf"},
    }
    from collections import Counter

    for p in params:
        if p not in expect:
            raise AnalysisError(f"get_introspection_query has an option `{p}` the rule does not know: add it to OPTION-MAP")
        env = dict(all_on)
        env[p] = False
        off = toks(_template_text(repo, mod, fn, env))
        diff = Counter(base) - Counter(off)
        extra = Counter(off) - Counter(base)
        removed = {t for t in diff if t not in "{}():"}
        ok = bool(removed) and removed <= expect[p] and not {t for t in extra if t not in "{}():"}
        check.ob(rule, fn, f"option {p}", ok,
                 f"switching it off removes exactly {sorted(removed)}" if ok else
                 f"switching it off removes {sorted(removed)} and adds {sorted(extra)}; expected a subset of {sorted(expect[p])}")
    # independence: every combination removes the sum of what its switched-off options remove alone
    import itertools

    single = {}
    for p in params:
        env = dict(all_on)
        env[p] = False
        single[p] = Counter(base) - Counter(toks(_template_text(repo, mod, fn, env)))
    bad = []
    n_combos = 0
    for bits in itertools.product((True, False), repeat=len(params)):
        env = dict(all_on)
        off = [p for p, b in zip(params, bits) if not b]
        if len(off) < 2:
            continue
        for p in off:
            env[p] = False
        n_combos += 1
        got = Counter(toks(_template_text(repo, mod, fn, env)))
        want = Counter(base)
        for p in off:
            want = want - single[p]
        if got != want:
            delta = (got - want) + (want - got)
            bad.append((off, sorted(t for t in delta if t not in "{}():")))
    check.ob(rule, fn, f"options are independent ({n_combos} combinations of two or more switched-off options)", not bad,
             "each combination removes exactly what its options remove one by one" if not bad else
             f"{len(bad)} combinations deviate, e.g. with {bad[0][0]} off the query differs in {bad[0][1]}: "
             "one option's fields depend on another option")


RESOLVER_CLASS = {
    "GraphQLSchema": "SchemaFields", "GraphQLDirective": "DirectiveFields", "GraphQLField": "FieldFields",
    "GraphQLArgument": "InputValueFields", "GraphQLInputField": "InputValueFields", "GraphQLEnumValue": "EnumValueFields",
    "GraphQLScalarType": "TypeFields", "GraphQLObjectType": "TypeFields", "GraphQLInterfaceType": "TypeFields",
    "GraphQLUnionType": "TypeFields", "GraphQLEnumType": "TypeFields", "GraphQLInputObjectType": "TypeFields",
}


def introspect_matrix(check: Check, repo: Repo) -> None:
    rule = "ATTR-MATRIX-INTROSPECT"
    check.rule(
        rule,
        "for every SDL-visible key that introspection can carry: the resolver class of the corresponding "
        "__X type in type/introspection.py reads the attribute (attribute load or getattr constant), and "
        "build_client_schema.py passes the keyword when constructing the class",
    )
    keys = kwargs_keys(repo)
    imod = repo.mod("type.introspection")
    reads: dict[str, set[str]] = {}
    for rc in set(RESOLVER_CLASS.values()):
        cls = imod.defs.get(rc)
        if not isinstance(cls, ast.ClassDef):
            raise AnalysisError(f"anchor missing: type.introspection.{rc}")
        got: set[str] = set()
        for n in ast.walk(cls):
            if isinstance(n, ast.Attribute) and isinstance(n.ctx, ast.Load):
                got.add(n.attr)
            if isinstance(n, ast.Call) and call_name(n) == "getattr" and len(n.args) >= 2 and isinstance(n.args[1], ast.Constant):
                got.add(n.args[1].value)
            if isinstance(n, ast.Call) and call_name(n) in ("get_default_value_ast", "value_to_literal", "ast_from_value"):
                got.add("default")
        reads[rc] = got
    bc = repo.mod("utilities.build_client_schema")
    passed = constructor_kwargs(repo, bc)
    named = {"GraphQLScalarType", "GraphQLObjectType", "GraphQLInterfaceType", "GraphQLUnionType", "GraphQLEnumType", "GraphQLInputObjectType"}
    # keys that the introspection schema does not expose at all (by specification)
    NOT_INTROSPECTED = {("GraphQLSchema", "directives"): None}
    for cls, ks in sorted(keys.items()):
        rc = RESOLVER_CLASS[cls]
        anchor = imod.defs[rc]
        for k in ks:
            if k in NOT_SDL or (k == "name" and cls not in named | {"GraphQLDirective"}):
                continue
            attr = KEY_TO_ATTR.get(k, k)
            if cls == "GraphQLSchema":
                attr = {"query": "query_type", "mutation": "mutation_type", "subscription": "subscription_type", "types": "type_map"}.get(k, attr)
            r_ok = attr in reads[rc] or (attr == "default" and ("default" in reads[rc] or "default_value" in reads[rc]))
            if not r_ok and (cls, attr) == ("GraphQLUnionType", "types"):
                # union members are reported through schema.get_possible_types(type_)
                r_ok = "get_possible_types" in reads[rc]
            check.ob(rule, anchor, f"introspection ({rc}) reads {cls}.{attr}", r_ok,
                     "read by a resolver" if r_ok else f"no resolver of {rc} reads `{attr}`: introspection cannot report it")
            if cls != "GraphQLSchema":
                b_ok = k in passed.get(cls, set())
                check.ob(rule, bc.tree.body[0], f"client builder passes {cls}({k}=...)", b_ok,
                         "passed" if b_ok else f"build_client_schema never passes `{k}` to {cls}")
    check.floor(rule, 50, "matrix cells")


def enum_tables(check: Check, repo: Repo) -> None:
    rule = "ENUM-TABLES"
    check.rule(
        rule,
        "the introspection enums (__DirectiveLocation, __TypeKind) map every value name K to the member K "
        "of the Python enum they mirror, and cover all of its members: a mismatched entry makes "
        "serialising that location/kind fail (or report another one)",
    )
    mod = repo.mod("type.introspection")
    n = 0
    for c in ast.walk(mod.tree):
        if isinstance(c, ast.Call) and call_name(c) == "GraphQLEnumType":
            kw = {k.arg: k.value for k in c.keywords}
            vals = kw.get("values")
            nm = kw.get("name")
            if not isinstance(vals, ast.Dict) or not isinstance(nm, ast.Constant):
                continue
            enum_cls = None
            for k, v in zip(vals.keys, vals.values):
                if not isinstance(k, ast.Constant):
                    continue
                member = None
                if isinstance(v, ast.Call) and v.args and isinstance(v.args[0], ast.Attribute) and isinstance(v.args[0].value, ast.Name):
                    enum_cls = v.args[0].value.id
                    member = v.args[0].attr
                n += 1
                ok = member == k.value
                check.ob(rule, v, f"{nm.value}[{k.value!r}]", ok,
                         f"-> {enum_cls}.{member}" if ok else f"maps to {enum_cls}.{member}: value name and member disagree")
            if enum_cls:
                from sa.tables import resolve_name

                r = resolve_name(repo, mod, enum_cls)
                node = r[0].defs.get(r[1]) if r else None
                if isinstance(node, ast.ClassDef):
                    members = {s.targets[0].id for s in node.body if isinstance(s, ast.Assign) and isinstance(s.targets[0], ast.Name)
                               and not s.targets[0].id.startswith("_")}
                    keys = {k.value for k in vals.keys if isinstance(k, ast.Constant)}
                    check.ob(rule, c, f"{nm.value} covers {enum_cls}", keys == members,
                             f"{len(keys)} names" if keys == members else f"missing {sorted(members - keys)} extra {sorted(keys - members)}")
    check.floor(rule, 20, "introspection enum entries")


# -- C19 ------------------------------------------------------------------------------------------


def _nested(fn_root: ast.AST, name: str) -> ast.AST | None:
    for n in ast.walk(fn_root):
        if isinstance(n, FuncDef) and n.name == name:
            return n
    return None


def _norm(node: ast.AST, subst: dict[str, str]) -> str:
    txt = unparse(node)
    for a, b in subst.items():
        txt = txt.replace(a, b)
    return " ".join(txt.split())


def extend_build_agree(check: Check, repo: Repo) -> None:
    rule = "EXTEND-BUILD-AGREE"
    check.rule(
        rule,
        "extending equals building: for every type kind the mapper used by extend_schema (existing config + "
        "extension nodes) and the `case` of build_named_type (definition + extension nodes) fold the "
        "extension nodes through the same build_* helpers and, for scalars, the same specifiedBy fold "
        "expression; object_mapper and interface_mapper are equal modulo the kind name",
    )
    mod = repo.mod("utilities.extend_schema")
    root = mod.tree
    bn = _nested(root, "build_named_type")
    if bn is None:
        raise AnalysisError("build_named_type missing")
    cases = {}
    for m in walk_body(bn):
        if isinstance(m, ast.Match):
            for c in m.cases:
                if isinstance(c.pattern, ast.MatchClass):
                    cases[unparse(c.pattern.cls)] = c
    kinds = {
        "object": ("object_mapper", "ObjectTypeDefinitionNode"), "interface": ("interface_mapper", "InterfaceTypeDefinitionNode"),
        "enum": ("enum_mapper", "EnumTypeDefinitionNode"), "union": ("union_mapper", "UnionTypeDefinitionNode"),
        "input_object": ("input_object_mapper", "InputObjectTypeDefinitionNode"), "scalar": ("scalar_mapper", "ScalarTypeDefinitionNode"),
    }

    def helpers(node: ast.AST) -> set[str]:
        return {call_name(c) for c in ast.walk(node) if isinstance(c, ast.Call) and call_name(c).startswith(("build_", "get_specified_by_url", "is_one_of"))
                and call_name(c) not in ("build_named_type",)}

    for kind, (mapper_name, node_cls) in kinds.items():
        mp = _nested(root, mapper_name)
        case = cases.get(node_cls)
        if mp is None or case is None:
            check.ob(rule, bn, f"{kind}: mapper and build case exist", False, f"mapper {mapper_name}: {mp is not None}; case {node_cls}: {case is not None}")
            continue
        hm = helpers(mp)
        hb = helpers(ast.Module(body=case.body, type_ignores=[]))
        hb_cmp = hb - {"is_one_of"}  # OneOf can only be declared on the definition
        ok = hm == hb_cmp and bool(hm)
        check.ob(rule, mp, f"{kind}: extension nodes folded through the same helpers", ok,
                 f"{sorted(hm)}" if ok else f"extend path uses {sorted(hm)}, build path uses {sorted(hb_cmp)}")
        if kind == "scalar":
            def fold(node: ast.AST) -> list[str]:
                # the whole body of the loop that updates specified_by_url (one `x = f(n) or x`, or its if-statement form)
                return [_norm(ast.Module(body=l.body, type_ignores=[]), {}) for l in ast.walk(node) if isinstance(l, ast.For)
                        and any(isinstance(s, ast.Assign) and unparse(s.targets[0]) == "specified_by_url" for s in ast.walk(l))]
            fm, fb = fold(mp), fold(ast.Module(body=case.body, type_ignores=[]))
            ok = fm == fb and len(fm) == 1
            check.ob(rule, mp, "scalar: specifiedBy fold over the extension nodes", ok,
                     fm[0] if ok else f"extend path folds {fm}, build path folds {fb}")
    om, im = _nested(root, "object_mapper"), _nested(root, "interface_mapper")
    if om is not None and im is not None:
        a = _norm(ast.Module(body=om.body, type_ignores=[]), {".object[": ".KIND["})
        b = _norm(ast.Module(body=im.body, type_ignores=[]), {".interface[": ".KIND["})
        check.ob(rule, om, "object_mapper == interface_mapper modulo the kind", a == b, "identical after substitution" if a == b else "the two mappers differ")
    # the mapper map covers every kind
    sm = _nested(root, "schema_mapper")
    if sm is None:
        raise AnalysisError("schema_mapper missing")
    bad = []
    for nm in ast.walk(sm):
        if isinstance(nm, ast.Name) and nm.id == "schema_extensions" and isinstance(nm.ctx, ast.Load):
            p = parent(nm)
            while p is not None and p is not sm:
                if isinstance(p, (ast.IfExp, ast.If)) and "schema_def" in unparse(p.test):
                    bad.append(nm)
                p = parent(p)
    uses = [n for n in ast.walk(sm) if isinstance(n, ast.Call) and call_name(n) == "get_operation_types"]
    ok = not bad and any("schema_extensions" in unparse(u) for u in uses) and any("schema_def" in unparse(u) for u in uses)
    check.ob(rule, sm, "schema_mapper incorporates the schema definition and, unconditionally, all schema extensions", ok,
             f"{len(uses)} get_operation_types call(s)" if ok else "schema extensions are only used under a condition on schema_def (or not at all)")


def cross_schema_identity(check: Check, repo: Repo) -> None:
    rule = "CROSS-SCHEMA-IDENTITY"
    check.rule(
        rule,
        "find_schema_changes compares elements of two different schema objects: types are compared by "
        "name / printed form / class, never by object identity (`is`, is_equal_type, is_type_sub_type_of "
        "on an old and a new value) - equal schemas built separately share no type objects",
    )
    mod = repo.mod("utilities.find_schema_changes")
    n = 0
    for c in ast.walk(mod.tree):
        if isinstance(c, ast.Call) and call_name(c) in ("is_equal_type", "is_type_sub_type_of", "do_types_overlap"):
            args = " ".join(unparse(a) for a in c.args)
            mixes = "old" in args and "new" in args
            n += 1
            check.ob(rule, c, f"{node_text(c, 70)} in {qualname_of(c)}", not mixes,
                     "same-schema comparison" if not mixes else "identity-based type comparison between an old-schema and a new-schema type")
        if isinstance(c, ast.Compare) and len(c.ops) == 1 and isinstance(c.ops[0], (ast.Is, ast.IsNot)):
            l, r = unparse(c.left), unparse(c.comparators[0])
            if ("old" in l and "new" in r) or ("new" in l and "old" in r):
                ok = l.endswith(".__class__") and r.endswith(".__class__")
                n += 1
                check.ob(rule, c, f"{unparse(c)} in {qualname_of(c)}", ok,
                         "class comparison" if ok else "identity comparison between an old-schema and a new-schema object")
    # type changes are detected through str()/name
    strs = [c for c in ast.walk(mod.tree) if isinstance(c, ast.Compare) and "str(old" in unparse(c) and "str(new" in unparse(c)]
    check.ob(rule, mod.tree.body[0], "type changes detected by printed form", len(strs) >= 4, f"{len(strs)} str(old.type) != str(new.type) comparisons")


def oneof_definition_only(check: Check, repo: Repo, rule: str = "EXTEND-BUILD-AGREE") -> None:
    """Clause of EXTEND-BUILD-AGREE: @oneOf is read from the definition node on both paths."""
    mod = repo.mod("utilities.extend_schema")
    bn = _nested(mod.tree, "build_named_type")
    mp = _nested(mod.tree, "input_object_mapper")
    if bn is None or mp is None:
        raise AnalysisError("build_named_type / input_object_mapper missing")
    calls = [c for c in ast.walk(bn) if isinstance(c, ast.Call) and call_name(c) == "is_one_of"]
    if not calls:
        check.ob(rule, bn, "input object: @oneOf read from the definition", False, "build_named_type never calls is_one_of")
        return
    mapper_reads = [c for c in ast.walk(mp) if isinstance(c, ast.Call) and call_name(c) == "is_one_of"]
    for c in calls:
        in_comp = any(isinstance(a, (ast.GeneratorExp, ast.ListComp, ast.SetComp, ast.For)) for a in _ancestors_until(c, bn))
        arg = unparse(c.args[0]) if c.args else ""
        ok = (arg == "ast_node" and not in_comp) or bool(mapper_reads)
        check.ob(rule, c, "input object: @oneOf is taken from the definition node on the build path, as the extend path keeps the existing flag", ok,
                 "is_one_of(ast_node)" if ok else
                 f"build path evaluates is_one_of({arg}) over extension nodes, input_object_mapper never looks at extensions: "
                 "`extend input X @oneOf` makes build(A+B) OneOf and extend(build(A), B) not")


def _ancestors_until(n: ast.AST, stop: ast.AST):
    p = parent(n)
    while p is not None and p is not stop:
        yield p
        p = parent(p)


def root_overwrite(check: Check, repo: Repo, rule: str = "ROOT-OVERWRITE") -> None:
    from rules.write_effect import top_heads
    from sa.mtypes import MTypes

    check.rule(
        rule,
        "build_ast_schema fills in the conventionally named root types only where it found one: every store "
        "to schema_kwargs['query' | 'mutation' | 'subscription'] assigns a value whose static type excludes "
        "None (a type object taken from the loop), so a root that `extend schema { mutation: Changes }` "
        "already provided is never replaced by 'not found'",
    )
    fn = repo.func("utilities.build_ast_schema", "build_ast_schema")
    mt = MTypes.get(repo)
    n = 0
    for s in walk_body(fn):
        if not (isinstance(s, ast.Assign) and len(s.targets) == 1 and isinstance(s.targets[0], ast.Subscript)):
            continue
        t = s.targets[0]
        if unparse(t.value) != "schema_kwargs" or not (isinstance(t.slice, ast.Constant) and t.slice.value in ("query", "mutation", "subscription")):
            continue
        n += 1
        ty = mt.type_of(s.value)
        heads = top_heads(ty) if ty else set()
        maybe_none = "None" in heads or (isinstance(s.value, ast.Call) and any(
            isinstance(c, ast.Call) and isinstance(c.func, ast.Attribute) and c.func.attr == "get" for c in ast.walk(s.value)))
        check.ob(rule, s, f"schema_kwargs[{t.slice.value!r}] = {node_text(s.value, 50)}", not maybe_none,
                 f"value type {ty or 'unknown'} excludes None" if not maybe_none else
                 f"the assigned value may be None ({ty}): an operation type set by a schema extension is overwritten with 'not found'")
    if n < 3:
        raise AnalysisError("build_ast_schema: stores of the conventional root types not found")


def or_fold(check: Check, repo: Repo, rule: str = "OR-FOLD") -> None:
    check.rule(
        rule,
        "in extend_schema.py a fold of the form `value = f(node) or value` (a later node overrides only when "
        "it provides something) runs over extension nodes only; the value of the type's own definition node "
        "is taken as it is. Folding the definition node through `or` as well turns a falsy but valid "
        "definition value - @specifiedBy(url: \"\"), an empty description - into None, so the schema no "
        "longer prints to the text it was built from",
    )
    mod = repo.mod("utilities.extend_schema")
    n = 0
    for loop in ast.walk(mod.tree):
        if not isinstance(loop, ast.For) or not isinstance(loop.target, ast.Name):
            continue
        var = loop.target.id
        folds = [
            s for s in ast.walk(loop)
            if isinstance(s, ast.Assign) and isinstance(s.value, ast.BoolOp) and isinstance(s.value.op, ast.Or)
            and len(s.targets) == 1 and unparse(s.value.values[-1]) == unparse(s.targets[0])
            and any(isinstance(x, ast.Name) and x.id == var for x in ast.walk(s.value.values[0]))
        ]
        # the statement form of the same fold: `tmp = f(node)` ... `if tmp: value = tmp`
        tmp = {t.id for s_ in loop.body if isinstance(s_, ast.Assign) and any(isinstance(x, ast.Name) and x.id == var for x in ast.walk(s_.value))
               for t in s_.targets if isinstance(t, ast.Name)}
        for i_ in loop.body:
            if isinstance(i_, ast.If) and isinstance(i_.test, ast.Name) and i_.test.id in tmp and not i_.orelse:
                folds += [s_ for s_ in i_.body if isinstance(s_, ast.Assign) and isinstance(s_.value, ast.Name) and s_.value.id == i_.test.id]
        if not folds:
            continue
        fn = enclosing_function(loop)
        it = loop.iter
        elems: list[str] = []
        src = it
        if isinstance(it, ast.Name) and fn is not None:
            defs = [s for s in ast.walk(fn) if isinstance(s, (ast.Assign, ast.AnnAssign)) and s.value is not None
                    and unparse(s.targets[0] if isinstance(s, ast.Assign) else s.target) == it.id and s.lineno < loop.lineno]
            if defs:
                src = defs[-1].value
        if isinstance(src, (ast.List, ast.Tuple)):
            elems = [unparse(e.value if isinstance(e, ast.Starred) else e) for e in src.elts if not isinstance(e, ast.Starred)]
        includes_def = any(e in ("ast_node", "node", "def_", "type_node") or e.endswith(".ast_node") for e in elems)
        for f in folds:
            n += 1
            check.ob(rule, f, f"{qualname_of(f)}: `{node_text(f, 70)}` over `{unparse(it)}`", not includes_def,
                     "folds extension nodes only" if not includes_def else
                     f"the loop also runs over the definition node ({elems}): its own falsy value is replaced by the fallback")
    if n < 1:
        check.ob(rule, mod.tree, "extend_schema.py: override folds over extension nodes", True, "no fold of this shape in the module", nontrivial=False)


def change_flag(check: Check, repo: Repo, rule: str = "CHANGE-FLAG") -> None:
    from sa.cfg import CFG, no_exc

    check.rule(
        rule,
        "ExtendSchemaImpl.extend_schema_args marks the schema as changed only for definitions it collected: on "
        "the CFG of the scan loop no path leads from the loop head to `is_schema_changed = True` without "
        "passing a statement of one of the collecting arms (schema / directive / type definitions and "
        "extensions). An executable definition - an operation *or a fragment* - must fall through to "
        "`continue`, otherwise extending with a document that adds nothing returns a copy instead of the "
        "original schema object",
    )
    fn = repo.func("utilities.extend_schema", "ExtendSchemaImpl.extend_schema_args")
    flags = [s for s in walk_body(fn) if isinstance(s, ast.Assign) and unparse(s.targets[0]) == "is_schema_changed"
             and isinstance(s.value, ast.Constant) and s.value.value is True]
    if not flags:
        raise AnalysisError("extend_schema_args: `is_schema_changed = True` not found")
    cfg = CFG(fn)
    for flag in flags:
        loop = next((a for a in _ancestors_until(flag, fn) if isinstance(a, ast.For)), None)
        if loop is None:
            raise AnalysisError("extend_schema_args: the change flag is not set inside the scan loop")
        var = unparse(loop.target)
        arm_stmts: list[ast.AST] = []
        for n in ast.walk(loop):
            if isinstance(n, ast.If) and f"isinstance({var}," in unparse(n.test):
                arm_stmts += [s for s in n.body if not isinstance(s, ast.Continue)]
            elif isinstance(n, ast.Match) and unparse(n.subject) == var:
                for case in n.cases:
                    if any(isinstance(p, ast.MatchClass) for p in ast.walk(case.pattern)):
                        arm_stmts += [s for s in case.body if not isinstance(s, ast.Continue)]
        collect = {nd for s in arm_stmts for nd in cfg.nodes_of(s)}
        head = cfg.nodes_of(loop)[0]
        goals = set(cfg.nodes_of(flag))
        path = cfg.find_path(head, lambda nd: nd in goals, follow=no_exc, avoid=lambda nd: nd in collect)
        check.ob(rule, flag, "is_schema_changed = True only after a collecting arm", path is None and bool(collect),
                 f"{len(arm_stmts)} collecting statements; every path to the flag passes one" if path is None and collect else
                 "a definition that matches no collecting arm still sets the flag: " + (cfg.describe_path(path) if path else "no collecting arm found"))


def mapper_new_nodes_only(check: Check, repo: Repo, rule: str = "EXTEND-BUILD-AGREE") -> None:
    """Clause of EXTEND-BUILD-AGREE: a mapper builds additions from the *new* extension nodes only."""
    mod = repo.mod("utilities.extend_schema")
    n = 0
    for name in ("object_mapper", "interface_mapper", "enum_mapper", "union_mapper", "input_object_mapper"):
        mp = _nested(mod.tree, name)
        if mp is None:
            continue
        local = {
            s.targets[0].id: s.value for s in ast.walk(mp)
            if isinstance(s, ast.Assign) and len(s.targets) == 1 and isinstance(s.targets[0], ast.Name)
        }
        for c in ast.walk(mp):
            if not (isinstance(c, ast.Call) and call_name(c).startswith("build_") and c.args):
                continue
            arg = c.args[0]
            src = local.get(arg.id, arg) if isinstance(arg, ast.Name) else arg
            from_config = any(
                isinstance(x, ast.Subscript) and unparse(x.value) == "config"
                and not (isinstance(x.slice, ast.Constant) and x.slice.value == "name")  # the lookup key
                for x in ast.walk(src))
            from_new = "type_extensions" in unparse(src)
            n += 1
            check.ob(rule, c, f"{name}: {call_name(c)}({unparse(arg)}) builds from the new extension nodes", from_new and not from_config,
                     f"{unparse(arg)} = {unparse(src)[:70]}" if from_new and not from_config else
                     f"`{unparse(arg)}` = `{unparse(src)[:80]}` includes nodes already applied to the existing type (config[...]): "
                     "their `implements` clauses / members are added a second time")
    if n < 5:
        raise AnalysisError("extend_schema mappers: build_* calls not found")


def args_oneline(check: Check, repo: Repo, rule: str = "ARGS-ONELINE") -> None:
    import itertools

    from sa.tables import Evaluator, NotStatic, Rec

    check.rule(
        rule,
        "print_args takes the one-line form (the return that joins the arguments with ', ' and never calls "
        "print_description) exactly when *no* argument has a description - its condition is folded for all "
        "assignments of {no description, description} to two arguments: only (none, none) may select it; a "
        "condition that also selects it when just one argument lacks a description drops the descriptions of "
        "the others from the printed schema",
    )
    fn = repo.func("utilities.print_schema", "print_args")
    mod = repo.mod("utilities.print_schema")
    def one_line_value(st: ast.AST) -> bool:
        v = st.value if isinstance(st, (ast.Return, ast.Assign)) and getattr(st, "value", None) is not None else None
        return v is not None and '", "' in unparse(v).replace("'", '"') and "print_description" not in unparse(v)

    cands = [s for s in walk_body(fn) if isinstance(s, ast.If) and any(one_line_value(r) for r in s.body)]
    if len(cands) != 1:
        raise AnalysisError("print_args: the one-line branch was not found")
    from sa.tables import inline_locals

    test = inline_locals(cands[0].test, fn, keep={"args"})  # `has_description = any(...)`; `if not has_description:`
    bad = []
    for d1, d2 in itertools.product((None, "text"), repeat=2):
        args = {"a": Rec(description=d1), "b": Rec(description=d2)}
        try:
            got = bool(Evaluator(repo, mod, {"args": args}).eval(test))
        except NotStatic as ex:
            raise AnalysisError(f"print_args: condition no longer foldable: {ex}") from ex
        want = d1 is None and d2 is None
        if got != want:
            bad.append(((d1, d2), got))
    check.ob(rule, cands[0], f"print_args: one-line form iff no description (`{unparse(test)[:60]}`)", not bad,
             "4 of 4 cells" if not bad else "; ".join(f"descriptions {c} -> one-line={g}" for c, g in bad))


def root_names_agree(check: Check, repo: Repo, rule: str = "ROOT-NAMES-AGREE") -> None:
    check.rule(
        rule,
        "printer and builder agree on the naming convention for root types: build_ast_schema takes *any* type "
        "named Query / Mutation / Subscription as a root when no schema definition is present, so "
        "has_default_root_operation_types may omit the schema definition only if each root is identical to "
        "schema.get_type(<that name>) - a kind-agnostic lookup of the same three names (an enum called "
        "Subscription next to no subscription root needs an explicit schema block)",
    )
    fn = repo.func("utilities.print_schema", "has_default_root_operation_types")
    cmps = [c for c in walk_body(fn) if isinstance(c, ast.Compare) and len(c.ops) == 1 and isinstance(c.ops[0], ast.Is)]
    names = set()
    for c in cmps:
        r = c.comparators[0]
        ok = isinstance(r, ast.Call) and unparse(r.func) == "schema.get_type" and len(r.args) == 1 and isinstance(r.args[0], ast.Constant)
        if ok:
            names.add(r.args[0].value)
        check.ob(rule, c, f"has_default_root_operation_types: {unparse(c)[:70]}", ok,
                 "compared with the type of that name, whatever its kind" if ok else
                 f"`{unparse(r)[:60]}` is not schema.get_type(<name>): the printer's notion of 'default root' differs from the builder's")
    b = repo.func("utilities.build_ast_schema", "build_ast_schema")
    bnames = {c.comparators[0].value for c in walk_body(b) if isinstance(c, ast.Compare) and len(c.ops) == 1 and isinstance(c.ops[0], ast.Eq)
              and isinstance(c.comparators[0], ast.Constant) and isinstance(c.comparators[0].value, str) and unparse(c.left) in ("type_name", "type_.name")}
    # the pattern spelling: `match type_.name: case "Query": ...`
    for m_ in walk_body(b):
        if isinstance(m_, ast.Match) and unparse(m_.subject) in ("type_name", "type_.name"):
            for case in m_.cases:
                for p_ in ast.walk(case.pattern):
                    if isinstance(p_, ast.MatchValue) and isinstance(p_.value, ast.Constant) and isinstance(p_.value.value, str):
                        bnames.add(p_.value.value)
    check.ob(rule, fn, "the same three names on both sides", names == bnames and len(names) == 3,
             f"{sorted(names)}" if names == bnames else f"printer {sorted(names)} vs builder {sorted(bnames)}")
    # when the convention applies: exactly when the document has no schema *definition* (extensions of the
    # schema - `extend schema @dir` - do not define the roots): the stores of the conventional roots lie under
    # tests of the definition node alone
    stores = [s for s in walk_body(b) if isinstance(s, ast.Assign) and any(
        isinstance(t, ast.Subscript) and isinstance(t.slice, ast.Constant) and t.slice.value in ("query", "mutation", "subscription") for t in s.targets)]
    for s in stores:
        keys: set[str] = set()
        for a in ancestors(s):
            if isinstance(a, (ast.If, ast.While)):
                for x in ast.walk(a.test):
                    if isinstance(x, ast.Subscript) and isinstance(x.slice, ast.Constant) and isinstance(x.slice.value, str) and "kwargs" in unparse(x.value):
                        keys.add(x.slice.value)
                for x in ast.walk(a.test):  # a local holding one of the entries
                    if isinstance(x, ast.Name):
                        for d in walk_body(b):
                            if isinstance(d, ast.Assign) and any(isinstance(t, ast.Name) and t.id == x.id for t in d.targets):
                                for y in ast.walk(d.value):
                                    if isinstance(y, ast.Subscript) and isinstance(y.slice, ast.Constant) and isinstance(y.slice.value, str) and "kwargs" in unparse(y.value):
                                        keys.add(y.slice.value)
        extra = keys - {"ast_node"}
        ok = "ast_node" in keys and not extra
        check.ob(rule, s, f"build_ast_schema: `{unparse(s.targets[0])}` by convention", ok,
                 "applies exactly when there is no schema definition" if ok else
                 (f"the convention also depends on {sorted(extra)}: a document that only *extends* the schema loses its conventional roots"
                  if extra else "not guarded by a test of the schema definition node"))


CLIENT_BUILDERS = {
    "build_directive": "GraphQLDirective", "build_field": "GraphQLField", "build_argument": "GraphQLArgument",
    "build_input_value": "GraphQLInputField", "build_interface_def": "GraphQLInterfaceType", "build_union_def": "GraphQLUnionType",
    "build_input_object_def": "GraphQLInputObjectType",
}


def client_builds_from_data(check: Check, repo: Repo, rule: str = "CLIENT-FROM-DATA") -> None:
    check.rule(
        rule,
        "build_client_schema constructs directives, fields, arguments, input fields, interfaces, unions and "
        "input objects from the introspection result and from nothing else: every return of the corresponding "
        "builder is a call of the element's class (only the *reserved* named types - built-in scalars and "
        "introspection types, which cannot be declared differently - may be taken from the library). A "
        "directive named like a specified one may be declared with another signature; substituting the "
        "library's object makes the client schema differ from the schema that was introspected",
    )
    mod = repo.mod("utilities.build_client_schema")
    n = 0
    for name, cls in CLIENT_BUILDERS.items():
        fn = _nested(mod.tree, name)
        if fn is None:
            raise AnalysisError(f"build_client_schema: nested builder {name} not found")
        rets = [r for r in ast.walk(fn) if isinstance(r, ast.Return) and r.value is not None and enclosing_function(r) is fn]
        for r in rets:
            v = r.value
            if isinstance(v, ast.Name):
                # `directive = GraphQLDirective(...); return directive`
                defs = [s_.value for s_ in ast.walk(fn) if isinstance(s_, ast.Assign) and len(s_.targets) == 1
                        and isinstance(s_.targets[0], ast.Name) and s_.targets[0].id == v.id]
                if len(defs) == 1:
                    v = defs[0]
            ok = isinstance(v, ast.Call) and call_name(v) == cls
            n += 1
            check.ob(rule, r, f"{name}: return {node_text(v, 50)}", ok,
                     f"constructs {cls} from the introspected data" if ok else
                     f"returns `{node_text(v, 60)}`, not a {cls}(...) built from the introspection result")
    if n < 7:
        raise AnalysisError("CLIENT-FROM-DATA: builder returns not found")


# -- round 4 ------------------------------------------------------------------------------------------------

_IDENTITY_COMPARATORS = {"is_equal_type", "is_type_sub_type_of", "do_types_overlap"}


def cross_schema_by_name(check: Check, repo: Repo, rule: str = "CROSS-SCHEMA-BY-NAME") -> None:
    from rules.write_effect import top_heads
    from sa.mtypes import MTypes

    check.rule(
        rule,
        "find_schema_changes compares two *different* schema objects, whose equally named types are different objects "
        "(a schema and the client schema rebuilt from its introspection share nothing but the built-in scalars): types are "
        "compared by their printed form or name, never by identity. No call of the identity-based comparators of "
        "utilities.type_comparators (is_equal_type, is_type_sub_type_of, do_types_overlap) and no ==/!=/is/is not whose two "
        "operands are GraphQL type objects (static types from mypy) occurs in the module; such a comparison reports "
        "`Role! -> Role!` as a change between a schema and its own reconstruction",
    )
    mod = repo.mod("utilities.find_schema_changes")
    mt = MTypes.get(repo)
    calls = [c for c in ast.walk(mod.tree) if isinstance(c, ast.Call) and call_name(c).split(".")[-1] in _IDENTITY_COMPARATORS]
    for c in calls:
        check.ob(rule, c, f"{qualname_of(c)}: {unparse(c)[:70]}", False,
                 "identity-based comparator applied to types of two schemas: equal types of different schema objects never compare equal")
    n = bad = 0
    for c in ast.walk(mod.tree):
        if not (isinstance(c, ast.Compare) and len(c.ops) == 1 and isinstance(c.ops[0], (ast.Eq, ast.NotEq, ast.Is, ast.IsNot))):
            continue
        n += 1
        heads = [top_heads(mt.type_of(x) or "") for x in (c.left, c.comparators[0])]
        # untyped fallback (values out of dict_diff are Any): `<a>.type <op> <b>.type`, `<a>.of_type <op> <b>.of_type`
        chains = [x for x in (c.left, c.comparators[0]) if isinstance(x, ast.Attribute) and x.attr in ("type", "of_type")]
        by_shape = len(chains) == 2 and unparse(chains[0]) != unparse(chains[1])
        if by_shape or all(h and all(t.startswith("graphql.type.definition.GraphQL") and not t.endswith(("Kwargs", "Map")) for t in h) for h in heads):
            bad += 1
            check.ob(rule, c, f"{qualname_of(c)}: `{unparse(c)[:70]}`", False,
                     "two GraphQL type objects are compared directly; across schemas only str(type) / type.name are comparable")
    check.ob(rule, mod.tree, f"find_schema_changes: {n} comparisons, {len(calls)} comparator calls", not calls and not bad,
             "types are compared by text/name only" if not calls and not bad else "see the sites above", nontrivial=False)
    if n < 20:
        raise AnalysisError("find_schema_changes: comparisons not found")


DEFAULT_PRINTERS = [
    ("type.introspection", "InputValueFields.default_value"),
    ("utilities.print_schema", "print_input_value"),
]


def default_verbatim(check: Check, repo: Repo, rule: str = "DEFAULT-VERBATIM") -> None:
    check.rule(
        rule,
        "the two writers of a default value - the `defaultValue` resolver of introspection and print_schema's "
        "print_input_value - print the literal get_default_value_ast(<input value>) returns as it is: the argument of "
        "print_ast is that call's result (directly or through a local bound once), with no node transformation in "
        "between. The two texts are compared by 'prints identically' (SDL of the client schema vs. SDL of the original); "
        "a writer that normalises (sorts object fields) on one side only makes them differ",
    )
    for mn, q in DEFAULT_PRINTERS:
        fn = repo.func(mn, q)
        prints = [c for c in walk_body(fn) if isinstance(c, ast.Call) and call_name(c) == "print_ast" and c.args]
        if not prints:
            check.ob(rule, fn, f"{q}: prints the default literal", False, "no print_ast(...) call")
            continue
        for c in prints:
            a = c.args[0]
            if isinstance(a, ast.Name):
                defs = [s.value for s in walk_body(fn) if isinstance(s, ast.Assign) and any(isinstance(t, ast.Name) and t.id == a.id for t in s.targets)]
                if len(defs) == 1:
                    a = defs[0]
            ok = isinstance(a, ast.Call) and call_name(a) == "get_default_value_ast"
            check.ob(rule, c, f"{q}: print_ast({unparse(c.args[0])[:40]})", ok,
                     "the literal of get_default_value_ast, unmodified" if ok else f"prints `{unparse(a)[:70]}`: the literal is transformed before printing")


def assume_valid_fresh(check: Check, repo: Repo, rule: str = "ASSUME-VALID-FRESH") -> None:
    check.rule(
        rule,
        "extend_schema and build_ast_schema decide afresh whether the produced schema counts as validated: every "
        "`assume_valid=<expr>` keyword (and the positional hand-over to extend_schema_args) in these two modules is computed "
        "- locals expanded - from the function's own assume_valid parameter alone: never from the kwargs of the schema being "
        "extended (config['assume_valid'], schema.assume_valid) and never from assume_valid_sdl, which only vouches for the "
        "*document* (skip the SDL rules), not for the schema built from it. An extension can add anything, "
        "so the validity a caller vouched for on the base schema says nothing about the result; inheriting the flag lets "
        "an invalid extended schema skip validate_schema and fail at execution time",
    )
    from sa.loader import enclosing_function
    from sa.tables import inline_locals

    exprs: list[ast.AST] = []
    for mn in ("utilities.extend_schema", "utilities.build_ast_schema"):
        mod = repo.mod(mn)
        kws = [kw for c in ast.walk(mod.tree) if isinstance(c, ast.Call) for kw in c.keywords if kw.arg == "assume_valid"]
        # dict literals {"assume_valid": ...} count as well
        pairs = [(k, v) for d in ast.walk(mod.tree) if isinstance(d, ast.Dict) for k, v in zip(d.keys, d.values)
                 if isinstance(k, ast.Constant) and k.value == "assume_valid"]
        exprs += [kw.value for kw in kws] + [v for _k, v in pairs]
        # ... and the positional hand-over to ExtendSchemaImpl.extend_schema_args(kwargs, document, assume_valid)
        exprs += [c.args[2] for c in ast.walk(mod.tree) if isinstance(c, ast.Call) and call_name(c).split(".")[-1] == "extend_schema_args" and len(c.args) >= 3]
    if len(exprs) < 3:
        raise AnalysisError("extend_schema / build_ast_schema: assume_valid hand-overs not found")
    # a rebinding of the parameter itself (`assume_valid = assume_valid or assume_valid_sdl`) is a hand-over too:
    # whatever is stored into the name must again be computed from the parameter alone
    seen_fns: list[ast.AST] = []
    for e0 in list(exprs):
        f0 = enclosing_function(e0)
        if f0 is None or isinstance(f0, ast.Lambda) or any(f0 is f for f in seen_fns):
            continue
        seen_fns.append(f0)
        for s in ast.walk(f0):
            tv: list[tuple[ast.AST, ast.AST]] = []
            if isinstance(s, ast.Assign):
                tv = [(t, s.value) for t in s.targets]
            elif isinstance(s, (ast.AnnAssign, ast.AugAssign, ast.NamedExpr)) and getattr(s, "value", None) is not None:
                tv = [(s.target, s.value)]
            for t, v in tv:
                if isinstance(t, ast.Name) and t.id == "assume_valid" and enclosing_function(s) is f0:
                    exprs.append(v)
    for e0 in exprs:
        f0 = enclosing_function(e0)
        e = inline_locals(e0, f0, keep={"assume_valid"}) if f0 is not None and not isinstance(f0, ast.Lambda) else e0
        names = {x.id for x in ast.walk(e) if isinstance(x, ast.Name)}
        foreign = sorted(names - {"assume_valid"}) + [unparse(x)[:40] for x in ast.walk(e) if isinstance(x, (ast.Subscript, ast.Attribute))]
        check.ob(rule, e0, f"{qualname_of(e0)}: assume_valid={unparse(e0)[:50]}", not foreign,
                 "the caller's own flag" if not foreign else f"also depends on {foreign}: the flag of the extended schema is inherited")


THUNK_KEYS = {"fields", "interfaces", "types"}
THUNK_MODULES = ("utilities.extend_schema", "utilities.lexicographic_sort_schema", "utilities.map_schema_config", "utilities.build_client_schema")


def lazy_thunks(check: Check, repo: Repo, rule: str = "LAZY-THUNKS") -> None:
    from sa.loader import ancestors

    check.rule(
        rule,
        "named types refer to each other cyclically, so the builders and transformers hand `fields`, `interfaces` and "
        "the member `types` of a union to the type constructors as *thunks* that are run only after every type of the "
        "new schema has been registered. In extend_schema, lexicographic_sort_schema, map_schema_config and "
        "build_client_schema: (1) the value given for one of these keys of a type is a lambda or a local def; (2) a thunk "
        "of the old configuration (`config['fields']()` ...) is invoked only inside such a deferred body; (3) nothing a "
        "thunk uses was computed eagerly by one of the enclosing function's `build_*` helpers (which resolve type "
        "references). An eager evaluation resolves names while the type map is still being filled: sorting or extending a "
        "valid schema then fails with 'Unknown type' for some definition orders and works for others",
    )
    n = 0
    for mn in THUNK_MODULES:
        mod = repo.mod(mn)
        # (1)
        for c in ast.walk(mod.tree):
            pairs: list[tuple[str, ast.AST]] = []
            keys: set[str] = set()
            if isinstance(c, ast.Call):
                pairs = [(kw.arg, kw.value) for kw in c.keywords if kw.arg]
            elif isinstance(c, ast.Dict):
                pairs = [(k.value, v) for k, v in zip(c.keys, c.values) if isinstance(k, ast.Constant) and isinstance(k.value, str)]
            keys = {k for k, _ in pairs}
            if keys & {"query", "directives", "mutation", "subscription"}:
                continue  # the kwargs of a schema: its `types` is a plain collection
            for k, v in pairs:
                if k not in THUNK_KEYS:
                    continue
                n += 1
                fn = enclosing_function(c)
                deferred = isinstance(v, ast.Lambda)
                if isinstance(v, ast.Name) and fn is not None:
                    deferred = any((isinstance(s, ast.FunctionDef) and s.name == v.id) or (
                        isinstance(s, ast.Assign) and isinstance(s.value, ast.Lambda) and any(isinstance(t, ast.Name) and t.id == v.id for t in s.targets))
                        for s in ast.walk(fn))
                    deferred = deferred or v.id in {a.arg for a in getattr(fn, "args", ast.arguments(posonlyargs=[], args=[], kwonlyargs=[], kw_defaults=[], defaults=[])).args}
                check.ob(rule, v, f"{qualname_of(c)[-60:]}: {k}={unparse(v)[:40]}", deferred,
                         "a thunk" if deferred else "evaluated on the spot: type references are resolved before all types are registered")
        # (2)
        for c in ast.walk(mod.tree):
            if isinstance(c, ast.Call) and isinstance(c.func, ast.Subscript) and isinstance(c.func.slice, ast.Constant) and c.func.slice.value in THUNK_KEYS:
                n += 1
                inside = any(isinstance(a, ast.Lambda) for a in ancestors(c))
                if not inside:
                    # a local def that is handed over as the value of a thunk key is a deferred body as well
                    f_in = enclosing_function(c)
                    f_out = enclosing_function(f_in) if f_in is not None else None
                    if isinstance(f_in, ast.FunctionDef) and f_out is not None:
                        for k_ in ast.walk(f_out):
                            vals = [kw.value for kw in k_.keywords if kw.arg in THUNK_KEYS] if isinstance(k_, ast.Call) else (
                                [v for kk, v in zip(k_.keys, k_.values) if isinstance(kk, ast.Constant) and kk.value in THUNK_KEYS] if isinstance(k_, ast.Dict) else [])
                            if any(isinstance(v, ast.Name) and v.id == f_in.name for v in vals):
                                inside = True
                check.ob(rule, c, f"{qualname_of(c)[-60:]}: {unparse(c)}", inside,
                         "invoked inside a deferred body" if inside else "an old thunk is run while the new types are still being created")
        # (3)
        for fn in mod.functions():
            if isinstance(fn, ast.Lambda):
                continue
            lambdas = [l for l in walk_body(fn) if isinstance(l, ast.Lambda) and any(
                (isinstance(p_, ast.keyword) and p_.arg in THUNK_KEYS) for p_ in [parent(l)])]
            if not lambdas:
                continue
            eager = {t.id: s for s in fn.body if isinstance(s, ast.Assign) and isinstance(s.value, ast.Call) and call_name(s.value).startswith("build_")
                     for t in s.targets if isinstance(t, ast.Name)}
            for l in lambdas:
                used = sorted({x.id for x in ast.walk(l.body) if isinstance(x, ast.Name) and x.id in eager})
                n += 1
                check.ob(rule, l, f"{qualname_of(l)[-60:]}: thunk for `{parent(l).arg}`", not used,
                         "everything it needs is computed when it runs" if not used else
                         f"uses {used}, computed eagerly by `{unparse(eager[used[0]].value)[:50]}` (line {eager[used[0]].lineno}) before the thunk runs")
    if n < 30:
        raise AnalysisError(f"LAZY-THUNKS: only {n} sites found")


def introspection_depth_lists(check: Check, repo: Repo, rule: str = "DEPTH-LISTS") -> None:
    check.rule(
        rule,
        "MaxIntrospectionDepthRule counts exactly the list fields of __Type through which a query can come back to "
        "__Type - derived from type/introspection.py: the entries of TypeFields whose type is a list of __Type itself or "
        "of a type that has a field of type __Type (__Field, __InputValue). That is {fields, interfaces, possibleTypes, "
        "inputFields}; `enumValues` (a list of __EnumValue, which has no type field) and `args` (not a field of __Type) are "
        "not counted. Counting more rejects ad-hoc introspection selections that the specification's tooling sends and "
        "that execute without error ('Maximum introspection depth exceeded' at two nested type lists)",
    )
    im = repo.mod("type.introspection")
    # which meta types have a field whose type mentions _Type
    field_maps = {c.name: c for c in im.classes() if c.name.endswith("Fields")}

    def entries(cname: str) -> dict[str, str]:
        c = field_maps.get(cname)
        out: dict[str, str] = {}
        if c is None:
            return out
        for d in ast.walk(c):
            if isinstance(d, ast.Dict):
                for k, v in zip(d.keys, d.values):
                    if isinstance(k, ast.Constant) and isinstance(v, ast.Call) and call_name(v) == "GraphQLField" and v.args:
                        out[str(k.value)] = unparse(v.args[0])
                break
        return out

    owner_of = {"_Field": "FieldFields", "_InputValue": "InputValueFields", "_EnumValue": "EnumValueFields", "_Type": "TypeFields", "_Directive": "DirectiveFields"}
    reaches_type = {t for t, cn in owner_of.items() if t == "_Type" or any("_Type)" in ty or ty.endswith("_Type") for ty in entries(cn).values())}
    type_fields = entries("TypeFields")
    if len(type_fields) < 8:
        raise AnalysisError("type/introspection.py: TypeFields entries not found")
    want = set()
    for name, ty in type_fields.items():
        if "GraphQLList(" in ty:
            elem = ty.replace("GraphQLNonNull(", "").replace("GraphQLList(", "").rstrip(")")
            if elem in reaches_type:
                want.add(name)
    fn = repo.func("validation.rules.max_introspection_depth_rule", "MaxIntrospectionDepthRule._check_depth")
    def _names(t: ast.AST) -> bool:
        return isinstance(t, (ast.Tuple, ast.List, ast.Set)) and len(t.elts) >= 3 and all(isinstance(e, ast.Constant) and isinstance(e.value, str) for e in t.elts)

    tuples = [t for t in walk_body(fn) if _names(t)]
    if not tuples:
        # the names may live in a module-level constant (frozenset / tuple) the function tests membership in
        dmod = repo.mod("validation.rules.max_introspection_depth_rule")
        used = {x.id for x in walk_body(fn) if isinstance(x, ast.Name)}
        for st in dmod.tree.body:
            if isinstance(st, (ast.Assign, ast.AnnAssign)):
                tg = st.targets[0] if isinstance(st, ast.Assign) else st.target
                if isinstance(tg, ast.Name) and tg.id in used and st.value is not None:
                    tuples += [t for t in ast.walk(st.value) if _names(t)]
    if len(tuples) != 1:
        raise AnalysisError("_check_depth: the tuple of counted field names was not found")
    got = {e.value for e in tuples[0].elts}
    check.ob(rule, tuples[0], f"_check_depth counts {sorted(got)}", got == want,
             f"= the recursive list fields of __Type derived from TypeFields ({sorted(want)})" if got == want else
             f"derived from TypeFields: {sorted(want)}; extra {sorted(got - want)}, missing {sorted(want - got)}")


def type_lookup_from_schema(check: Check, repo: Repo, rule: str = "TYPE-LOOKUP") -> None:
    from sa.tables import inline_locals

    check.rule(
        rule,
        "`__type(name:)` answers from the same table as `__schema { types }`: the resolver MetaFields.type returns "
        "`info.schema.get_type(<name>)` and nothing else (locals expanded) - no fallback to a global table of built-in "
        "types. A fallback (`or specified_scalar_types.get(name)`) makes `__type(name: Float)` describe a type that "
        "the schema's own type list does not contain, so single-type lookups and the full list disagree",
    )
    fn = repo.func("type.introspection", "MetaFields.type")
    rets = [r for r in walk_body(fn) if isinstance(r, ast.Return) and r.value is not None]
    if not rets:
        raise AnalysisError("MetaFields.type: no return")
    for r in rets:
        v = inline_locals(r.value, fn)
        ok = isinstance(v, ast.Call) and unparse(v.func).endswith("schema.get_type") and len(v.args) == 1
        check.ob(rule, r, f"MetaFields.type: return {unparse(r.value)[:60]}", ok,
                 "the schema's own type map" if ok else f"`{unparse(v)[:70]}` is not a plain lookup in the schema's type map")


def sort_permutes(check: Check, repo: Repo, rule: str = "SORT-PERMUTES") -> None:
    check.rule(
        rule,
        "lexicographic_sort_schema changes only ordering: every entry a config mapper overrides has the form "
        "`key: [lambda:] SORTER(config[key][()])` - the sorter applied directly to the collection stored under the *same* "
        "key - where SORTER is a helper of the module that returns a permutation of its argument (`sorted(arg, ...)`, or a "
        "dict rebuilt over `sorted(arg, ...)` without a filter). A filter, a slice, an `or None`, or the collection of "
        "another key makes the sorted schema differ from the original in content (find_schema_changes reports removals)",
    )
    mod = repo.mod("utilities.lexicographic_sort_schema")
    fn = repo.func("utilities.lexicographic_sort_schema", "lexicographic_sort_schema")
    # 1. the permutation helpers
    perms: set[str] = set()
    helpers = [f for f in mod.tree.body if isinstance(f, ast.FunctionDef) and f is not fn]
    changed = True
    why: dict[str, str] = {}
    while changed:
        changed = False
        for h in helpers:
            if h.name in perms:
                continue
            rets = [r for r in walk_body(h) if isinstance(r, ast.Return) and r.value is not None]
            p0 = h.args.args[0].arg if h.args.args else None
            stmts = [s for s in h.body if not (isinstance(s, ast.Expr) and isinstance(s.value, ast.Constant)) and not isinstance(s, ast.FunctionDef)]
            if len(rets) != 1 or p0 is None:
                why[h.name] = "not a single-return helper"
                continue
            v = rets[0].value
            if len(stmts) == 3 and isinstance(v, ast.Name) and isinstance(stmts[1], ast.For) and stmts[2] is rets[0]:
                # the loop spelling of the dict rebuild: r = {}; for key in sorted(arg, ...): r[key] = arg[key]; return r
                init, loop = stmts[0], stmts[1]
                iv = init.value if isinstance(init, (ast.Assign, ast.AnnAssign)) else None
                it = (init.targets[0] if isinstance(init, ast.Assign) else getattr(init, "target", None))
                if isinstance(iv, ast.Dict) and not iv.keys and isinstance(it, ast.Name) and it.id == v.id and isinstance(loop.target, ast.Name) \
                        and len(loop.body) == 1 and isinstance(loop.body[0], ast.Assign) and not loop.orelse \
                        and unparse(loop.body[0].targets[0]) == f"{v.id}[{loop.target.id}]" and unparse(loop.body[0].value) == f"{p0}[{loop.target.id}]":
                    v = ast.DictComp(key=ast.Name(id=loop.target.id, ctx=ast.Load()), value=loop.body[0].value,
                                     generators=[ast.comprehension(target=loop.target, iter=loop.iter, ifs=[], is_async=0)])
                    stmts = [rets[0]]
            if len(stmts) != 1:
                why[h.name] = "not a single-return helper"
                continue

            def is_sorted_of_param(e: ast.AST) -> bool:
                return isinstance(e, ast.Call) and isinstance(e.func, ast.Name) and e.args and isinstance(e.args[0], ast.Name) and e.args[0].id == p0 \
                    and (e.func.id == "sorted" or e.func.id in perms) and not any(kw.arg == "reverse" and False for kw in e.keywords)

            ok = is_sorted_of_param(v)
            if not ok and isinstance(v, ast.DictComp) and len(v.generators) == 1:
                g = v.generators[0]
                # {key: map_[key] for key in sorted(map_, ...)}: same keys, each with its own value
                ok = not g.ifs and is_sorted_of_param(g.iter) and isinstance(g.target, ast.Name) and unparse(v.key) == g.target.id \
                    and unparse(v.value) == f"{p0}[{g.target.id}]"
            if ok:
                perms.add(h.name)
                changed = True
            else:
                why[h.name] = f"`{unparse(v)[:60]}` is not sorted(<argument>) / a dict rebuilt over it"
    for h in helpers:
        if h.name.startswith("sort"):
            check.ob(rule, h, f"{h.name}() returns a permutation of its argument", h.name in perms,
                     "sorted(<argument>, ...)" if h.name in perms else why.get(h.name, "?"))
    # 2. the overriding entries
    n = 0
    mappers: list[tuple[str, ast.Dict]] = [(x.args.args[0].arg, x.body) for x in ast.walk(fn) if isinstance(x, ast.Lambda) and isinstance(x.body, ast.Dict) and x.args.args]
    for x in ast.walk(fn):  # a mapper written as a local function
        if isinstance(x, ast.FunctionDef) and x is not fn and x.args.args:
            rs = [r for r in walk_body(x) if isinstance(r, ast.Return) and isinstance(r.value, ast.Dict) and None in r.value.keys]
            mappers += [(x.args.args[0].arg, r.value) for r in rs]
    for cfgname, dct in mappers:
        for k, v in zip(dct.keys, dct.values):
            if k is None:
                continue  # **config
            n += 1
            key = k.value if isinstance(k, ast.Constant) else unparse(k)
            inner = v.body if isinstance(v, ast.Lambda) and not v.args.args else v
            ok = isinstance(inner, ast.Call) and isinstance(inner.func, ast.Name) and inner.func.id in perms and bool(inner.args)
            if ok:
                a = inner.args[0]
                if isinstance(a, ast.Call) and not a.args and not a.keywords:
                    a = a.func  # the stored thunk is called
                ok = unparse(a) == f"{cfgname}[{key!r}]" or unparse(a) == f'{cfgname}["{key}"]'
            check.ob(rule, v, f"lexicographic_sort_schema: '{key}': {unparse(v)[:70]}", ok,
                     "a permutation of the collection under the same key" if ok else
                     f"the new value of '{key}' is not SORTER({cfgname}['{key}']): elements can be dropped, added or taken from elsewhere")
    check.floor(rule, 8, "overridden config entries plus sort helpers")
