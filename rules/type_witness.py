"""TYPE-WITNESS / SUPPRESSED-ATTR: the type checker as a compile-fail witness.

mypy (from the repository's own environment, used as a library, non-strict, nothing
executed) type-checks the package from /repo's current source on every run.

  TYPE-WITNESS     in the modules a property anchors, mypy reports no error whose code
                   means "this expression fails at run time for some value of the declared
                   type" (attribute of a union member that lacks it, call that matches no
                   overload, wrong argument type/count, bad operand, bad index).  The
                   pristine tree has none; an edit that passes an AsyncIterable where an
                   AsyncIterator is required type-checks as an error and is reported with
                   mypy's own position and message.

  SUPPRESSED-ATTR  a `# type: ignore` on an attribute access is a stated belief ("this is
                   never None / never the union member without the attribute here").  The
                   package is type-checked a second time with the ignore comments blanked;
                   every union-attr / attr-defined error that appears only then must be
                   discharged: the access sits in a try whose handler covers AttributeError,
                   or it is one of the named invariants below (one construct, one reason).
                   `parent_type.fields  # type: ignore` on a composite type that may be a
                   union (AttributeError out of validate() for `{ u { __typename @stream } }`,
                   repaired in 39dbe7d) is exactly this pattern.
"""

from __future__ import annotations

import ast
import os
import re
from typing import Iterable

from rules.bounds import covered_by_try
from sa.cfg import _suppressed_types
from sa.loader import AnalysisError, Module, Repo, ancestors, qualname_of, repo_root
from sa.report import Check

RUNTIME_CODES = {
    "union-attr", "attr-defined", "call-overload", "arg-type", "call-arg", "operator", "index",
    "misc-call", "not-callable", "name-defined", "return-value", "list-item", "dict-item", "typeddict-item",
    "typeddict-unknown-key", "has-type", "valid-type", "assignment", "override", "func-returns-value",
    "used-before-def", "possibly-undefined", "str-format", "str-bytes-safe", "truthy-function", "abstract",
}  # fmt: skip
ATTR_CODES = {"union-attr", "attr-defined"}
ATTR_CATCHERS = {"AttributeError", "Exception", "BaseException"}

_ERR = re.compile(r"^(?P<file>[^:]+):(?P<line>\d+): error: (?P<msg>.*?)\s+\[(?P<code>[a-z-]+)\]$")
_IGNORE = re.compile(r"#\s*type:\s*ignore(\[[^\]]*\])?")

_cache: dict[tuple[str, bool], list[tuple[str, int, str, str]]] = {}


def mypy_errors(strip: bool = False, repo: Repo | None = None) -> list[tuple[str, int, str, str]]:
    """(file relative to src/, line, code, message) from a fresh in-process mypy build."""
    root = str(repo_root())
    key = (root, strip)
    if key in _cache:
        return _cache[key]
    if not strip and repo is not None:
        # the build that also serves expression types (sa/mtypes.py) - one build per process
        from sa.mtypes import MTypes

        out = []
        for line in MTypes.get(repo).errors:
            m = _ERR.match(line)
            if m:
                out.append((m["file"], int(m["line"]), m["code"], m["msg"]))
        _cache[key] = out
        return out
    try:
        from mypy import build
        from mypy.find_sources import create_source_list
        from mypy.modulefinder import BuildSource
        from mypy.options import Options
    except ImportError as e:  # pragma: no cover
        raise AnalysisError(f"mypy is not importable in this interpreter: {e}") from e
    opts = Options()
    opts.incremental = False
    opts.cache_dir = os.devnull
    opts.python_version = (3, 12)
    opts.follow_imports = "silent"
    opts.hide_error_codes = False
    cwd = os.getcwd()
    try:
        os.chdir(repo_root() / "src")
        sources = create_source_list(["graphql"], opts)
        if strip:
            blank = []
            for s in sources:
                with open(s.path, encoding="utf-8") as f:
                    text = f.read()
                # keep every line and column: replace the comment by a plain one of equal length
                text = _IGNORE.sub(lambda m: "#" + " " * (len(m.group(0)) - 1), text)
                blank.append(BuildSource(s.path, s.module, text, s.base_dir))
            sources = blank
        result = build.build(sources, opts)
    finally:
        os.chdir(cwd)
    out = []
    for line in result.errors:
        m = _ERR.match(line)
        if m:
            out.append((m["file"], int(m["line"]), m["code"], m["msg"]))
    _cache[key] = out
    return out


def _rel(mod: Module) -> str:
    return mod.rel.split("src/", 1)[-1]


def type_witness(check: Check, repo: Repo, mods: Iterable[Module], rule: str = "TYPE-WITNESS") -> None:
    check.rule(
        rule,
        "mypy (library, non-strict) over /repo's current source reports no run-time-failure class error "
        "(union-attr, attr-defined, call-overload, arg-type, call-arg, operator, index, return-value, "
        "assignment ...) in the anchored modules; the pristine count is zero",
    )
    errs = mypy_errors(False, repo)
    by_file: dict[str, list[tuple[int, str, str]]] = {}
    for f, ln, code, msg in errs:
        if code in RUNTIME_CODES:
            by_file.setdefault(f, []).append((ln, code, msg))
    for m in mods:
        bad = by_file.get(_rel(m), [])
        if not bad:
            check.ob(rule, (m.rel, 0, "<module>"), f"{_rel(m)}: type-checks", True, "no run-time-failure class error", nontrivial=False)
        for ln, code, msg in bad:
            fn = _function_at(m, ln)
            ev = _narrowing_evidence(m, ln)
            if ev:
                # mypy does not follow a type test that was stored in a local (`ok = isinstance(x, T)` ...
                # `if not ok: return`): the value *is* narrowed on every path, the message is an artefact
                check.ob(rule, (m.rel, ln, fn), f"[{code}] {msg[:140]}", True,
                         f"narrowed by a dominating test mypy does not track: {ev}")
                continue
            if code == "assignment":
                stored = _optional_only_stored(m, ln)
                if stored:
                    # the local got its type from an earlier, narrower assignment (inference order); nothing ever
                    # dereferences it, so the None it may now hold cannot fail
                    check.ob(rule, (m.rel, ln, fn), f"[{code}] {msg[:140]}", True, stored)
                    continue
                shared = _union_local_attrs_shared(repo, m, ln, msg)
                if shared:
                    check.ob(rule, (m.rel, ln, fn), f"[{code}] {msg[:140]}", True, shared)
                    continue
            check.ob(rule, (m.rel, ln, fn), f"[{code}] {msg[:140]}", False, "mypy: " + msg)
    check.note(mypy_errors=len(errs))


def _class_has_attr(classes, ci, attr: str) -> bool:
    for c in classes.mro(ci):
        for st in c.node.body:
            if isinstance(st, (ast.FunctionDef, ast.AsyncFunctionDef)) and st.name == attr:
                return True
            if isinstance(st, ast.AnnAssign) and isinstance(st.target, ast.Name) and st.target.id == attr:
                return True
            if isinstance(st, ast.Assign) and any(isinstance(t, ast.Name) and t.id == attr for t in st.targets):
                return True
            if isinstance(st, (ast.FunctionDef, ast.AsyncFunctionDef)):
                for x in ast.walk(st):
                    if isinstance(x, ast.Attribute) and isinstance(x.ctx, ast.Store) and x.attr == attr and isinstance(x.value, ast.Name) and x.value.id == "self":
                        return True
    return False


def _union_local_attrs_shared(repo: Repo, m: Module, line: int, msg: str) -> str | None:
    """`x = f()` (type A | None) followed by `if not x: x = g()` (type B | None): mypy fixes the type of the unannotated
    local at the first assignment and reports the second one.  At run time the local simply holds an A or a B; the
    message is an artefact of inference order when (1) the local is not declared, (2) None is admitted by the inferred
    type whenever the new value admits it, and (3) every attribute the function reads from the local exists on every
    repository class the new value can be an instance of."""
    import re

    from sa.loader import enclosing_function, parent
    from sa.resolve import ClassIndex

    mm = re.search(r'expression has type "([^"]+)", variable has type "([^"]+)"', msg)
    if not mm:
        return None
    new_t = [t.strip() for t in mm.group(1).split("|")]
    old_t = [t.strip() for t in mm.group(2).split("|")]
    if "None" in new_t and "None" not in old_t:
        return None
    asg = [s for s in ast.walk(m.tree) if isinstance(s, ast.Assign) and s.lineno <= line <= (s.end_lineno or s.lineno)
           and len(s.targets) == 1 and isinstance(s.targets[0], ast.Name)]
    if len(asg) != 1:
        return None
    fn = enclosing_function(asg[0])
    if fn is None or isinstance(fn, ast.Lambda):
        return None
    name = asg[0].targets[0].id
    if any(isinstance(s, ast.AnnAssign) and isinstance(s.target, ast.Name) and s.target.id == name for s in ast.walk(fn)):
        return None
    if name in {a.arg for a in fn.args.posonlyargs + fn.args.args + fn.args.kwonlyargs}:
        return None
    classes = ClassIndex(repo)
    cis = []
    for t in new_t:
        if t == "None":
            continue
        short = t.split("[")[0].split(".")[-1]
        found = [ci for full, ci in classes.by_full.items() if full.split(".")[-1] == short or full.split(":")[-1] == short]
        if len(found) != 1:
            return None
        cis.append(found[0])
    attrs = set()
    for u in ast.walk(fn):
        if isinstance(u, ast.Name) and u.id == name and isinstance(u.ctx, ast.Load):
            p = parent(u)
            if isinstance(p, ast.Attribute) and p.value is u:
                attrs.add(p.attr)
            elif isinstance(p, (ast.Call, ast.Subscript)) and (getattr(p, "func", None) is u or getattr(p, "value", None) is u):
                return None
            elif isinstance(p, (ast.BinOp, ast.For, ast.comprehension, ast.Starred, ast.Await)):
                return None
    missing = [(ci.node.name, a) for ci in cis for a in sorted(attrs) if not _class_has_attr(classes, ci, a)]
    if missing or not cis:
        return None
    return (f"`{name}` is an undeclared local whose type mypy fixed at its first assignment; the attributes read from it "
            f"({', '.join(sorted(attrs)) or 'none'}) exist on {', '.join(ci.node.name for ci in cis)} as well")


def _optional_only_stored(m: Module, line: int) -> str | None:
    """For `x = <T | None>` into an unannotated local inferred as T: x is never dereferenced in the function."""
    from sa.loader import enclosing_function, parent, unparse

    asg = [s for s in ast.walk(m.tree) if isinstance(s, ast.Assign) and s.lineno <= line <= (s.end_lineno or s.lineno)
           and s.targets and all(isinstance(t, ast.Name) for t in s.targets)]
    if len(asg) != 1:
        return None
    fn = enclosing_function(asg[0])
    if fn is None or isinstance(fn, ast.Lambda):
        return None
    n_uses = 0
    for name in [t.id for t in asg[0].targets]:
        if any(isinstance(s, ast.AnnAssign) and isinstance(s.target, ast.Name) and s.target.id == name for s in ast.walk(fn)):
            return None  # declared on purpose: the declared type is a statement about the value
        if name in {a.arg for a in fn.args.posonlyargs + fn.args.args + fn.args.kwonlyargs}:
            return None
        uses = [n for n in ast.walk(fn) if isinstance(n, ast.Name) and n.id == name and isinstance(n.ctx, ast.Load)]
        n_uses += len(uses)
        for u in uses:
            p = parent(u)
            deref = (isinstance(p, ast.Attribute) and p.value is u) or (isinstance(p, ast.Call) and p.func is u) or (
                isinstance(p, ast.Subscript) and p.value is u) or isinstance(p, (ast.BinOp, ast.UnaryOp, ast.For, ast.comprehension, ast.Starred, ast.Await))
            if deref:
                return None
    names = ", ".join(f"`{t.id}`" for t in asg[0].targets)
    return f"{names} only stored or passed on ({n_uses} use(s), none dereferences it); the type was inferred from an earlier assignment"


_flows: dict[ast.AST, object] = {}


def _narrowing_evidence(m: Module, line: int) -> str | None:
    """A dominating type test (possibly through boolean locals) on a variable used on `line`."""
    from sa.cfg import CFG
    from sa.guards import FactFlow
    from sa.loader import enclosing_function, unparse

    names = [n for n in ast.walk(m.tree) if isinstance(n, ast.Name) and isinstance(n.ctx, ast.Load) and getattr(n, "lineno", -1) <= line <= getattr(n, "end_lineno", -1)]
    # widen to the whole statement the line belongs to
    stmt_names = []
    for st in ast.walk(m.tree):
        if isinstance(st, ast.stmt) and st.lineno <= line <= (st.end_lineno or st.lineno) and not isinstance(st, (ast.FunctionDef, ast.AsyncFunctionDef, ast.ClassDef, ast.If, ast.For, ast.While, ast.Try, ast.With)):
            stmt_names += [n for n in ast.walk(st) if isinstance(n, ast.Name) and isinstance(n.ctx, ast.Load)]
    seen = set()
    for n in names + stmt_names:
        fn = enclosing_function(n)
        if fn is None or isinstance(fn, ast.Lambda):
            continue
        if fn not in _flows:
            try:
                _flows[fn] = FactFlow(CFG(fn))
            except Exception:  # noqa: BLE001
                _flows[fn] = None
        flow = _flows[fn]
        if flow is None:
            continue
        key = (n.id, n.lineno, n.col_offset)
        if key in seen:
            continue
        seen.add(key)
        facts = flow.facts_at(n)  # type: ignore[union-attr]
        eqs = {f.name: f.expr for f in facts if f.kind == "eq"}
        exprs = []
        for f in facts:
            if f.kind != "cond":
                continue
            exprs.append(f.expr)
            for x in ast.walk(f.expr):
                if isinstance(x, ast.Name) and x.id in eqs:
                    exprs.append(eqs[x.id])
                    for y in ast.walk(eqs[x.id]):
                        if isinstance(y, ast.Name) and y.id in eqs:
                            exprs.append(eqs[y.id])
        for e in exprs:
            for c in ast.walk(e):
                if isinstance(c, ast.Call) and c.args and isinstance(c.args[0], ast.Name) and c.args[0].id == n.id:
                    cn = unparse(c.func)
                    if cn in ("isinstance", "callable", "hasattr", "issubclass") or (cn.startswith("is_") and cn.endswith("_type")) or cn.startswith("is_"):
                        return f"`{unparse(c)[:60]}` (via `{unparse(e)[:50]}`)"
                if isinstance(c, ast.Compare) and isinstance(c.left, ast.Name) and c.left.id == n.id and len(c.ops) == 1 \
                        and isinstance(c.ops[0], (ast.Is, ast.IsNot)) and unparse(c.comparators[0]) == "None" and e is not c:
                    return f"`{unparse(c)}` (via `{unparse(e)[:50]}`)"
    return None


def _function_at(m: Module, line: int) -> str:
    best = "<module>"
    best_span = 10**9
    for qn, d in m.defs.items():
        if isinstance(d, (ast.FunctionDef, ast.AsyncFunctionDef)) and d.lineno <= line <= (d.end_lineno or d.lineno):
            span = (d.end_lineno or d.lineno) - d.lineno
            if span < best_span:
                best, best_span = qn, span
    return best


def _attr_nodes_at(m: Module, line: int) -> list[ast.AST]:
    return [n for n in ast.walk(m.tree) if isinstance(n, (ast.Attribute, ast.For, ast.comprehension, ast.Starred, ast.Call)) and getattr(n, "lineno", -1) <= line <= getattr(n, "end_lineno", -1)
            and isinstance(n, ast.Attribute)]


# (file, function, fragment of mypy's message) -> reason.  One named construct each.
ATTR_INVARIANTS: dict[tuple[str, str, str], str] = {
    ("graphql/execution/executor.py", "Executor.abort_error", '"AbortSignal | None" has no attribute "reason"'):
        "abort_error() is only reached after `abort_signal.aborted` tested true on a non-None signal (check_aborted / with_abort_signal)",
    ("graphql/execution/executor.py", "Executor.with_aborted_execution_error", '"AbortSignal | None" has no attribute "aborted"'):
        "called only from the branch of execute_operation that tested `self.abort_signal is not None`",
    ("graphql/execution/executor.py", "Executor.with_aborted_execution_error", '"AbortSignal | None" has no attribute "wait"'):
        "same receiver as the `aborted` test two lines above",
    ("graphql/execution/executor.py", "Executor.create_aborted_execution_error", '"AbortSignal | None" has no attribute "reason"'):
        "only called after the abort signal fired",
    ("graphql/execution/incremental/stream_item_queue.py", "StreamItemQueue.abort", '"Task[None] | None" has no attribute "cancel"'):
        "guarded by `running`/`parked`, both conjunctions that start with `producer_task is not None`",
    ("graphql/execution/async_iterables.py", "aclosing.__aexit__", 'has no attribute "aclose"'):
        "",
    ("graphql/error/graphql_error.py", "GraphQLError.__init__", 'has no attribute "__iter__"'):
        "`nodes` is a list at this point: the statement before normalises a tuple with list(nodes) and wraps anything else as [nodes]",
    ("graphql/type/definition.py", "GraphQLEnumType.__init__", '"Enum" has no attribute "__members__"'):
        "arm guarded by isinstance(values, type) and issubclass(values, Enum): an Enum *class*, which has __members__",
}


def suppressed_attr(check: Check, repo: Repo, mods: Iterable[Module], rule: str = "SUPPRESSED-ATTR") -> None:
    check.rule(
        rule,
        "with every `# type: ignore` blanked, each union-attr / attr-defined error mypy then reports in the "
        "anchored modules is discharged by an enclosing handler for AttributeError or by a named invariant "
        "(ATTR_INVARIANTS); an undischarged one is an attribute access on a value whose declared type "
        "includes a member without that attribute, silenced by a comment",
    )
    base = {(f, ln, code) for f, ln, code, _ in mypy_errors(False, repo)}
    errs = [e for e in mypy_errors(True) if e[2] in ATTR_CODES and (e[0], e[1], e[2]) not in base]
    mods = list(mods)
    by_rel = {_rel(m): m for m in mods}
    n = 0
    for f, ln, code, msg in errs:
        m = by_rel.get(f)
        if m is None:
            continue
        n += 1
        fn = _function_at(m, ln)
        nodes = _attr_nodes_at(m, ln)
        t = None
        for a in nodes:
            t = covered_by_try(a, ATTR_CATCHERS)
            if t is not None:
                break
        if t is not None:
            check.ob(rule, (m.rel, ln, fn), f"[{code}] {msg[:120]}", True, f"inside try/except covering AttributeError (line {t.lineno})")
            continue
        w = next((x for a in nodes for x in ancestors(a) if isinstance(x, (ast.With, ast.AsyncWith)) and set(_suppressed_types(x)) & ATTR_CATCHERS), None)
        if w is not None:
            check.ob(rule, (m.rel, ln, fn), f"[{code}] {msg[:120]}", True, f"inside `with suppress(...)` covering AttributeError (line {w.lineno})")
            continue
        key = next((k for k in ATTR_INVARIANTS if k[0] == f and k[1] == fn and k[2] in msg and ATTR_INVARIANTS[k]), None)
        check.ob(rule, (m.rel, ln, fn), f"[{code}] {msg[:120]}", key is not None,
                 "invariant: " + ATTR_INVARIANTS[key] if key else "suppressed by `# type: ignore`, no handler for AttributeError, not a listed invariant")
    check.note(suppressed_attr_errors=n)
